"""Native probe (C04): is the sandbox removed when a case makes a sandbox file / directory read-only?
Run as root (drops to uid 65534 for the child): /venv/bin/python notes/C04_ro_dir_probe.py"""
import os
import stat
import subprocess
import sys
import tempfile

here = tempfile.mkdtemp(prefix='c04-probe-')
tmpdir = os.path.join(here, 'tmp')
os.mkdir(tmpdir)
os.chmod(here, 0o777)
os.chmod(tmpdir, 0o777)

def drop():
    os.setgid(65534)
    os.setuid(65534)


CASES = {
    'ro_file': '[setup]\nfile f.txt = "hello"\nrun % chmod 444 f.txt\n[act]\n% echo hi\n[assert]\nexit-code == 0\n',
    'ro_dir': '[setup]\ndir d\nfile d/f.txt = "hello"\nrun % chmod 555 d\n[act]\n% echo hi\n[assert]\nexit-code == 0\n',
}
for name, src in CASES.items():
    case = os.path.join(here, name + '.case')
    with open(case, 'w') as f:
        f.write(src)
    env = dict(os.environ, TMPDIR=tmpdir, PYTHONPATH='/repo/src')
    p = subprocess.run(['/usr/bin/python3', '/repo/src/default-main-program-runner.py', case], env=env,
                       capture_output=True, text=True, preexec_fn=drop, cwd=here)
    left = os.listdir(tmpdir)
    print(name, 'exit', p.returncode, p.stdout.strip(), '| left behind in TMPDIR:', left, '| run as uid 65534', p.stderr.strip()[-200:])
    for root, dirs, files in os.walk(tmpdir):
        for d in dirs:
            os.chmod(os.path.join(root, d), stat.S_IRWXU)
