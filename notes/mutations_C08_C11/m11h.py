E='impls/instructions/multi_phase/environ/impl.py'
U='util/file_utils/misc_utils.py'
MUTATIONS=[
 ('ddv-set-name-from-value', E, '''        return ModifierAdvForSet(self._name.value_of_any_dependency(tcds),
                                 self._value.value_of_any_dependency(tcds))''', '''        return ModifierAdvForSet('X' + self._name.value_of_any_dependency(tcds),
                                 self._value.value_of_any_dependency(tcds))'''),
 ('sdv-unset-other-symbols', E, '''        return ModifierDdvForUnset(self._var_name.resolve(symbols))''', '''        return ModifierDdvForUnset(self._var_name.resolve(SymbolTable()))'''),
 ('preserved-cwd-no-restore', U, '''    finally:
        os.chdir(cwd_to_preserve)''', '''    finally:
        pass'''),
]
