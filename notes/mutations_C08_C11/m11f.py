X='execution/partial_execution/impl/executor.py'
MUTATIONS=[
 ('init-act-set-aliased', X, '''        self._setup_settings_handler = conf.mk_setup_settings_handler(
            functional.map_optional(dict, conf.exe_conf.environ)
        )''', '''        self._setup_settings_handler = conf.mk_setup_settings_handler(
            conf.exe_conf.environ
        )'''),
 ('init-nonact-empty', X, '''        self._instruction_settings = InstructionSettings(
            functional.map_optional(dict, conf.exe_conf.environ),''', '''        self._instruction_settings = InstructionSettings(
            {},'''),
 ('init-no-timeout', X, '''            conf.exe_conf.timeout_in_seconds,
        )''', '''            None,
        )'''),
]
