X='execution/partial_execution/impl/executor.py'
D='impls/instructions/multi_phase/define_symbol/parser.py'
MUTATIONS=[
 ('post-sds-table-aliased', X, '''        self.__post_sds_symbol_table = self.exe_conf.predefined_symbols.copy()''', '''        self.__post_sds_symbol_table = self.exe_conf.predefined_symbols'''),
 ('post-sds-no-chdir', X, '''        self._construct_and_set_sds()
        self._set_cwd_to_act_dir()''', '''        self._construct_and_set_sds()'''),
 ('atc-exec-with-validation-table', X, '''            self._phase_tmp_space_factory.for_phase__main(phase_identifier.ACT),
            self.__post_sds_symbol_table,''', '''            self._phase_tmp_space_factory.for_phase__main(phase_identifier.ACT),
            self._instruction_environment_pre_sds.symbols,'''),
 ('def-main-noop', D, '''        symbols.put(self.symbol.name,
                    self.symbol.symbol_container)''', '''        pass'''),
 ('def-main-own-table', D, '''        self.custom_main(environment.symbols)''', '''        self.custom_main(environment.symbols.copy())'''),
 ('def-usages-empty', D, '''        return [self.symbol]''', '''        return []'''),
]
