PSV='execution/partial_execution/impl/symbol_validation.py'
MUTATIONS=[
 ('validator-no-copy', PSV, '''        self._symbols = initial_symbols.copy()''', '''        self._symbols = initial_symbols'''),
 ('validator-executor-own-table', PSV, '''        self._validation_executor = ValidateSymbolsExecutor(self._symbols)''', '''        self._validation_executor = ValidateSymbolsExecutor(self._symbols.copy())'''),
 ('validate-order-swapped', PSV, '''        self._validate_atc()
        self._validate(phase_step.BEFORE_ASSERT__VALIDATE_SYMBOLS,
                       test_case.before_assert_phase)''', '''        self._validate(phase_step.BEFORE_ASSERT__VALIDATE_SYMBOLS,
                       test_case.before_assert_phase)
        self._validate_atc()'''),
 ('validate-cleanup-skipped', PSV, '''        self._validate(phase_step.CLEANUP__VALIDATE_SYMBOLS,
                       test_case.cleanup_phase)''', '''        pass'''),
 ('validate-wrong-phase', PSV, '''        self._validate(phase_step.ASSERT__VALIDATE_SYMBOLS,
                       test_case.assert_phase)''', '''        self._validate(phase_step.ASSERT__VALIDATE_SYMBOLS,
                       test_case.setup_phase)'''),
 ('atc-failure-ignored', PSV, '''            if res is not None:
                raise PhaseStepFailureException(''', '''            if False:
                raise PhaseStepFailureException('''),
 ('atc-wrong-status', PSV, '''failure_con.apply(ExecutionFailureStatus(res.status.value),''', '''failure_con.apply(ExecutionFailureStatus.HARD_ERROR,'''),
 ('apply-fresh-table', PSV, '''        return validate_symbol_usages(symbol_user.symbol_usages(),
                                      self.__symbols)''', '''        return validate_symbol_usages(symbol_user.symbol_usages(),
                                      self.__symbols.copy())'''),
 ('validate-swallow-failure', PSV, '''        self._validate(phase_step.SETUP__VALIDATE_SYMBOLS,
                       test_case.setup_phase)''', '''        try:
            self._validate(phase_step.SETUP__VALIDATE_SYMBOLS,
                           test_case.setup_phase)
        except PhaseStepFailureException:
            pass'''),
]
