"""usage: run.py PROP mutations.py  -- mutations.py defines MUTATIONS = [(label, relpath, old, new), ...]"""
import os, subprocess, sys, shutil
prop, mfile = sys.argv[1], sys.argv[2]
only = sys.argv[3:] 
ns = {}
exec(open(mfile).read(), ns)
root = '/tmp/w/F-mut/src/exactly_lib/'
for (label, rel, old, new) in ns['MUTATIONS']:
    if only and not any(o in label for o in only):
        continue
    orig = open('/repo/src/exactly_lib/' + rel).read()
    if orig.count(old) != 1:
        print('!!', label, ': pattern occurs', orig.count(old), 'times'); continue
    open(root + rel, 'w').write(orig.replace(old, new))
    try:
        p = subprocess.run(['python3-vt', '-m', 'pyvc.check', prop, '--no-evidence', '--jobs', '3'], cwd='/tmp/w/F',
                           env=dict(os.environ, PYVC_REPO='/tmp/w/F-mut'), capture_output=True, text=True)
        lines = [l.strip() for l in p.stdout.splitlines() if l.strip().startswith(('obligation:', 'UNDECIDED', 'CHECKER-ERROR'))]
        print('== %s: exit %d' % (label, p.returncode))
        for l in lines[:6]:
            print('     ', l[:230])
    finally:
        open(root + rel, 'w').write(orig)
