X='execution/partial_execution/impl/executor.py'
S='execution/impl/phase_step_executors.py'
H='execution/partial_execution/setup_settings_handler.py'
A='impls/actors/util/atc_proc_exe_settings.py'
MUTATIONS=[
 ('env-timeout-from-conf', X, '''            ProcessExecutionSettings(self._instruction_settings.timeout_in_seconds(),
                                     self._env_vars__read_only()),
            self.__sandbox_directory_structure,''', '''            ProcessExecutionSettings(self.exe_conf.timeout_in_seconds,
                                     self._env_vars__read_only()),
            self.__sandbox_directory_structure,'''),
 ('env-environ-copy', X, '''            MappingProxyType(mb_environ_rw)''', '''            MappingProxyType({})'''),
 ('env-environ-rw', X, '''            MappingProxyType(mb_environ_rw)''', '''            mb_environ_rw'''),
 ('main-envs-eager', X, '''        for instruction_number in itertools.count(1):
            yield self._post_sds_environment(
                self._phase_tmp_space_factory.instruction__main(phase, instruction_number),
                self.__post_sds_symbol_table,
            )''', '''        the_env = self._post_sds_environment(
                self._phase_tmp_space_factory.instruction__main(phase, 1),
                self.__post_sds_symbol_table,
            )
        for instruction_number in itertools.count(1):
            yield the_env'''),
 ('main-envs-validation-symbols', X, '''                self._phase_tmp_space_factory.instruction__main(phase, instruction_number),
                self.__post_sds_symbol_table,''', '''                self._phase_tmp_space_factory.instruction__main(phase, instruction_number),
                self._instruction_environment_pre_sds.symbols,'''),
 ('setup-main-fresh-settings', S, '''            instruction.main(next(self._instruction_environments),
                             self._instruction_settings,
                             self._os_services,
                             self._settings_builder))''', '''            instruction.main(next(self._instruction_environments),
                             InstructionSettings(None, self._instruction_settings.default_environ_getter, None),
                             self._os_services,
                             self._settings_builder))'''),
 ('atc-input-non-act', H, '''        return AtcExecutionInputAdv(self._builder.stdin, self._builder.environ)''', '''        return AtcExecutionInputAdv(self._builder.stdin, None)'''),
 ('for-atc-env-of-instructions', A, '''        execution_input.environ,''', '''        environment.proc_exe_settings.environ,'''),
 ('for-atc-no-timeout', A, '''        environment.proc_exe_settings.timeout_in_seconds,''', '''        None,'''),
]
