SV='execution/impl/symbol_validation.py'
ST='util/symbol_table.py'
MUTATIONS=[
 ('usages-continue-after-failure', SV, '''        result = validate_symbol_usage(symbol_usage, symbols)
        if result is not None:
            return result
    return None''', '''        result = validate_symbol_usage(symbol_usage, symbols)
    return None'''),
 ('def-duplicate-allowed', SV, '''    if symbol_table.contains(definition.name):''', '''    if False and symbol_table.contains(definition.name):'''),
 ('def-added-before-refs-validated', SV, '''    else:
        for referenced_value in definition.references:''', '''    else:
        symbol_table.add(definition.symbol_table_entry)
        for referenced_value in definition.references:'''),
 ('def-not-added', SV, '''        symbol_table.add(definition.symbol_table_entry)
        return None''', '''        return None'''),
 ('def-refs-not-validated', SV, '''            failure_info = validate_symbol_usage(referenced_value, symbol_table)
            if failure_info is not None:
                return failure_info''', '''            pass'''),
 ('ref-undefined-accepted', SV, '''    if not symbol_table.contains(reference.name):''', '''    if False:'''),
 ('ref-restriction-ignored', SV, '''        if err_msg is not None:
            return PartialInstructionControlledFailureInfo(
                PartialControlledFailureEnum.VALIDATION_ERROR,
                err_msg
            )''', '''        pass'''),
 ('ref-wrong-status', SV, '''        return PartialInstructionControlledFailureInfo(
            PartialControlledFailureEnum.VALIDATION_ERROR,
            error_messages.undefined_symbol(reference))''', '''        return PartialInstructionControlledFailureInfo(
            PartialControlledFailureEnum.HARD_ERROR,
            error_messages.undefined_symbol(reference))'''),
 ('reference-restriction-inverted', SV, '''    if result is None:
        return None
    return restriction_failures.ErrorMessage(''', '''    if result is not None:
        return None
    return restriction_failures.ErrorMessage('''),
 ('validate-ref-wrong-container', SV, '''    result = symbol_reference.restrictions.is_satisfied_by(symbols, symbol_reference.name,
                                                           referenced_sdv_container)''', '''    result = symbol_reference.restrictions.is_satisfied_by(symbols, symbol_reference.name + 'x',
                                                           referenced_sdv_container)'''),
 ('usage-dispatch-swapped', SV, '''    if isinstance(usage, SymbolReference):
        return _validate_symbol_reference(symbol_table, usage)''', '''    if isinstance(usage, SymbolReference):
        return None'''),
 ('table-copy-aliased', ST, '''        return SymbolTable(copy.copy(self._key_2_value))''', '''        return SymbolTable(self._key_2_value)'''),
 ('table-add-swapped', ST, '''        self._key_2_value[entry.key] = entry.value''', '''        self._key_2_value[entry.key + '_'] = entry.value'''),
 ('table-lookup-no-keyerror', ST, '''            return self._key_2_value[name]
        except KeyError:
            raise KeyError('Name not in symbol table: "{}"'.format(name))''', '''            return self._key_2_value[name]
        except KeyError:
            return None'''),
 ('def-failure-but-added', SV, '''            if failure_info is not None:
                return failure_info
        symbol_table.add''', '''            if failure_info is not None:
                symbol_table.add(definition.symbol_table_entry)
                return failure_info
        symbol_table.add'''),
]
