E='impls/instructions/multi_phase/environ/impl.py'
MUTATIONS=[
 ('set-expand-after-change', E, '''        environ[self._name] = _expand_vars(self._value, environ)''', '''        environ[self._name] = ''
        environ[self._name] = _expand_vars(self._value, environ)'''),
 ('set-no-expand', E, '''        environ[self._name] = _expand_vars(self._value, environ)''', '''        environ[self._name] = self._value'''),
 ('unset-raises', E, '''        try:
            del environ[self.name]
        except KeyError:
            pass''', '''        del environ[self.name]'''),
 ('unset-clears-all', E, '''            del environ[self.name]
        except KeyError:''', '''            del environ[self.name]
            environ.clear()
        except KeyError:'''),
 ('nonact-no-populate', E, '''        modifier = modifier.primitive(self._app_env_constructor.of(self._instruction_settings.environ()))
        self._populate_if_is_unpopulated()''', '''        modifier = modifier.primitive(self._app_env_constructor.of(self._instruction_settings.environ()))'''),
 ('act-applier-modifies-nonact', E, '''        modifier.modify(self._setup_phase_settings.environ)''', '''        modifier.modify(self._instruction_settings.environ())'''),
 ('act-applier-populates-from-nonact', E, '''            settings.environ = self._instruction_settings.default_environ_getter()''', '''            settings.environ = self._instruction_settings.environ()'''),
 ('act-value-in-nonact-env', E, '''        modifier = modifier.primitive(self._app_env_constructor.of(self._setup_phase_settings.environ))''', '''        modifier = modifier.primitive(self._app_env_constructor.of(self._instruction_settings.environ()))'''),
 ('nonact-repopulate-always', E, '''        settings = self._instruction_settings
        if settings.environ() is None:
            settings.set_environ(settings.default_environ_getter())''', '''        settings = self._instruction_settings
        settings.set_environ(settings.default_environ_getter())'''),
 ('adv-set-wrong-name', E, '''        return ModifierOfSet(self._name, value_str)''', '''        return ModifierOfSet(value_str, self._name)'''),
 ('nonact-resets-timeout', E, '''        modifier.modify(self._instruction_settings.environ())''', '''        modifier.modify(self._instruction_settings.environ())
        self._instruction_settings.set_timeout(None)'''),
]
