SI='type_val_deps/types/string_/string_sdv_impls.py'
SS='type_val_deps/types/string_/string_sdv.py'
SD='type_val_deps/types/string_/string_ddv.py'
DS='type_val_deps/types/string_/strings_ddvs.py'
MUTATIONS=[
 ('list-in-string-joined-by-comma', DS, '''        return ' '.join(value)''', '''        return ','.join(value)'''),
 ('list-in-string-first-only', DS, '''        return ' '.join(value)''', '''        return value[0] if value else \'\''''),
 ('string-fragment-transformed', DS, '''    def _to_string(self, value) -> str:
        return value

    def __str__(self):
        return '{}({})'.format('StringValueFragment',''', '''    def _to_string(self, value) -> str:
        return value + ' '

    def __str__(self):
        return '{}({})'.format('StringValueFragment','''),
 ('symbol-fragment-list-as-path', SI, '''        elif isinstance(value, ListDdv):
            return csv.ListFragmentDdv(value)''', '''        elif isinstance(value, ListDdv):
            return csv.PathFragmentDdv(value)'''),
 ('symbol-fragment-other-table', SI, '''        value = value_sdv.resolve(symbols)
        if isinstance(value, sv.StringDdv):''', '''        value = value_sdv.resolve(symbols.copy())
        if isinstance(value, sv.StringDdv):'''),
 ('string-resolve-reversed', SS, '''        return sv.StringDdv(tuple(fragments))''', '''        return sv.StringDdv(tuple(fragments[1:]))'''),
 ('string-value-separator', SD, '''        fragment_strings = [f.value_of_any_dependency(tcds)
                            for f in self._fragments]
        return \'\'.join(fragment_strings)''', '''        fragment_strings = [f.value_of_any_dependency(tcds)
                            for f in self._fragments]
        return ' '.join(fragment_strings)'''),
 ('string-value-no-deps-instead', SD, '''        fragment_strings = [f.value_of_any_dependency(tcds)
                            for f in self._fragments]''', '''        fragment_strings = [f.value_when_no_dir_dependencies()
                            for f in self._fragments]'''),
 ('const-fragment-wrong', DS, '''    def value_of_any_dependency(self, tcds: TestCaseDs) -> str:
        return self.string_constant

    def describer(self) -> Renderer[str]:
        return rend_comb.ConstantR(self.string_constant)''', '''    def value_of_any_dependency(self, tcds: TestCaseDs) -> str:
        return self.string_constant.strip()

    def describer(self) -> Renderer[str]:
        return rend_comb.ConstantR(self.string_constant)'''),
]
