E='impls/instructions/multi_phase/environ/impl.py'
MUTATIONS=[
 ('main-act-ignored', E, '''        if Phase.ACT in self._phases:
            appliers.append(factory.applier_for_act())''', '''        if False:
            appliers.append(factory.applier_for_act())'''),
 ('main-phases-swapped', E, '''        if Phase.NON_ACT in self._phases:
            appliers.append(factory.applier_for_non_act())''', '''        if Phase.ACT in self._phases:
            appliers.append(factory.applier_for_non_act())'''),
 ('main-factory-always-non-setup', E, '''            if setup_phase_settings is None
            else
            _ApplierFactoryWSupportForSetupAndNonSetupPhases(instruction_settings,''', '''            if True
            else
            _ApplierFactoryWSupportForSetupAndNonSetupPhases(instruction_settings,'''),
 ('factory-act-applier-is-nonact', E, '''        return ModifierApplierForSetupPhase(self.instruction_settings,
                                            self.app_env_constructor,
                                            self._setup_phase_settings,
                                            )''', '''        return ModifierApplierForNonSetupPhase(self.instruction_settings,
                                               self.app_env_constructor)'''),
 ('nonsetup-act-applier-not-empty', E, '''    def applier_for_act(self) -> ModifierApplier:
        return SequenceOfAppliers.empty()''', '''    def applier_for_act(self) -> ModifierApplier:
        return ModifierApplierForNonSetupPhase(self.instruction_settings,
                                               self.app_env_constructor)'''),
 ('sequence-applies-first-only', E, '''        for applier in self._appliers:
            applier.apply(modifier)''', '''        for applier in self._appliers[:1]:
            applier.apply(modifier)'''),
 ('main-not-applied', E, '''        modifier_applier.apply(modifier_adv)''', '''        pass'''),
]
