RR='type_val_deps/sym_ref/w_str_rend_restrictions/reference_restrictions.py'
MUTATIONS=[
 ('or-no-type-check', RR, '''        if container.value_type not in value_type.VALUE_TYPES_W_STR_RENDERING:
            return self._no_satisfied_restriction(symbol_name, container)
        type_w''', '''        type_w'''),
 ('or-last-part-decides', RR, '''            if part.selector == type_w_str_rendering:
                return part.restriction.is_satisfied_by(symbol_table, symbol_name, container)
        return self._no_satisfied_restriction(symbol_name, container)''', '''            if part.selector == type_w_str_rendering:
                r = part.restriction.is_satisfied_by(symbol_table, symbol_name, container)
                if r is None:
                    return None
        return self._no_satisfied_restriction(symbol_name, container)'''),
 ('or-no-part-accepts', RR, '''                return part.restriction.is_satisfied_by(symbol_table, symbol_name, container)
        return self._no_satisfied_restriction(symbol_name, container)''', '''                return part.restriction.is_satisfied_by(symbol_table, symbol_name, container)
        return None'''),
 ('or-selector-ignored', RR, '''            if part.selector == type_w_str_rendering:''', '''            if True:'''),
]
