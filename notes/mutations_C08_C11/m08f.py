L='type_val_deps/types/list_/list_sdv.py'
LD='type_val_deps/types/list_/list_ddv.py'
MUTATIONS=[
 ('list-ref-not-spliced', L, '''        if isinstance(ddv, ListDdv):
            return list(ddv.string_elements)''', '''        if isinstance(ddv, ListDdv):
            return list(ddv.string_elements)[:1]'''),
 ('list-resolve-reversed', L, '''            value_elements.extend(sdv_element.resolve(symbols))
        return ListDdv(value_elements)''', '''            value_elements = list(sdv_element.resolve(symbols)) + value_elements
        return ListDdv(value_elements)'''),
 ('list-string-elem-split', L, '''        if isinstance(ddv, StringDdv):
            return [ddv]''', '''        if isinstance(ddv, StringDdv):
            return [ddv, ddv]'''),
 ('list-ddv-values-reversed', LD, '''        return [e.value_of_any_dependency(tcds)
                for e in self._string_elements]''', '''        return [e.value_of_any_dependency(tcds)
                for e in self._string_elements[::-1]]'''),
]
