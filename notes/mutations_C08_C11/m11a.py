E='impls/instructions/multi_phase/environ/impl.py'
MUTATIONS=[
 ('expand-unknown-not-empty', E, '''        except KeyError:
            return \'\'''', '''        except KeyError:
            return reference'''),
 ('expand-drop-text-before', E, '''        processed += remaining[:match.start()]
''', ''''''),
 ('expand-rescan', E, '''        remaining = remaining[match.end():]''', '''        remaining = substitute(remaining[match.start():match.end()]) + remaining[match.end():]'''),
 ('expand-name-off-by-one', E, '''        var_name = reference[2:-1]''', '''        var_name = reference[1:-1]'''),
 ('expand-drop-tail', E, '''    processed += remaining
    return processed''', '''    return processed'''),
 ('expand-only-first', E, '''        remaining = remaining[match.end():]
        match = _ENV_VAR_REFERENCE.search(remaining)''', '''        remaining = remaining[match.end():]
        match = None'''),
]
