P='impls/instructions/multi_phase/environ/parse.py'
T='impls/instructions/multi_phase/timeout/impl.py'
C='impls/instructions/multi_phase/change_dir.py'
IS='test_case/phases/instruction_settings.py'
MUTATIONS=[
 ('parse-act-means-nonact', P, '''    defs.PHASE_SPEC__ACT: frozenset((_impl.Phase.ACT,)),''', '''    defs.PHASE_SPEC__ACT: frozenset((_impl.Phase.NON_ACT,)),'''),
 ('parse-default-act-only', P, '''_ALL_PHASES = frozenset(_impl.Phase)''', '''_ALL_PHASES = frozenset((_impl.Phase.ACT,))'''),
 ('timeout-not-set', T, '''        settings.set_timeout(value)''', '''        pass'''),
 ('timeout-none-keeps-old', T, '''        value = functional.reduce_optional(resolve, None, self._value)''', '''        value = functional.reduce_optional(resolve, settings.timeout_in_seconds(), self._value)'''),
 ('timeout-clears-environ', T, '''        settings.set_timeout(value)''', '''        settings.set_timeout(value)
        settings.set_environ(None)'''),
 ('cd-error-swallowed-as-success', C, '''        except FileNotFoundError:
            return error('Directory does not exist')''', '''        except FileNotFoundError:
            return None'''),
 ('cd-twice', C, '''            os.chdir(str(path.primitive))
        except''', '''            os.chdir(str(path.primitive))
            os.chdir('/')
        except'''),
 ('set-timeout-wrong-field', IS, '''    def set_timeout(self, seconds: Optional[int]):
        self._timeout_in_seconds = seconds''', '''    def set_timeout(self, seconds: Optional[int]):
        self._environ = None'''),
]
