RR='type_val_deps/sym_ref/w_str_rend_restrictions/reference_restrictions.py'
VR='type_val_deps/sym_ref/w_str_rend_restrictions/value_restrictions.py'
PR='type_val_deps/sym_ref/restrictions.py'
MUTATIONS=[
 ('indirect-not-recursive', RR, '''            result = self._check_indirect(symbol_table,
                                          path_to_referring_symbol + (reference.name,),
                                          container.sdv.references)
            if result is not None:
                return result''', '''            pass'''),
 ('indirect-skip-own-check', RR, '''            result = self._indirect.is_satisfied_by(symbol_table, reference.name, container)
            if result is not None:
                return FailureOfIndirectReference(''', '''            result = self._indirect.is_satisfied_by(symbol_table, reference.name, container)
            if False:
                return FailureOfIndirectReference('''),
 ('indirect-first-only', RR, '''            if result is not None:
                return result
        return None


class OrRestrictionPart''', '''            return result
        return None


class OrRestrictionPart'''),
 ('direct-ignored', RR, '''        if result is not None:
            return FailureOfDirectReference(result)
        if self._indirect is None:''', '''        if self._indirect is None:'''),
 ('indirect-ignored', RR, '''        return self.check_indirect(symbol_table, container.sdv.references)''', '''        return None'''),
 ('indirect-uses-direct', RR, '''            result = self._indirect.is_satisfied_by(symbol_table, reference.name, container)''', '''            result = self._direct.is_satisfied_by(symbol_table, reference.name, container)'''),
 ('arbitrary-inverted', VR, '''        if container.value_type not in self._accepted:''', '''        if container.value_type in self._accepted:'''),
 ('arbitrary-init-wrong-map', VR, '''            value_type.W_STR_RENDERING_TYPE_2_VALUE_TYPE[t]
            for t in accepted''', '''            value_type.W_STR_RENDERING_TYPE_2_VALUE_TYPE[t]
            for t in accepted[1:]'''),
 ('value-type-restriction-always-ok', PR, '''        if container.value_type in self._expected:
            return None''', '''        if True:
            return None'''),
]
