"""usage: mutate.py <prop> <name>   -- applies one named mutation to a fresh copy /tmp/w/G-mut/src and runs the check"""
import os, shutil, subprocess, sys

MUT = {
 # name: (file, old, new)
 'validation-absolute-accepted': ('tcfs/relativity_validation.py', 'return accepted_relativities.absolute', 'return True'),
 'restriction-always-satisfied': ('type_val_deps/sym_ref/w_str_rend_restrictions/value_restrictions.py', '        if satisfaction:\n', '        if satisfaction or True:\n'),
 'restriction-not-resolved': ('type_val_deps/sym_ref/w_str_rend_restrictions/value_restrictions.py', 'actual_relativity = path.relativity()', 'from exactly_lib.tcfs.path_relativity import specific_relative_relativity, RelOptionType\n        actual_relativity = specific_relative_relativity(RelOptionType.REL_ACT)'),
 'stacked-relativity-lost': ('type_val_deps/types/path/path_ddvs.py', '        return self.base_path.relativity()\n', '        return SPECIFIC_ABSOLUTE_RELATIVITY\n'),
 'stacked-join-order': ('type_val_deps/types/path/path_ddvs.py', 'return self.base_path.value_post_sds(sds) / self._stacked_path_suffix_path()', 'return self._stacked_path_suffix_path() / self.base_path.value_post_sds(sds)'),
 'option-not-checked': ('impls/types/path/parse_relativity.py', '    if rel_option_type not in options.accepted_options:\n        return _raise_invalid_option(option_str, options)\n', ''),
 'rel-symbol-unrestricted': ('impls/types/path/parse_relativity.py', 'reference_restrictions_for_path_symbol(options.accepted_relativity_variants))', 'reference_restrictions_for_path_symbol(PathRelativityVariants(set(RelOptionType), True)))'),
 'cwd-cached': ('tcfs/relativity_root.py', '    def from_cwd(self) -> pathlib.Path:\n        return pathlib.Path().cwd()', '    _CWD = pathlib.Path().cwd()\n\n    def from_cwd(self) -> pathlib.Path:\n        return self._CWD'),
 'visit-path-no-lstrip': ('type_val_deps/types/path/path_sdv_impls/path_from_symbol_reference.py', "        suffix_str = suffix_str.lstrip('/')\n", ''),
 'leading-symbol-unrestricted': ('impls/types/path/parse_path.py', 'self._rel_opt_conf.options.accepted_relativity_variants)\n                            ),', 'type(self._rel_opt_conf.options.accepted_relativity_variants)(set(RelOptionType), True))\n                            ),'),
 'file-creation-accepts-home': ('type_val_deps/types/path/rel_opts_configuration.py', 'RELATIVITY_VARIANTS_FOR_FILE_CREATION = PathRelativityVariants({RelOptionType.REL_ACT,', 'RELATIVITY_VARIANTS_FOR_FILE_CREATION = PathRelativityVariants({RelOptionType.REL_ACT, RelOptionType.REL_HDS_CASE,'),
 'option-name-swapped': ('tcfs/relative_path_options.py', "REL_SDS_TMP_INFO = RelSdsOptionInfo(path_texts.EXACTLY_DIR__REL_TMP, path_texts.REL_TMP_OPTION_NAME,", "REL_SDS_TMP_INFO = RelSdsOptionInfo(path_texts.EXACTLY_DIR__REL_TMP, path_texts.REL_RESULT_OPTION_NAME,"),
 'rel-hds-wrong-root': ('type_val_deps/types/path/path_ddvs.py', 'root = relative_path_options.REL_HDS_OPTIONS_MAP[self._rel_option].root_resolver.from_hds(hds)', 'root = hds.case_dir'),
 'visit-string-abs-as-relative': ('type_val_deps/types/path/path_sdv_impls/path_from_symbol_reference.py', '        if path.is_absolute():\n            return path_ddvs.absolute_file_name(path_str)\n        else:\n', '        if True:\n'),
 'explicit-abs-not-checked': ('impls/types/path/parse_path.py', '            if path_argument_path.is_absolute():\n                return path_sdvs.constant(path_ddvs.absolute_file_name(path_argument_str))\n', ''),
 'default-option-ignored': ('impls/types/path/parse_path.py', "        return path_sdvs.constant(path_ddvs.of_rel_option(self.conf.rel_opt_conf.options.default_option,\n                                                          path_suffix))", "        return path_sdvs.constant(path_ddvs.of_rel_option(RelOptionType.REL_HDS_CASE,\n                                                          path_suffix))"),
 'enum-value-mismatch': ('tcfs/path_relativity.py', 'class RelSdsOptionType(enum.Enum):\n    """\n    Denotes directories in the Sandbox Directory Structure.\n\n    Id values must match those of `RelOptionType`\n    """\n    REL_ACT = 3\n    REL_TMP = 4', 'class RelSdsOptionType(enum.Enum):\n    """\n    Denotes directories in the Sandbox Directory Structure.\n\n    Id values must match those of `RelOptionType`\n    """\n    REL_ACT = 4\n    REL_TMP = 3'),
}


MUT.update({
 'min-depth-strict': ('impls/types/files_matcher/models.py', 'return self._min_depth is None or depth >= self._min_depth', 'return self._min_depth is None or depth > self._min_depth'),
 'max-depth-ge': ('impls/types/files_matcher/models.py', 'return self._max_depth is not None and depth == self._max_depth', 'return self._max_depth is not None and depth + 1 == self._max_depth'),
 'sub-set-disjunction': ('impls/types/files_matcher/models.py', "else combinator_matchers.Conjunction([self._files_selection,\n                                                  selector])", "else combinator_matchers.Disjunction([self._files_selection,\n                                                  selector])"),
 'prune-drops-old': ('impls/types/files_matcher/models.py', "            dir_selector\n            if self._directory_prune is None\n            else combinator_matchers.Disjunction([self._directory_prune,\n                                                  dir_selector])", "            dir_selector"),
 'files-selection-negated': ('impls/types/files_matcher/models.py', 'if self._files_selection.matches_w_trace(file_model.as_file_matcher_model()).value', 'if not self._files_selection.matches_w_trace(file_model.as_file_matcher_model()).value'),
 'sub-dir-depth-2': ('impls/types/files_matcher/models.py', '            self.depth + 1,', '            self.depth + 2,'),
 'is-type-swapped': ('impls/types/files_matcher/models.py', "        if expected is FileType.REGULAR:\n            return self._dir_entry.is_file()", "        if expected is FileType.REGULAR:\n            return self._dir_entry.is_dir()"),
 'dotdot-not-rejected': ('impls/types/files_source/impl/file_list.py', "        if '..' in path.parts:\n            return self._err_msg(path_str, _ERR__FILE_NAME__RELATIVE_COMPONENTS)\n", ""),
 'absolute-not-rejected': ('impls/types/files_source/impl/file_list.py', "        if path.is_absolute():\n            return self._err_msg(path_str, _ERR__FILE_NAME__ABSOLUTE)\n", ""),
 'populate-reversed': ('impls/types/files_source/impl/file_list.py', '        for file in self._files:\n            file.maker.make(', '        for file in reversed(self._files):\n            file.maker.make('),
 'populate-skips-last': ('impls/types/files_source/impl/file_list.py', '        for file in self._files:\n            file.maker.make(', '        for file in self._files[:-1]:\n            file.maker.make('),
 'child-dp-skips-first': ('impls/types/files_source/impl/file_list.py', '    for component in relative_path.parts:', '    for component in relative_path.parts[1:]:'),
 'new-file-oserror-escapes': ('impls/types/files_source/impl/file_makers/utils.py', '        except OSError as ex:\n            failure = failure_details.FailureDetails(', '        except KeyError as ex:\n            failure = failure_details.FailureDetails('),
 'new-file-existing-accepted': ('impls/types/files_source/impl/file_makers/utils.py', '        if result.is_success:\n            raise HardErrorException(\n                file_properties.render_failure__d(self._PROPERTIES_FOR_ERR_MSG, path)', '        if False:\n            raise HardErrorException(\n                file_properties.render_failure__d(self._PROPERTIES_FOR_ERR_MSG, path)'),
 'full-count-without-plus-1': ('impls/types/files_matcher/impl/matches/matches_full.py', 'actual_files = self._try_get_num_files(expected_num_files + 1)', 'actual_files = self._try_get_num_files(max(expected_num_files, 1))'),
 'full-matcher-inverted': ('impls/types/files_matcher/impl/matches/matches_full.py', '                if not matching_result.value:\n                    return MatchingResult(False,\n                                          common.RendererOfNonMatchingFileMatcher', '                if matching_result.value:\n                    return MatchingResult(False,\n                                          common.RendererOfNonMatchingFileMatcher'),
 'full-unexpected-name-ignored': ('impls/types/files_matcher/impl/matches/matches_full.py', "            except KeyError:\n                return MatchingResult(False,\n                                      _RendererOfFileWithUnexpectedName(actual_file, actual, self))", "            except KeyError:\n                continue"),
 'num-files-by-2': ('impls/types/files_matcher/impl/num_files.py', '            ret_val += 1', '            ret_val += 2'),
 'emptiness-one-allowed': ('impls/types/files_matcher/impl/emptiness.py', '        if num_files_in_dir != 0:', '        if num_files_in_dir > 1:'),
 'generator-ignores-min': ('impls/types/files_matcher/models.py', '                if is_within_min_depth_limit:\n                    yield current_file_model', '                if True:\n                    yield current_file_model'),
 'generator-depth-first': ('impls/types/files_matcher/models.py', 'current_file = remaining_dirs.pop(0)', 'current_file = remaining_dirs.pop()'),
 'generator-prune-ignored': ('impls/types/files_matcher/models.py', 'if (maybe_entry_for_dir.is_dir() and\n                        not directory_prune.matches_w_trace(current_file_model.as_file_matcher_model()).value):', 'if (maybe_entry_for_dir.is_dir()):'),
 'create-file-truncates': ('impls/types/files_source/impl/file_makers/regular.py', "        self._write('x', path)", "        self._write('w', path)"),
 'dir-maker-swapped': ('impls/types/files_source/impl/file_makers/dir_.py', 'if modification is ModificationType.CREATE\n            else\n            utils.ExistingFileModifier(FileType.DIRECTORY, self._add_to_dir)', 'if modification is not ModificationType.CREATE\n            else\n            utils.ExistingFileModifier(FileType.DIRECTORY, self._add_to_dir)'),
 'depth-options-swapped': ('impls/types/file_matcher/impl/dir_contents.py', '        return models.recursive(model.path,\n                                self._min_depth,\n                                self._max_depth)', '        return models.recursive(model.path,\n                                self._max_depth,\n                                self._min_depth)'),
 'type-oserror-matches': ('impls/types/file_matcher/impl/file_type.py', '        except OSError as ex:\n            return self._result_for_exception(model.path, ex)\n\n        return self._result_for_unexpected(model)', '        except OSError as ex:\n            return self.__tb_with_expected().build_result(True)\n\n        return self._result_for_unexpected(model)'),
 'non-full-ignores-matcher': ('impls/types/files_matcher/impl/matches/matches_non_full.py', '                    if not matching_result.value:', '                    if False:'),
 'mkdir-without-parents': ('impls/types/files_source/impl/file_makers/dir_.py', 'path.primitive.mkdir(parents=True)', 'path.primitive.mkdir()'),
})

MUT['explicit-info-wrong-option'] = ('impls/types/path/parse_relativity.py', '    return _parse_rel_option_type(options, source)\n', '    _parse_rel_option_type(options, source)\n    return RelOptionType.REL_HDS_CASE\n')

MUT['generator-ignores-max'] = ('impls/types/files_matcher/models.py', '                if is_not_at_max_depth:\n                    add_dir_to_process_if_is_dir(dir_entry)', '                if True:\n                    add_dir_to_process_if_is_dir(dir_entry)')
MUT['generator-yields-twice'] = ('impls/types/files_matcher/models.py', '                if is_within_min_depth_limit:\n                    yield current_file_model', '                if is_within_min_depth_limit:\n                    yield current_file_model\n                    yield current_file_model')
MUT['generator-enqueues-front'] = ('impls/types/files_matcher/models.py', 'remaining_dirs.append(current_file.new_for_sub_dir(maybe_entry_for_dir))', 'remaining_dirs.insert(0, current_file.new_for_sub_dir(maybe_entry_for_dir))')

MUT['generator-prune-inverted'] = ('impls/types/files_matcher/models.py', 'not directory_prune.matches_w_trace(current_file_model.as_file_matcher_model()).value):', 'directory_prune.matches_w_trace(current_file_model.as_file_matcher_model()).value):')
MUT['generator-enqueues-files-too'] = ('impls/types/files_matcher/models.py', 'if (maybe_entry_for_dir.is_dir() and\n                        not directory_prune', 'if (True and\n                        not directory_prune')

def main():
    prop, name = sys.argv[1], sys.argv[2]
    f, old, new = MUT[name]
    root = os.environ.get('MUT_ROOT', '/tmp/w/G-mut')
    shutil.rmtree(root + '/src', ignore_errors=True)
    shutil.copytree('/repo/src', root + '/src')
    p = os.path.join(root, 'src/exactly_lib', f)
    s = open(p).read()
    assert old in s, 'mutation target not found: ' + name
    open(p, 'w').write(s.replace(old, new, 1))
    r = subprocess.run(['python3-vt', '-m', 'pyvc.check', prop, '--no-evidence', '--jobs', '3'], cwd=os.environ.get('VERIF_WT', '/tmp/w/G'),
                       env=dict(os.environ, PYVC_REPO=root), capture_output=True, text=True)
    lines = [l for l in r.stdout.splitlines() if l.startswith('  obligation:') or l.startswith(prop + ':') or l.startswith('UNDECIDED') or l.startswith('CHECKER') or 'bounded[' in l]
    print('== %s (exit %d)' % (name, r.returncode))
    for l in lines[:12]:
        print('   ', l[:260])

main()
