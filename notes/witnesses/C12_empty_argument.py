from exactly_lib.impls.instructions.multi_phase import new_file
from exactly_lib.impls.types.path import parse_path
from exactly_lib.section_document.element_parsers.token_stream import TokenStream
for arg in ['""', "''", '-rel-act ""']:
    try:
        sdv = parse_path.parse_path(TokenStream(arg), new_file.REL_OPT_ARG_CONF)
        print(repr(arg), '->', type(sdv).__name__)
    except Exception as e:
        print(repr(arg), 'raises', type(e).__name__, e)
