import os, tempfile, shutil, pathlib, itertools
from exactly_lib.impls.types.files_matcher import models
from exactly_lib.type_val_deps.types.path import path_ddvs
from exactly_lib.type_val_deps.types.path.impl import described_w_handler
d = tempfile.mkdtemp()
try:
    os.mkdir(d+'/sub'); os.symlink('..', d+'/sub/up'); open(d+'/f','w').close()
    ddv = path_ddvs.absolute_file_name(d)
    dp = ddv.value_when_no_dir_dependencies__d()
    m = models.recursive(dp)
    n = 0
    try:
        for fm in m.files():
            n += 1
            if n > 10000: print('more than 10000 files'); break
        print('files', n)
    except BaseException as e:
        print('after', n, 'files:', type(e).__name__, str(e)[:100])
finally:
    shutil.rmtree(d)
