import pathlib, tempfile
from exactly_lib.impls.instructions.multi_phase import new_file
from exactly_lib.impls.types.path import parse_path
from exactly_lib.section_document.element_parsers.token_stream import TokenStream
from exactly_lib.symbol.sdv_structure import container_of_builtin
from exactly_lib.symbol.value_type import ValueType
from exactly_lib.type_val_deps.types.string_ import string_sdvs
from exactly_lib.util.symbol_table import SymbolTable
from exactly_lib.tcfs.sds import SandboxDs
from exactly_lib.tcfs.hds import HomeDs
from exactly_lib.tcfs.tcds import TestCaseDs
from exactly_lib.tcfs import relativity_validation

conf = new_file.REL_OPT_ARG_CONF
symbols = SymbolTable({'S': container_of_builtin(ValueType.STRING, string_sdvs.str_constant('/abs/home/x'))})
tcds = TestCaseDs(HomeDs(pathlib.Path('/home/case'), pathlib.Path('/home/act')), SandboxDs('/sandbox'))
for arg in ['-rel-act @[S]@', '-rel-act /abs/home/x', '/abs/home/x', '@[S]@/y', 'a@[S]@', '"@[S]@"', '-rel-act x/y', '-rel-tmp @[S]@/z']:
    sdv = parse_path.parse_path(TokenStream(arg), conf)
    errs = []
    for r in sdv.references:
        e = r.restrictions.is_satisfied_by(symbols, r.name, symbols.lookup(r.name))
        errs.append(e)
    ddv = sdv.resolve(symbols)
    rel = ddv.relativity()
    print('%-24s' % arg, type(sdv).__name__, 'restr-errors', errs, 'relativity', rel.relativity_type, 'abs' if rel.is_absolute else '',
          'accepted' , relativity_validation.is_satisfied_by(rel, conf.options.accepted_relativity_variants),
          '->', ddv.value_of_any_dependency(tcds))
