import os, sys, tempfile, shutil, pathlib, stat
from exactly_lib.impls.types.files_matcher import models
from exactly_lib.type_val_deps.types.path import path_ddvs
from exactly_lib.test_case.hard_error import HardErrorException
import exactly_lib.type_val_deps.types.path.impl.described_w_handler
d = tempfile.mkdtemp(); os.chmod(d, 0o777)
os.mkdir(d + '/sub'); open(d + '/sub/f', 'w').close(); os.chmod(d + '/sub', 0)
dp = path_ddvs.absolute_file_name(d).value_when_no_dir_dependencies__d()
list(models.recursive(dp, None, 0).files())     # warm up lazy imports
os.setgid(65534); os.setuid(65534)
try:
    print([str(f.relative_to_root_dir) for f in models.recursive(dp).files()])
except HardErrorException:
    print('HardErrorException')
except OSError as ex:
    print('OSError escapes the generator:', repr(ex))
