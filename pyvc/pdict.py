"""Dictionaries over a fixed finite universe of concrete keys whose *presence* is symbolic.

For a dictionary like `section name -> list of elements` that is filled while a document is read: the
possible keys are known (the configured section names), which of them are present at an arbitrary point of a
loop is not.  A case split over the subsets would be exponential; here every key of the universe has a value
slot and a boolean presence term.  `k in d`, `d[k]`, `d[k] = v` are supported (a symbolic key is resolved by a
case split over the universe); iteration needs concrete presence.  At loop heads the dictionary is havocked
in place: presence becomes arbitrary, list values (symbolic mutable lists) are havocked in place, so aliases
of a value keep seeing the same object."""
try:
    import z3
except ImportError:
    z3 = None

from .path import Unsupported
from .values import Sym, SBool, SStr, SOpt, SChoice, to_z3, wrap


class PDict:
    def __init__(self, interp, uid, universe, value_ty=None):
        self.uid = uid
        self.universe = tuple(universe)
        self.value_ty = value_ty
        self.present = {k: False for k in self.universe}
        self.values = {k: None for k in self.universe}
        interp.note_new_object(self)

    # ---- keys
    def resolve_key(self, interp, k):
        """a key of the universe, or None when the key is outside it (case split for a symbolic key)"""
        if isinstance(k, (SOpt, SChoice)):
            k = interp.resolve(k)
        if isinstance(k, SStr):
            conds = [k.t == z3.StringVal(u) for u in self.universe]
            conds.append(z3.And(*[z3.Not(c) for c in conds]) if conds else z3.BoolVal(True))
            i = interp.st.choose(len(conds), conds)
            return self.universe[i] if i < len(self.universe) else None
        if isinstance(k, Sym):
            raise Unsupported('key of unsupported kind for a dictionary over a universe: %r' % (k,))
        return k if k in self.present else None

    # ---- operations used by interpreted code
    def contains(self, interp, k):
        key = self.resolve_key(interp, k)
        if key is None:
            return False
        return self.present[key]

    def getitem(self, interp, k):
        from .interp import PyRaise
        key = self.resolve_key(interp, k)
        if key is None or not interp.branch(self.present[key]):
            raise PyRaise(KeyError(k if not isinstance(k, Sym) else '<symbolic>'))
        return self.values[key]

    def setitem(self, interp, k, v):
        key = self.resolve_key(interp, k)
        if key is None:
            raise Unsupported('store of a key outside the universe of the dictionary')
        interp.note_container_write(self)
        if isinstance(v, list) and not v and self.value_ty is not None:
            # a new empty list: becomes a symbolic mutable list right away, so that it can be havocked in place
            # later (sound if the dictionary holds the only reference to the new list, as in `d[k] = []`)
            from .mlist import MList
            v = MList(interp, interp.st.fresh_name('%s[%s]' % (self.uid, key)), self.value_ty.shape())
        self.values[key] = v
        self.present[key] = True

    def definitely_present_keys(self):
        out = []
        for k in self.universe:
            p = self.present[k]
            if p is True:
                out.append(k)
            elif p is not False:
                raise Unsupported('iteration over a dictionary whose keys are not definite')
        return out

    def length(self, interp):
        ts = [z3.If(to_z3(self.present[k]), 1, 0) for k in self.universe]
        return wrap(z3.Sum(ts)) if ts else 0

    # ---- havoc
    def havoc(self, interp, tag):
        from .mlist import MList
        st = interp.st
        for k in self.universe:
            self.present[k] = SBool(st.fresh_bool('%s.has[%s]@%s' % (self.uid, k, tag)))
            v = self.values[k]
            if isinstance(v, MList):
                v.havoc(interp, tag)
            elif self.value_ty is not None:
                self.values[k] = self.value_ty.make(interp, '%s[%s]@%s' % (self.uid, k, tag))
            else:
                raise Unsupported('havoc of a dictionary value that is not a symbolic list')

    def snapshot(self, interp):
        """an independent copy (values that are symbolic lists are copied)"""
        from .mlist import MList
        c = PDict(interp, interp.st.fresh_name(self.uid + '.copy'), self.universe, self.value_ty)
        c.present = dict(self.present)
        c.values = {k: (v.copy(interp) if isinstance(v, MList) else v) for k, v in self.values.items()}
        return c
