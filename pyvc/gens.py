"""Generators under contract: the items yielded by the function under verification are a ghost
sequence `yielded` of symbolic length (history variable).  Scalar leaves of the yielded values are
stored as uninterpreted functions of the position, so that loop invariants can describe all items
yielded so far with a quantifier while the length is havocked at loop heads."""
try:
    import z3
except ImportError:
    z3 = None

from .path import Unsupported
from .values import SInt, SBool, SStr, SOpt, SChoice, SList, Sym, to_z3, wrap


def _kind(v):
    if isinstance(v, (SBool, bool)):
        return 'bool'
    if isinstance(v, (SInt, int)):
        return 'int'
    if isinstance(v, (SStr, str)):
        return 'str'
    return None


_SORT = {'int': lambda: z3.IntSort(), 'bool': lambda: z3.BoolSort(), 'str': lambda: z3.StringSort()}


class YSeq(SList):
    """ghost sequence of yielded items"""
    __slots__ = ('shape', 'funcs', 'objs', 'src_fn', 'pos_fn', '_last_src', '_src_loop', 'no_maps')

    def __init__(self, uid):
        SList.__init__(self, z3.IntVal(0), None, uid)
        self.shape = None
        self.funcs = {}
        self.objs = {}
        self.src_fn = z3.Function(uid + '.src', z3.IntSort(), z3.IntSort())
        self.pos_fn = z3.Function(uid + '.pos_of', z3.IntSort(), z3.IntSort())
        self.elem = self._elem

    def _fn(self, path, kind):
        key = (path, kind)
        f = self.funcs.get(key)
        if f is None:
            f = z3.Function('%s%s' % (self.uid, ''.join('[%d]' % i for i in path)), z3.IntSort(), _SORT[kind]())
            self.funcs[key] = f
        return f

    def _shape_of(self, v):
        if isinstance(v, (SOpt, SChoice)):
            raise Unsupported('yield of an undetermined optional/choice value')
        if isinstance(v, tuple):
            return ('tuple', tuple(self._shape_of(x) for x in v))
        k = _kind(v)
        if k is not None:
            return (k,)
        return ('obj',)

    def append(self, interp, v, src_index=None, loop=None):
        st = interp.st
        shape = self._shape_of(v)
        if self.shape is None:
            self.shape = shape
        elif self.shape != shape:
            raise Unsupported('generator yields values of different shapes: %r / %r' % (self.shape, shape))
        n = self.length

        def store(path, sh, x):
            if sh[0] == 'tuple':
                for i, (s2, y) in enumerate(zip(sh[1], x)):
                    store(path + (i,), s2, y)
            elif sh[0] == 'obj':
                self.objs[(path, z3.simplify(n).sexpr())] = x
            else:
                st.assume(self._fn(path, sh[0])(n) == to_z3(x))

        store((), shape, v)
        if src_index is not None and not getattr(self, 'no_maps', False):
            key = z3.simplify(src_index).sexpr() if z3.is_expr(src_index) else str(src_index)
            seen = getattr(self, '_src_loop', None) or ()
            loop = tuple(loop or ())
            nested = any(a != loop and (a == loop[:len(a)] or loop == a[:len(loop)]) for a in seen if a and loop)
            if getattr(self, '_last_src', None) == key or nested:
                # two yields for the same iteration of the symbolic loop, or yields at two levels of nested loops
                # (whose indices may coincide): pos_of(src) would get two values and the path condition would become
                # contradictory (a vacuous proof).  From here on the ghost maps src / pos_of of this generator are
                # not defined: nothing more is assumed of them and reading them is Unsupported (interp.getattr).
                self.no_maps = True
            else:
                self._last_src = key
                if loop not in seen:
                    self._src_loop = seen + (loop,)
                st.assume(self.src_fn(n) == src_index)
                st.assume(self.pos_fn(src_index) == n)
        self.length = z3.simplify(n + 1)

    def _elem(self, interp, idx):
        if self.shape is None:
            raise Unsupported('item of a generator that has not yielded on this path (shape unknown)')

        def load(path, sh):
            if sh[0] == 'tuple':
                return tuple(load(path + (i,), s2) for i, s2 in enumerate(sh[1]))
            if sh[0] == 'obj':
                key = (path, z3.simplify(idx).sexpr())
                if key not in self.objs:
                    raise Unsupported('object item of `yielded` at a symbolic position')
                return self.objs[key]
            return wrap(self._fn(path, sh[0])(idx))

        return load((), self.shape)

    def ensure_shape_from(self, example_shape):
        if self.shape is None:
            self.shape = example_shape


class CollectGen:
    """Stands for the generator object while its body is executed for verification."""

    def __init__(self, interp, yseq):
        self.interp = interp
        self.yseq = yseq

    def do_yield(self, v):
        interp = self.interp
        if isinstance(v, (SOpt, SChoice)):
            v = interp.resolve(v)           # e.g. `if x is not None: yield x`
        src = None
        # position of the innermost symbolic loop, if any (for the `src` / `pos_of` ghost maps)
        if interp.loop_index_stack:
            src = interp.loop_index_stack[-1]
        loop = tuple(e['loop'] for e in interp.loop_frame_stack)       # the enclosing loops (arbitrary iterations)
        self.yseq.append(interp, v, src, loop)
        return None
