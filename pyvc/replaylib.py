"""Run-time support for replay scripts (no z3 needed; runs under the repository's interpreter)."""
import importlib
import re
import sys
import traceback
import types

from . import frontend
from .api import ConcreteCtx, NoConcrete, Ty, Module, _iface_lookup


class PeekIter:
    """The concrete counterpart of the engine's (sequence, position) cell for `Iterator[...]` parameters:
    a list iterator whose underlying sequence (`xs`) and number of consumed items (`pos`) can be inspected."""

    def __init__(self, items):
        self.xs = list(items)
        self.pos = 0

    @property
    def items(self):
        return self.xs

    def __iter__(self):
        return self

    def __next__(self):
        if self.pos >= len(self.xs):
            raise StopIteration
        self.pos += 1
        return self.xs[self.pos - 1]


def make_stub(cx, iface, uid):
    """A concrete object behaving as the interface describes, with the attribute values of the model."""
    target = getattr(iface, 'target_class', None)
    attrs = {}
    for k in reversed(iface.__mro__):
        attrs.update(k.__dict__.get('attrs', {}) or {})
    raises = {}
    for k in reversed(iface.__mro__):
        raises.update(k.__dict__.get('attr_raises', {}) or {})
    cache = {}

    def mk_prop(name, ty):
        def get(self):
            r = raises.get(name)
            if r is not None and r[0](self):
                raise r[1]('stub: %s not available' % name)
            if name not in cache:
                cache[name] = ty.concrete(cx, '%s.%s' % (uid, name)) if isinstance(ty, Ty) else ty
            return cache[name]

        return property(get)

    ns = {n: mk_prop(n, t) for n, t in attrs.items()}
    methods = {}
    for k in reversed(iface.__mro__):
        methods.update(k.__dict__.get('methods', {}) or {})

    def mk_method(name, m):
        counter = [0]

        def call(self, *args, **kwargs):
            # ghost events become entries of the replay's trace; results are rebuilt from the model
            if m.event is not None:
                cx.trace.append((m.event, self, tuple(args) + tuple(kwargs.values())))
            r = None
            if isinstance(m.returns, Ty):
                counter[0] += 1
                r = m.returns.concrete(cx, '%s.%s()' % (uid, name))
            if m.event is not None:
                cx.trace.append((m.event + ':returned', self, r))
            return r

        return call

    for n, m in methods.items():
        if m.model is None and n not in ns:
            ns[n] = mk_method(n, m)
    ns['__abstractmethods__'] = frozenset()
    ns['__repr__'] = lambda self: '<stub %s %s>' % (iface.__name__, uid)
    ns['__str__'] = ns['__repr__']
    bases = (target,) if isinstance(target, type) else (object,)
    cls = type('Stub_' + iface.__name__, bases, ns)
    cls.__abstractmethods__ = frozenset()
    return object.__new__(cls)


def find_contract(module_names, key):
    """key: 'qname' or 'qname#<property>' (a further contract of the same function in another module)"""
    qname, _, prop = key.partition('#')
    prop = prop.partition('.')[0]
    found = []
    for mn in module_names:
        mod = importlib.import_module(mn)
        m = getattr(mod, 'M', None)
        if isinstance(m, Module):
            for c in m.contracts:
                if c.qname == qname:
                    found.append((m, c))
    if prop:
        for m, c in found:
            if m.prop == prop:
                return c
    for m, c in found:
        if not c.trusted:
            return c
    if found:
        return found[0][1]
    raise LookupError(key)


def stub_trusted(module_names, cx):
    """Functions with an ASSUMED (trusted) contract are replaced, as in the proof, by stubs that record the
    contract's ghost event and return a value of the declared shape."""
    import inspect
    for mn in module_names:
        mod = importlib.import_module(mn)
        m = getattr(mod, 'M', None)
        if not isinstance(m, Module):
            continue
        for c in m.contracts:
            if not c.trusted:
                continue
            try:
                obj, owner = frontend.resolve_qualified(c.qname)
            except LookupError:
                continue
            func = frontend.raw_function(obj)
            if not isinstance(func, types.FunctionType):
                continue

            def stub(*args, _c=c, _f=func, **kwargs):
                try:
                    bound = inspect.signature(_f).bind(*args, **kwargs)
                    bound.apply_defaults()
                    d = dict(bound.arguments)
                except TypeError:
                    d = {}
                if _c.event is not None:
                    cx.trace.append((_c.event, d))
                r = _c.returns.concrete(cx, 'ret.' + _c.qname.rpartition(':')[2]) if isinstance(_c.returns, Ty) else None
                if _c.event is not None:
                    cx.trace.append((_c.event + ':returned', d, r))
                return r

            if owner is not None:
                setattr(owner, func.__name__, staticmethod(stub) if isinstance(obj, staticmethod) else stub)
            else:
                setattr(importlib.import_module(c.qname.partition(':')[0]), func.__name__, stub)
                # references imported by name into other modules of the repository
                for mod2 in list(sys.modules.values()):
                    if getattr(mod2, '__name__', '').startswith('exactly_lib') and \
                            getattr(mod2, func.__name__, None) is func:
                        setattr(mod2, func.__name__, stub)


def _call(pred, env):
    code = pred.__code__
    names = code.co_varnames[:code.co_argcount]
    return pred(*[env[n] for n in names])


def show(v, depth=0):
    try:
        d = getattr(v, '__dict__', None)
        if d and depth < 2 and not isinstance(v, (type, types.ModuleType, types.FunctionType)):
            return '%s(%s)' % (type(v).__name__, ', '.join('%s=%s' % (k, show(x, depth + 1)) for k, x in d.items()))
        return repr(v)
    except Exception:
        return '<unprintable %s>' % type(v).__name__


def run_generic(module_names, qname, obligation, model):
    """Rebuild the counter-model's inputs, call the real function, evaluate the clause natively.
    Returns the exit status of the replay script."""
    c = find_contract(module_names, qname)
    qname = c.qname
    obj, owner = frontend.resolve_qualified(qname)
    func = frontend.raw_function(obj)
    cx = ConcreteCtx(model)
    stub_trusted(module_names, cx)
    try:
        args = {n: (t.concrete(cx, n) if isinstance(t, Ty) else t) for n, t in c.params.items()}
        ghosts = {n: (t.concrete(cx, 'ghost.' + n) if isinstance(t, Ty) else t) for n, t in c.ghosts.items()}
    except NoConcrete as e:
        print('cannot rebuild concrete inputs:', e)
        return 2
    print('function  :', qname)
    for n, v in args.items():
        print('  arg %-12s = %s' % (n, show(v)))
    for n, v in ghosts.items():
        print('  ghost %-10s = %s' % (n, show(v)))
    env = dict(args)
    env.update(ghosts)
    env.update({'trace': cx.trace, 'ghost': {}})
    if c.requires is not None:
        try:
            if not _call(c.requires, env):
                print('precondition does not hold for the rebuilt input: counter-model went through an abstraction')
                return 0
        except Exception as e:
            print('precondition raised', repr(e))
            return 0
    code = func.__code__
    names = list(code.co_varnames[:code.co_argcount + code.co_kwonlyargcount])
    pos = [args[n] for n in names[:code.co_argcount] if n in args]
    kw = {n: args[n] for n in names[code.co_argcount:] if n in args}
    old = _call(c.old, env) if c.old is not None else None
    try:
        result = func(*pos, **kw)
        if isinstance(result, types.GeneratorType):
            result = list(result)
            env['yielded'] = result          # generator functions: the ghost sequence of the contract clauses
        outcome = ('return', result)
        print('returned  :', show(result))
    except Exception as e:
        outcome = ('raise', e)
        print('raised    :', repr(e))
    m = re.search(r' : ensures\[(.*)\]$', obligation)
    if m:
        if outcome[0] != 'return':
            print('function raised instead of returning: this run does not exercise the clause '
                  '(an exception that the contract does not allow is the subject of the raises_only obligation)')
            return 0
        clause = c.ensures[m.group(1)]
        env2 = dict(env, ret=outcome[1], old=old)
        env2.setdefault('result', outcome[1])
        try:
            ok = _call(clause, env2)
        except (IndexError, KeyError, StopIteration) as e:
            # the clause looks up something that the real run did not produce (an expected event / element is
            # missing): the clause does not hold, as in the symbolic evaluation
            print('clause raised', repr(e), '-- what it refers to does not exist in the real run')
            ok = False
        except Exception as e:
            print('clause raised', repr(e))
            print('the clause cannot be evaluated natively on the rebuilt input (stubs answer with defaults): '
                  'not counted as a reproduction')
            return 2
        print('clause ensures[%s] evaluates to %r on the real result' % (m.group(1), bool(ok)))
        return 0 if ok else 1
    if ' : raises_only(' in obligation:
        if outcome[0] == 'return':
            return 0
        allowed = tuple(x for x in list(c.raises) + list(c.may_raise) + list(c.raises_only or ())
                        if isinstance(x, type))
        bad = not (allowed and isinstance(outcome[1], allowed))
        if bad and isinstance(outcome[1], (TypeError, AttributeError)) and \
                any(w in str(outcome[1]) for w in ('Stub_', '_Anything', 'stub ')):
            print('the exception comes from a stand-in object of the rebuilt input (a stub that is not callable / '
                  'lacks an attribute), not from the code: not counted as a reproduction')
            return 2
        print('exception %r is %s by the contract' % (outcome[1], 'NOT allowed' if bad else 'allowed'))
        return 1 if bad else 0
    m = re.search(r' : raises\[(\w+)\]', obligation)
    if m:
        for exc_cls, spec in c.raises.items():
            if getattr(exc_cls, '__name__', None) == m.group(1):
                when = spec.get('when')
                if 'when-condition implies raise' in obligation:
                    bad = outcome[0] == 'return' and when is not None and _call(when, env)
                    return 1 if bad else 0
                if outcome[0] == 'raise' and isinstance(outcome[1], exc_cls):
                    if 'only when' in obligation and when is not None:
                        return 0 if _call(when, env) else 1
                    ens = spec.get('ensures')
                    if 'ensures' in obligation and ens is not None:
                        return 0 if _call(ens, dict(env, exc=outcome[1], old=old)) else 1
        return 0
    print('obligation kind has no generic native replay')
    return 2
