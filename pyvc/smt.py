"""Discharging obligations: z3 (python API) first, then /usr/bin/cvc5, then /usr/bin/z3 4.8."""
import os
import sys
import subprocess
import tempfile
import time

try:
    import z3
except ImportError:      # replays run under the repository's interpreter, without z3
    z3 = None

Z3_TIMEOUT_MS = int(os.environ.get('PYVC_Z3_TIMEOUT_MS', '10000'))
QUICK_CVC5_MS = int(os.environ.get('PYVC_QUICK_CVC5_MS', '6000'))     # cvc5 on the reduced problems of the attempts
Z3_FIRST_TIMEOUT_MS = int(os.environ.get('PYVC_Z3_FIRST_TIMEOUT_MS', '2000'))   # string obligations: z3 briefly, then cvc5, then z3 in full
CVC5_TIMEOUT_S = int(os.environ.get('PYVC_CVC5_TIMEOUT_S', '10'))
OLDZ3_TIMEOUT_S = int(os.environ.get('PYVC_OLDZ3_TIMEOUT_S', '20'))


class Verdict:
    __slots__ = ('status', 'backend', 'time', 'model', 'smt2', 'reason')

    def __init__(self, status, backend, time_, model=None, smt2=None, reason=None):
        self.status = status      # 'unsat' (discharged) | 'sat' (refuted) | 'unknown'
        self.backend = backend
        self.time = time_
        self.model = model
        self.smt2 = smt2
        self.reason = reason


def _uses_strings(terms):
    seen = set()
    todo = list(terms)
    while todo:
        t = todo.pop()
        if t.get_id() in seen:
            continue
        seen.add(t.get_id())
        try:
            if z3.is_string(t) or (z3.is_seq(t)):
                return True
        except Exception:
            pass
        todo.extend(t.children())
    return False


def _goal_conjuncts(g, depth=0):
    """conjuncts of a goal; `A or (B and C)` / `A -> (B and C)` are distributed: (A or B), (A or C)"""
    if z3.is_and(g):
        out = []
        for c in g.children():
            out.extend(_goal_conjuncts(c, depth))
        return out
    if depth < 2 and (z3.is_or(g) or z3.is_implies(g)):
        ch = list(g.children())
        if z3.is_implies(g):
            ch = [z3.Not(ch[0]), ch[1]]
        for k, c in enumerate(ch):
            if z3.is_and(c):
                rest = ch[:k] + ch[k + 1:]
                out = []
                for part in c.children():
                    out.extend(_goal_conjuncts(z3.Or(*(rest + [part])), depth + 1))
                return out
    return [g]


def _dump_unknown(pc, g):
    """development aid: PYVC_DUMP_UNKNOWN=<dir> writes the problem of every goal conjunct that stays undecided"""
    d = os.environ.get('PYVC_DUMP_UNKNOWN')
    if not d:
        return
    s = z3.Solver()
    for t in pc:
        s.add(t)
    s.add(z3.Not(g))
    import hashlib
    txt = s.to_smt2()
    with open(os.path.join(d, 'unknown-%s.smt2' % hashlib.md5(txt.encode()).hexdigest()[:10]), 'w') as f:
        f.write('; goal conjunct: %s\n' % str(g).replace('\n', ' ')[:2000] + txt)


_MEMO = {}      # (ids of the hypotheses, id of the goal, flags) -> (terms kept alive, Verdict)


def discharge(pc, goal, want_smt2=False, all_backends=False, scale=1):
    """Check validity of  And(pc) => goal.  The paths of one function share their prefixes, and every path
    re-emits the obligations of its prefix: an obligation with the very same hypotheses and the very same goal
    (hash-consed z3 terms: same ids) as one that has been decided is not sent to the solvers again."""
    if os.environ.get('PYVC_NO_DISCHARGE_MEMO'):
        return _discharge0(pc, goal, want_smt2, all_backends, scale)
    try:
        key = (frozenset(t.get_id() for t in pc), goal.get_id(), bool(all_backends), scale)
    except AttributeError:
        return _discharge0(pc, goal, want_smt2, all_backends, scale)
    hit = _MEMO.get(key)
    if hit is not None and not (want_smt2 and hit[1].smt2 is None):
        v0 = hit[1]
        return Verdict(v0.status, v0.backend, 0.0, v0.model, v0.smt2, v0.reason)
    v = _discharge0(pc, goal, want_smt2, all_backends, scale)
    if v.status in ('unsat', 'sat'):
        if len(_MEMO) > 20000:
            _MEMO.clear()
        _MEMO[key] = ((list(pc), goal), v)      # the terms are kept alive: their ids are not reused
    return v


def _discharge0(pc, goal, want_smt2=False, all_backends=False, scale=1):
    """Check validity of  And(pc) => goal.  A conjunctive goal is proved conjunct by conjunct (each query
    is much easier for the string solvers than the conjunction); the first conjunct that is not proved
    decides the verdict."""
    parts = _goal_conjuncts(goal)
    if len(parts) <= 1:
        v = _discharge1(pc, goal, want_smt2, all_backends, scale)
        if v.status == 'unknown':
            _dump_unknown(pc, goal)
        return v
    t0 = time.time()
    last = None
    unknown = None
    for g in parts:
        v = _discharge1(pc, g, want_smt2, all_backends, scale)
        if v.status == 'sat':
            v.time = time.time() - t0
            return v
        if v.status == 'unknown' and unknown is None:
            unknown = v
        if v.status == 'unknown':
            _dump_unknown(pc, g)
        last = v
    v = unknown or last
    v.time = time.time() - t0
    return v


def _has_quantifier(t):
    seen = set()
    todo = [t]
    while todo:
        x = todo.pop()
        i = x.get_id()
        if i in seen:
            continue
        seen.add(i)
        if z3.is_quantifier(x):
            return True
        todo.extend(x.children())
    return False


def _abstract_apps(terms, congruence=True):
    """Replace every ground application of an uninterpreted function by a constant (one per syntactically
    distinct application, arguments simplified) and add the congruence constraints between applications of
    the same function (Ackermann's reduction; for functions with many applications the constraints are left
    out).  Every model of the original is a model of the result (give the constants the values of the
    applications), so `unsat` carries over: sound for proving."""
    cache = {}
    names = {}
    by_decl = {}

    def has_var(t):
        todo = [t]
        while todo:
            x = todo.pop()
            if z3.is_var(x):
                return True
            todo.extend(x.children())
        return False

    def go(t):
        k = t.get_id()
        if k in cache:
            return cache[k]
        if z3.is_quantifier(t) or not z3.is_app(t) or t.num_args() == 0:
            r = t
        elif has_var(t):
            r = t
        else:
            ch = [go(c) for c in t.children()]
            d = t.decl()
            if d.kind() == z3.Z3_OP_UNINTERPRETED:
                app = z3.simplify(d(*ch))
                key = app.sexpr()
                r = names.get(key)
                if r is None:
                    r = z3.Const('app!%d' % len(names), t.sort())
                    names[key] = r
                    by_decl.setdefault(d.name(), []).append((list(app.children()) if z3.is_app(app) else ch, r))
            else:
                try:
                    r = d(*ch)
                except Exception:
                    r = t
        cache[k] = r
        return r

    out = [go(t) for t in terms]
    if congruence:
        for name, apps in by_decl.items():
            if len(apps) > 32:
                continue
            for i in range(len(apps)):
                for j in range(i + 1, len(apps)):
                    (a1, c1), (a2, c2) = apps[i], apps[j]
                    if len(a1) != len(a2):
                        continue
                    same = [x == y for x, y in zip(a1, a2) if not x.eq(y)]
                    if any(z3.is_false(z3.simplify(e)) for e in same):
                        continue
                    out.append(z3.Implies(z3.And(*same) if len(same) != 1 else same[0], c1 == c2))
    return out


def _resolve_guards(terms):
    """`guard -> body` with an ARITHMETIC guard that the arithmetic hypotheses alone entail is replaced by `body`
    (equivalent under the hypotheses).  The defining equations of the measures (join(i+1) == join(i) + xs[i] for
    0 <= i < len, ...) are guarded like that: unguarded, `solve-eqs` substitutes them away and what is left is
    decided by simplification, where the string solvers, given the same facts as conditional word equations, get
    lost."""
    cands = [t for t in terms if (z3.is_implies(t) or (z3.is_or(t) and t.num_args() == 2 and z3.is_not(t.arg(0))))
             and not _uses_strings([t.arg(0)])]
    if not cands or len(cands) > 200:
        return terms
    s = z3.Solver()
    s.set('timeout', 300)
    s.add(*[t for t in terms if not _uses_strings([t])])
    ids = {t.get_id() for t in cands}
    out = []
    for t in terms:
        if t.get_id() in ids:
            guard = t.arg(0) if z3.is_implies(t) else t.arg(0).arg(0)
            s.push()
            s.add(z3.Not(guard))
            r = s.check()
            s.pop()
            if r == z3.unsat:
                out.append(t.arg(1))
                continue
        out.append(t)
    return out


def _by_rewriting(pc, goal, external=False, skip_z3=False, timeout_ms=2000):
    """Cheap first attempt: abstract uninterpreted applications, eliminate defined symbols (solve-eqs) and
    simplify.  Decides the many obligations that are pure rewriting with the equations on the path -- where
    the string solvers, given the same equations as word equations, do not terminate."""
    try:
        terms = _resolve_guards(_abstract_apps(list(pc) + [z3.Not(goal)]))
        g = z3.Goal()
        g.add(*terms)
        res = z3.Then('simplify', 'propagate-values', 'solve-eqs', 'simplify')(g)
        for sub in res:
            if len(sub) == 1 and z3.is_false(sub[0]):
                continue
            s = z3.Solver()
            s.set('timeout', timeout_ms)
            s.add(*[sub[i] for i in range(len(sub))])
            r = z3.unknown if (skip_z3 and external) else s.check()      # (skip_z3: z3 has been tried on this already)
            if r == z3.unsat:
                continue
            if r == z3.unknown and external:
                v = _external(s.to_smt2(), [sub[i] for i in range(len(sub))], only_cvc5=True, quick=True)
                if v is not None and v.status == 'unsat':
                    continue
            return False
        return True
    except Exception:
        return False


_SK = [0]


def _ground_args(terms):
    """{(declaration name, argument position): [ground integer argument terms]} over the given terms"""
    out = {}
    seen = set()
    todo = list(terms)
    while todo:
        x = todo.pop()
        i = x.get_id()
        if i in seen or z3.is_quantifier(x) or z3.is_var(x):
            continue
        seen.add(i)
        if z3.is_app(x):
            if x.decl().kind() in (z3.Z3_OP_UNINTERPRETED, z3.Z3_OP_SELECT) and x.num_args() > 0:
                for k, a in enumerate(x.children()):
                    if z3.is_int(a) and not _has_var(a):
                        out.setdefault((x.decl().name(), k), {})[a.sexpr()] = a
            todo.extend(x.children())
    return out


def _has_var(t):
    todo = [t]
    while todo:
        x = todo.pop()
        if z3.is_var(x):
            return True
        if z3.is_quantifier(x):
            continue
        todo.extend(x.children())
    return False


def _patterns(body, nvars):
    """(declaration name, argument position, variable index) for applications that take a bound variable
    directly as an argument"""
    pats = set()
    todo = [body]
    seen = set()
    while todo:
        x = todo.pop()
        if x.get_id() in seen or z3.is_quantifier(x):
            continue
        seen.add(x.get_id())
        if z3.is_app(x):
            if x.decl().kind() in (z3.Z3_OP_UNINTERPRETED, z3.Z3_OP_SELECT):
                for k, a in enumerate(x.children()):
                    if z3.is_var(a):
                        pats.add((x.decl().name(), k, z3.get_var_index(a)))
            todo.extend(x.children())
    return pats


MAX_INSTANCES = 12


def _instantiated(flat, goal):
    """A quantifier-free problem whose validity implies the original's:  a goal  forall j. P(j)  becomes
    P(j0) for a fresh j0; every universally quantified hypothesis with one bound variable is replaced by its
    instances at j0 and at the ground terms that occur, in the other formulas, where the hypothesis has its
    bound variable (one round of pattern-based instantiation).  Instances are implied by the hypotheses."""
    consts = []
    if z3.is_quantifier(goal) and goal.is_forall():
        n = goal.num_vars()
        _SK[0] += 1
        consts = [z3.Const('sk!%d!%d' % (_SK[0], i), goal.var_sort(i)) for i in range(n)]
        # de Bruijn: variable 0 is the LAST bound variable
        goal = z3.substitute_vars(goal.body(), *reversed(consts))
    quantified = [h for h in flat if z3.is_quantifier(h) and h.is_forall() and h.num_vars() == 1]
    if not quantified and not consts:
        return None
    ground = [h for h in flat if not _has_quantifier(h)]
    occ = _ground_args(ground + [goal])
    hyps = list(ground)
    for h in quantified:
        cands = {}
        for c in consts:
            if c.sort() == h.var_sort(0):
                cands[c.sexpr()] = c
        for (name, k, _vi) in _patterns(h.body(), 1):
            for key, a in occ.get((name, k), {}).items():
                if a.sort() == h.var_sort(0) and len(cands) < MAX_INSTANCES:
                    cands.setdefault(key, a)
        for a in cands.values():
            hyps.extend(_goal_conjuncts(z3.substitute_vars(h.body(), a)))
    seen = set()
    uniq = []
    for h in hyps:
        k = h.get_id()
        if k not in seen:
            seen.add(k)
            uniq.append(h)
    return uniq, goal


def _symbols(t):
    out = set()
    seen = set()
    todo = [t]
    while todo:
        x = todo.pop()
        i = x.get_id()
        if i in seen:
            continue
        seen.add(i)
        if z3.is_quantifier(x):
            todo.append(x.body())
            continue
        if z3.is_app(x):
            if x.decl().kind() == z3.Z3_OP_UNINTERPRETED:
                out.add(x.decl().name())
            todo.extend(x.children())
    return out


def _relevant(hyps, goal, rounds=3):
    """the hypotheses in the cone of influence of the goal (shared uninterpreted symbols, a few rounds; symbols
    that occur almost everywhere do not propagate).  Dropping hypotheses is sound."""
    syms = [(_symbols(h), h) for h in hyps]
    count = {}
    for ss, _h in syms:
        for x in ss:
            count[x] = count.get(x, 0) + 1
    common = {x for x, n in count.items() if n > max(8, 0.4 * len(hyps))}
    rel = set(_symbols(goal))
    chosen = [False] * len(syms)
    for _ in range(rounds):
        grew = False
        for k, (ss, _h) in enumerate(syms):
            if not chosen[k] and (ss & rel) - common:
                chosen[k] = True
                new = ss - rel
                if new:
                    rel |= new
                    grew = True
        if not grew:
            break
    return [h for k, (_ss, h) in enumerate(syms) if chosen[k] or not _ss]


MAX_CASES = 6


def _by_cases(hyps, g):
    """Proof by cases on WHERE the goal's skolem constant lies: for a goal about f(.., k, ..) with k the skolem
    constant of a universally quantified goal, and the ground terms t1..tn at which the hypotheses mention
    f(.., t, ..):  k == t1 | ... | k == tn | none of them.  Each case is a smaller problem (in the first n the
    constant is substituted away); together they are exhaustive, so this is sound.  The solvers do not find this
    split themselves when the rest of the problem is about strings."""
    occ_g = _ground_args([g])
    sks = {}
    for (name, pos), args in occ_g.items():
        for key, a in args.items():
            if z3.is_const(a) and a.decl().kind() == z3.Z3_OP_UNINTERPRETED and a.decl().name().startswith('sk!'):
                sks.setdefault(key, (a, []))[1].append((name, pos))
    if len(sks) != 1:
        return False
    k, places = list(sks.values())[0]
    occ_h = _ground_args(hyps)
    cands = {}
    for pl in places:
        for key, a in occ_h.get(pl, {}).items():
            if not a.eq(k) and a.sort() == k.sort() and k.sexpr() not in key.split() and not z3.is_int_value(a):
                cands.setdefault(key, a)
    if not cands or len(cands) > MAX_CASES:
        return False
    cases = [k == a for a in cands.values()] + [z3.And(*[k != a for a in cands.values()])]
    for c in cases:
        hs = hyps + [c]
        if _by_rewriting(hs, g, timeout_ms=700):       # (a case that is decided by rewriting is decided at once)
            continue
        if z3.is_eq(c) and len(cands) > 1:
            # second level: where does THIS candidate lie among the other ones (a == b1 | ... | none of them:
            # exhaustive) -- e.g. the length of a sequence at an earlier loop head against its length now
            a = c.arg(1)
            others = [b for b in cands.values() if not b.eq(a)]
            subs = [a == b for b in others] + [z3.And(*[a != b for b in others])]
            if all(_by_rewriting(hs + [sc], g, timeout_ms=700) for sc in subs):
                continue
        if not (_by_rewriting(hs, g) or _by_rewriting(hs, g, external=True, skip_z3=True)):
            return False
    return True


def _attempts(flat, qf, goal, scale):
    """the cheap, hypothesis-dropping / instantiating attempts (see ENGINE.md 8); None if none succeeds"""
    t0 = time.time()
    if _by_rewriting(qf, goal):
        return Verdict('unsat', 'z3-%s(rewriting)' % z3.get_version_string(), time.time() - t0)
    sk = _instantiated(flat, goal)
    if sk is not None:
        for g in _goal_conjuncts(z3.simplify(sk[1])):
            _tr = [time.time()]

            def _trace(what, ok):
                if os.environ.get('PYVC_TRACE_ATTEMPTS'):
                    now = time.time()
                    print('ATTEMPT %-14s %-5s %5.1fs  %s' % (what, ok, now - _tr[0], str(g).replace('\n', ' ')[-70:]),
                          file=sys.stderr, flush=True)
                    _tr[0] = now
                return ok
            rel = _relevant(sk[0], g)
            if len(rel) < len(sk[0]) and _trace('relevant', _by_rewriting(rel, g, external=True)):
                continue
            if _trace('rewriting', _by_rewriting(sk[0], g)):
                continue
            if _trace('cases', _by_cases(sk[0], g)):
                continue
            if _trace('rewriting-ext', _by_rewriting(sk[0], g, external=True, skip_z3=True)):
                continue
            v = _discharge2(sk[0], g, False, False, scale, quick=True)
            if v.status != 'unsat':
                return None
        return Verdict('unsat', 'instantiation', time.time() - t0)
    return None


def _discharge1(pc, goal, want_smt2=False, all_backends=False, scale=1):
    """Check validity of  And(pc) => goal.  Problems over strings: first by rewriting / from instances / from
    the quantifier-free facts alone (fewer hypotheses: sound; the irrelevant ones are what gets the string solvers
    lost), then in full.  Other problems: in full first (z3 decides them at once), the attempts only if that
    does not."""
    flat = []
    for t in pc:
        flat.extend(_goal_conjuncts(t))
    if all_backends and not z3.is_true(goal):
        # thorough tier: the verdict is found as in the quick tier (same strategies, same budgets: a verdict must
        # not depend on the tier); a proof is then cross-checked: the full problem goes to the external back
        # ends as well, and a counter-model from one of them is a disagreement (their time-outs are not)
        v = _discharge1(pc, goal, want_smt2, False, scale)
        if v.status == 'unsat':
            s = z3.Solver()
            for t in flat:
                s.add(t)
            s.add(z3.Not(goal))
            smt2 = s.to_smt2()
            v2 = _external(smt2, flat + [goal])
            if v2 is not None and v2.status == 'sat':
                return Verdict('unknown', 'disagreement', v.time, smt2=smt2,
                               reason='%s unsat / %s sat' % (v.backend, v2.backend))
        return v
    if z3.is_true(goal) or os.environ.get('PYVC_NO_ATTEMPTS'):
        return _discharge2(flat, goal, want_smt2, False, scale)
    qf = [t for t in flat if not _has_quantifier(t)]
    if _uses_strings(flat + [goal]):
        # what z3 decides about the full problem it usually decides at once
        t0 = time.time()
        probe = z3.Solver()
        probe.set('timeout', 1500)
        probe.add(*flat)
        probe.add(z3.Not(goal))
        r = probe.check()
        if r == z3.unsat:
            return Verdict('unsat', 'z3-%s' % z3.get_version_string(), time.time() - t0,
                           smt2=probe.to_smt2() if want_smt2 else None)
        if r == z3.sat:
            return Verdict('sat', 'z3-%s' % z3.get_version_string(), time.time() - t0, model=probe.model(),
                           smt2=probe.to_smt2() if want_smt2 else None)
        v = _attempts(flat, qf, goal, scale)
        if v is not None:
            return v
        if len(qf) < len(flat):
            v = _discharge2(qf, goal, want_smt2, False, scale, quick=True)
            if v.status == 'unsat':
                return v
        return _discharge2(flat, goal, want_smt2, all_backends, scale)
    v = _discharge2(flat, goal, want_smt2, all_backends, scale)
    if v.status == 'unknown':
        v2 = _attempts(flat, qf, goal, scale)
        if v2 is not None:
            return v2
    return v


def _discharge2(pc, goal, want_smt2=False, all_backends=False, scale=1, quick=False):
    """Check validity of  And(pc) => goal."""
    t0 = time.time()
    if z3.is_true(goal):
        return Verdict('unsat', 'path-evaluation', 0.0)
    s = z3.Solver()
    staged = scale == 1 and Z3_FIRST_TIMEOUT_MS < Z3_TIMEOUT_MS and _uses_strings(list(pc) + [goal])
    s.set('timeout', Z3_FIRST_TIMEOUT_MS if staged else Z3_TIMEOUT_MS * scale)
    for t in pc:
        s.add(t)
    s.add(z3.Not(goal))
    smt2 = None
    r = s.check()
    if r == z3.unknown and staged:
        # what z3 decides on strings it usually decides at once; cvc5 is the stronger string solver
        smt2 = s.to_smt2()
        v2 = _external(smt2, pc + [goal], only_cvc5=True, quick=quick)
        if v2 is not None and v2.status != 'unknown':
            v2.smt2 = smt2
            v2.time = time.time() - t0
            return v2
        if quick:
            return Verdict('unknown', 'quick', time.time() - t0)
        s.set('timeout', Z3_TIMEOUT_MS)
        r = s.check()
    dt = time.time() - t0
    if want_smt2 or r == z3.unknown or all_backends:
        smt2 = s.to_smt2()
    if r == z3.unsat:
        v = Verdict('unsat', 'z3-%s' % z3.get_version_string(), dt, smt2=smt2)
        if all_backends:
            v2 = _external(smt2, pc + [goal])
            if v2 is not None and v2.status == 'sat':
                return Verdict('unknown', 'disagreement', dt, smt2=smt2, reason='z3 unsat / %s sat' % v2.backend)
        return v
    if r == z3.sat:
        m = s.model()
        return Verdict('sat', 'z3-%s' % z3.get_version_string(), dt, model=m, smt2=smt2)
    reason = s.reason_unknown()
    v2 = _external(smt2, pc + [goal], scale, skip_cvc5=staged)
    if v2 is not None and v2.status != 'unknown':
        v2.smt2 = smt2
        return v2
    return Verdict('unknown', 'z3+cvc5+z3-4.8', time.time() - t0, smt2=smt2, reason=reason)


def _external(smt2, terms, scale=1, only_cvc5=False, skip_cvc5=False, quick=False):
    strings = _uses_strings(terms)
    with tempfile.NamedTemporaryFile('w', suffix='.smt2', delete=False) as f:
        text = smt2
        if '(set-logic' not in text:
            text = '(set-logic ALL)\n' + text
        # cvc5 does not accept a backslash in a |quoted| symbol (e.g. the function str.rstrip['\\n'])
        import re as _re
        text = _re.sub(r'\|[^|]*\|', lambda mo: mo.group(0).replace('\\', '/'), text)
        f.write(text)
        fn = f.name
    try:
        t0 = time.time()
        for backend, cmd in (
                ('cvc5-1.0.3', ['/usr/bin/cvc5', '--strings-exp',
                                '--tlimit=%d' % (QUICK_CVC5_MS if quick else CVC5_TIMEOUT_S * 1000 * scale), fn]),
                ('z3-4.8.12', ['/usr/bin/z3', '-T:%d' % (OLDZ3_TIMEOUT_S * scale), fn])):
            if only_cvc5 and not backend.startswith('cvc5'):
                continue
            if skip_cvc5 and backend.startswith('cvc5'):
                continue
            try:
                p = subprocess.run(cmd, capture_output=True, text=True, timeout=max(CVC5_TIMEOUT_S, OLDZ3_TIMEOUT_S) * scale + 5)
            except subprocess.TimeoutExpired:
                continue
            out = p.stdout.strip().splitlines()
            first = out[0].strip() if out else ''
            if first == 'unsat':
                return Verdict('unsat', backend, time.time() - t0)
            if first == 'sat':
                return Verdict('sat', backend, time.time() - t0, model=None, reason='model from external solver not parsed')
        return None
    finally:
        try:
            os.unlink(fn)
        except OSError:
            pass


def model_to_dict(m):
    out = {}
    if m is None:
        return out
    for d in m.decls():
        try:
            v = m[d]
            if d.arity() == 0:
                if z3.is_int_value(v):
                    out[d.name()] = v.as_long()
                elif z3.is_true(v) or z3.is_false(v):
                    out[d.name()] = z3.is_true(v)
                elif z3.is_string_value(v):
                    out[d.name()] = decode_z3_string(v.as_string())
                else:
                    out[d.name()] = str(v)
            else:
                out[d.name()] = _func_interp(v)
        except Exception:
            pass
    return out


def _plain_value(v):
    if z3.is_int_value(v):
        return v.as_long()
    if z3.is_true(v) or z3.is_false(v):
        return z3.is_true(v)
    if z3.is_string_value(v):
        return decode_z3_string(v.as_string())
    return str(v)


def _func_interp(fi):
    """interpretation of an uninterpreted function in a counter-model (attributes of the elements of a symbolic
    sequence are functions of the index): {'__fn__': [[[args...], value], ...], 'else': value, 'text': str}"""
    try:
        entries = []
        for i in range(fi.num_entries()):
            e = fi.entry(i)
            entries.append([[_plain_value(e.arg_value(k)) for k in range(e.num_args())], _plain_value(e.value())])
        return {'__fn__': entries, 'else': _plain_value(fi.else_value()), 'text': str(fi)[:300]}
    except Exception:
        return str(fi)


def decode_z3_string(s):
    import re
    return re.sub(r'\\u\{([0-9a-fA-F]+)\}', lambda mo: chr(int(mo.group(1), 16)), s)
