"""Discharging obligations: z3 (python API) first, then /usr/bin/cvc5, then /usr/bin/z3 4.8."""
import os
import subprocess
import tempfile
import time

try:
    import z3
except ImportError:      # replays run under the repository's interpreter, without z3
    z3 = None

Z3_TIMEOUT_MS = int(os.environ.get('PYVC_Z3_TIMEOUT_MS', '10000'))
CVC5_TIMEOUT_S = int(os.environ.get('PYVC_CVC5_TIMEOUT_S', '10'))
OLDZ3_TIMEOUT_S = int(os.environ.get('PYVC_OLDZ3_TIMEOUT_S', '20'))


class Verdict:
    __slots__ = ('status', 'backend', 'time', 'model', 'smt2', 'reason')

    def __init__(self, status, backend, time_, model=None, smt2=None, reason=None):
        self.status = status      # 'unsat' (discharged) | 'sat' (refuted) | 'unknown'
        self.backend = backend
        self.time = time_
        self.model = model
        self.smt2 = smt2
        self.reason = reason


def _uses_strings(terms):
    seen = set()
    todo = list(terms)
    while todo:
        t = todo.pop()
        if t.get_id() in seen:
            continue
        seen.add(t.get_id())
        try:
            if z3.is_string(t) or (z3.is_seq(t)):
                return True
        except Exception:
            pass
        todo.extend(t.children())
    return False


QUICK_FRACTION = 0.15      # first round of the portfolio: every back end with a short budget


def discharge(pc, goal, want_smt2=False, all_backends=False, scale=1):
    """Check validity of  And(pc) => goal.  The back ends (z3, cvc5, z3 4.8) are tried in two rounds: first
    each with a short budget -- an obligation that one of them decides quickly should not wait for another
    one's full timeout -- then each with the full budget."""
    t0 = time.time()
    if z3.is_true(goal):
        return Verdict('unsat', 'trivial', 0.0)
    s = z3.Solver()
    for t in pc:
        s.add(t)
    s.add(z3.Not(goal))
    smt2 = s.to_smt2() if (want_smt2 or all_backends) else None
    reason = None
    for frac in (QUICK_FRACTION, 1.0):
        s.set('timeout', max(200, int(Z3_TIMEOUT_MS * scale * frac)))
        r = s.check()
        dt = time.time() - t0
        if r == z3.unsat:
            v = Verdict('unsat', 'z3-%s' % z3.get_version_string(), dt, smt2=smt2)
            if all_backends:
                v2 = _external(smt2, pc + [goal])
                if v2 is not None and v2.status == 'sat':
                    return Verdict('unknown', 'disagreement', dt, smt2=smt2, reason='z3 unsat / %s sat' % v2.backend)
            return v
        if r == z3.sat:
            m = s.model()
            return Verdict('sat', 'z3-%s' % z3.get_version_string(), dt, model=m, smt2=smt2)
        reason = s.reason_unknown()
        if smt2 is None:
            smt2 = s.to_smt2()
        v2 = _external(smt2, pc + [goal], scale * frac)
        if v2 is not None and v2.status != 'unknown':
            v2.smt2 = smt2
            return v2
    return Verdict('unknown', 'z3+cvc5+z3-4.8', time.time() - t0, smt2=smt2, reason=reason)


def _external(smt2, terms, scale=1):
    strings = _uses_strings(terms)
    with tempfile.NamedTemporaryFile('w', suffix='.smt2', delete=False) as f:
        text = smt2
        if '(set-logic' not in text:
            text = '(set-logic ALL)\n' + text
        f.write(text)
        fn = f.name
    try:
        t0 = time.time()
        for backend, cmd in (
                ('cvc5-1.0.3', ['/usr/bin/cvc5', '--strings-exp', '--tlimit=%d' % max(500, int(CVC5_TIMEOUT_S * 1000 * scale)), fn]),
                ('z3-4.8.12', ['/usr/bin/z3', '-t:%d' % max(500, int(OLDZ3_TIMEOUT_S * 1000 * scale)), fn])):
            try:
                p = subprocess.run(cmd, capture_output=True, text=True, timeout=max(CVC5_TIMEOUT_S, OLDZ3_TIMEOUT_S) * scale + 5)
            except subprocess.TimeoutExpired:
                continue
            out = p.stdout.strip().splitlines()
            first = out[0].strip() if out else ''
            if first == 'unsat':
                return Verdict('unsat', backend, time.time() - t0)
            if first == 'sat':
                return Verdict('sat', backend, time.time() - t0, model=None, reason='model from external solver not parsed')
        return None
    finally:
        try:
            os.unlink(fn)
        except OSError:
            pass


def model_to_dict(m):
    out = {}
    if m is None:
        return out
    for d in m.decls():
        try:
            v = m[d]
            if d.arity() == 0:
                if z3.is_int_value(v):
                    out[d.name()] = v.as_long()
                elif z3.is_true(v) or z3.is_false(v):
                    out[d.name()] = z3.is_true(v)
                elif z3.is_string_value(v):
                    out[d.name()] = decode_z3_string(v.as_string())
                else:
                    out[d.name()] = str(v)
            else:
                out[d.name()] = str(v)
        except Exception:
            pass
    return out


def decode_z3_string(s):
    import re
    return re.sub(r'\\u\{([0-9a-fA-F]+)\}', lambda mo: chr(int(mo.group(1), 16)), s)
