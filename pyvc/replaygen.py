"""Generic replay scripts: rebuild the counter-model's inputs with the contract's own shapes."""
import glob
import os

from . import VERIF


def generic(c, rf, model):
    mods = ['contracts.' + os.path.basename(f)[:-3]
            for f in sorted(glob.glob(os.path.join(VERIF, 'contracts', '[CT][0-9][0-9]*.py')))]
    return ('from pyvc import replaylib\n'
            'sys.exit(replaylib.run_generic(%r, %r, OBLIGATION, MODEL))\n' % (mods, getattr(c, 'key', c.qname)))
