"""pyvc -- verification-condition generator for the real Python functions of /repo.

The functions under contract are located in the *current* source tree, parsed with
``ast`` and executed symbolically; the contract clauses (ordinary Python predicates in
/verif/contracts) are interpreted by the same engine, and every resulting obligation
``path-condition => clause`` is discharged by z3 / cvc5.  See /verif/DESIGN.md section 2.
"""
import os
import sys

REPO = os.environ.get('PYVC_REPO', '/repo')
REPO_SRC = os.path.join(REPO, 'src')
VERIF = os.path.dirname(os.path.dirname(os.path.abspath(__file__)))

if REPO_SRC not in sys.path:
    sys.path.insert(0, REPO_SRC)


# the verifier handles integer constants that CPython (>= 3.11) refuses to print by default
import sys as _sys
if hasattr(_sys, 'set_int_max_str_digits'):
    _sys.set_int_max_str_digits(0)
