"""Command line driver:  python3-vt -m pyvc.check <property-id> [--tier quick|thorough]

Exit codes: 0 every obligation discharged (known findings printed), 1 at least one refuted
obligation that is not a listed known finding, 2 undecided, 3 checker error.
"""
import argparse
import glob
import importlib
import importlib.util
import json
import multiprocessing
import os
import sys
import threading
import time
import traceback

sys.setrecursionlimit(20000)
threading.stack_size(256 * 1024 * 1024)

from . import REPO, REPO_SRC, VERIF  # noqa: E402

if VERIF not in sys.path:
    sys.path.insert(0, VERIF)

import z3  # noqa: E402

from . import frontend, smt, verify, replay, re_model, regex  # noqa: E402,F401  (regex: assumed contract of Pattern.match on concrete patterns)
from .api import Registry, Module, Contract  # noqa: E402


def load_modules():
    mods = []
    for fn in sorted(glob.glob(os.path.join(VERIF, 'contracts', '[CT][0-9][0-9]*.py'))):
        name = 'contracts.' + os.path.basename(fn)[:-3]
        mod = importlib.import_module(name)
        m = getattr(mod, 'M', None)
        if isinstance(m, Module):
            m.pymodule = mod
            mods.append(m)
    return mods


class LoopSpecs(list):
    """the specs that sidecar modules give for one loop"""

    def pick(self, current_module):
        for ls in self:
            if getattr(ls, 'module', None) is current_module:
                return ls
        return self[0]


def build_registry(mods):
    # hooks that need every sidecar module to be loaded (e.g. sharing contracts between properties)
    for m in mods:
        hook = getattr(m, 'after_load', None)
        if hook is not None:
            hook()
            m.after_load = None
    # which sidecar modules build on which (python imports between them), transitively
    import types as _types
    by_py = {id(m.pymodule): m for m in mods if getattr(m, 'pymodule', None) is not None}
    for m in mods:
        m.uses = set()
    changed = True
    while changed:
        changed = False
        for m in mods:
            py = getattr(m, 'pymodule', None)
            if py is None:
                continue
            for v in list(vars(py).values()):
                other = by_py.get(id(v)) if isinstance(v, _types.ModuleType) else None
                if other is not None and other is not m:
                    new = {other.prop} | other.uses
                    if not new <= m.uses:
                        m.uses |= new
                        changed = True
    reg = Registry()
    reg.loops_by_key = {}
    for m in mods:
        for c in m.contracts:
            reg.add_contract(c)
        for f, mm in m.models.items():
            reg.scoped_models.setdefault(m.prop, {})[f] = mm
            reg.__dict__.setdefault('module_models', {}).setdefault(m, {})[f] = mm
        for f, ab in getattr(m, 'abstractions', {}).items():
            reg.abstractions[f] = ab
        for ls in m.loops:
            # keyed per module: the spec of the module whose contract is being verified is preferred (loops.find_spec)
            reg.loops[(ls.qname, ls.ordinal, m.prop)] = ls
    from contracts import common
    from . import models as _models
    reg.models[common.forall_range] = _models.q_forall
    reg.models[common.exists_range] = _models.q_exists
    reg.models[common.is_opaque] = _models.m_is_opaque
    if hasattr(common, 'rec_app'):
        reg.models[common.rec_app] = _models.m_rec_app
    if hasattr(common, 'is_item'):
        reg.models[common.is_item] = _models.m_is_item
    for _n in ('conj', 'slot', 'snapshot_lists', 'all_keys'):
        if hasattr(common, _n):
            reg.models[getattr(common, _n)] = getattr(_models, 'm_' + _n)
    from . import texts as _texts
    reg.models[common.prefix_join] = _texts.m_prefix_join
    reg.models[common.peek] = _texts.m_peek
    from . import textio as _textio
    _textio.install(reg)
    from . import charclass as _charclass
    reg.models[common.all_chars] = _charclass.m_all_chars
    reg.models[common.sum_prefix] = _models.q_sum_prefix
    reg.models[common.count_prefix] = _models.q_count_prefix
    reg.models[common.nat_of_str] = _models.q_nat_of_str
    if hasattr(common, 'flat_offset'):
        from . import flat as _flat
        reg.models[common.flat_offset] = _flat.q_flat_offset
    reg.models[common.keys_subset] = _models.q_keys_subset
    reg.models[common.prefix_fold] = _models.m_prefix_fold
    reg.models[common.forall_keys] = _models.q_forall_keys
    reg.models[common.items_of] = _models.m_items_of
    reg.link()
    # loop specs keyed by (file, ast-qualname, ordinal)
    for (q, ordinal, _prop), ls in reg.loops.items():
        modname, _, path = q.partition(':')
        try:
            mod = importlib.import_module(modname)
        except Exception as e:
            reg.missing.append((q, 'loop spec: cannot import %s' % modname))
            continue
        reg.loops_by_key.setdefault((mod.__file__, path, ordinal), LoopSpecs()).append(ls)
    return reg


_REG = None
_MODS = None
_TIER = 'quick'
_BASELINE = {}


def load_baseline(prop):
    path = os.path.join(VERIF, 'baseline', prop + '.json')
    if os.path.exists(path):
        with open(path) as f:
            return json.load(f)
    return {}


def _task_function(qname):
    """Runs in a worker process: verify one function and discharge its obligations."""
    out = {'qname': qname, 'kind': 'function'}
    result = {}

    def body():
        try:
            c = _REG.contracts[qname]
            _REG.current_module = getattr(c, 'module', None)
            prof = os.environ.get('PYVC_PROFILE')
            if prof and prof in qname:
                import cProfile
                pr = cProfile.Profile()
                rep = pr.runcall(verify.verify_function, _REG, c)
                pr.dump_stats('/tmp/pyvc-profile-%d.prof' % os.getpid())
            else:
                rep = verify.verify_function(_REG, c)
            result['rep'] = _summarize(c, rep)
        except BaseException:
            result['crash'] = traceback.format_exc()

    th = threading.Thread(target=body)
    th.start()
    th.join()
    out.update(result)
    return out


def _refinement_pair(key):
    """(summary, proved contract) for a task key (key of the summary in the registry, property of the prover)"""
    t = _REG.contracts[key[0]]
    vs = [c for c in _REG.contracts.values() if c.qname == t.qname and not c.trusted
          and getattr(getattr(c, 'module', None), 'prop', None) == key[1]]
    if not vs:
        raise LookupError('no proved contract for %s in the sidecar module of %s' % (t.qname, key[1]))
    return t, vs[0]


def _task_refinement(key):
    """Runs in a worker process: the assumed summary `key[0]` is implied by the contract proved under `key[1]`."""
    out = {'qname': '%s#implied-by-%s' % key, 'kind': 'function'}
    result = {}

    def body():
        try:
            t, v = _refinement_pair(key)
            _REG.current_module = getattr(v, 'module', None)
            rep = verify.verify_function(_REG, t, via=v)
            rep.dep_shas = getattr(rep, 'dep_shas', None) or {}
            r = _summarize(t, rep)
            r['qname'] = verify.refinement_name(t, v)
            r['refinement_of'] = key[0]
            result['rep'] = r
        except BaseException:
            result['crash'] = traceback.format_exc()

    th = threading.Thread(target=body)
    th.start()
    th.join()
    out.update(result)
    return out


def _summarize(c, rep):
    all_backends = (_TIER == 'thorough')
    clauses = {}
    solver_time = 0.0
    by_backend = {}
    vcs = 0
    samples = []
    for name, insts in rep.obligations.items():
        status = 'unsat'
        detail = None
        for (pc, goal, meta, decisions) in insts:
            vcs += 1
            v = smt.discharge(pc, goal, want_smt2=(len(samples) < 1), all_backends=all_backends)
            solver_time += v.time
            if os.environ.get('PYVC_TIME_DISCHARGE') and v.time > 1.0:
                print('DISCHARGE %6.1fs %-8s %-28s %s' % (v.time, v.status, v.backend, name), file=sys.stderr, flush=True)
            by_backend[v.backend] = by_backend.get(v.backend, 0) + 1
            if v.smt2 and len(samples) < 1 and v.status == 'unsat' and v.backend != 'path-evaluation':
                samples.append({'obligation': name, 'verdict': 'unsat', 'backend': v.backend,
                                'smt2': v.smt2[:3000]})
            if v.status == 'sat':
                status = 'sat'
                detail = {'model': smt.model_to_dict(v.model), 'meta': _jsonable(meta), 'backend': v.backend,
                          'decisions': [d if isinstance(d, (int, bool, str)) else str(d) for d in decisions],
                          'goal': str(goal)[:2000]}
                break
            if v.status == 'unknown' and status != 'sat':
                base = _BASELINE.get(name)
                if base is not None and base.get('status') == 'unsat' and base.get('deps_sha') != rep.deps_sha:
                    # discharged on the pinned tree, the code it was generated from has changed, and the
                    # proof no longer goes through: retry with three times the budget before reporting
                    v10 = smt.discharge(pc, goal, scale=3)
                    solver_time += v10.time
                    if v10.status == 'unsat':
                        by_backend[v10.backend] = by_backend.get(v10.backend, 0) + 1
                        continue
                    if v10.status == 'sat':
                        status = 'sat'
                        detail = {'model': smt.model_to_dict(v10.model), 'meta': _jsonable(meta),
                                  'backend': v10.backend, 'goal': str(goal)[:2000]}
                        break
                    status = 'regressed'
                    detail = {'reason': 'discharged on the pinned tree (%s); after the change of the source it was '
                                        'generated from, no back end proves it within 3x the budget: %s'
                                        % (base.get('backend'), v10.reason),
                              'backend': v10.backend, 'meta': _jsonable(meta), 'goal': str(goal)[:2000]}
                    continue
                if status != 'regressed':
                    status = 'unknown'
                    detail = {'reason': v.reason, 'backend': v.backend, 'meta': _jsonable(meta)}
        clauses[name] = {'status': status, 'instances': len(insts), 'detail': detail,
                         'kind': (insts[0][2] or {}).get('kind')}
    return {
        'qname': getattr(c, 'key', c.qname), 'props': list(c.props), 'paths': rep.paths, 'aborted_paths': rep.aborted_paths,
        'clauses': clauses, 'unsupported': rep.unsupported, 'errors': rep.errors,
        'inlined': sorted(rep.inlined), 'used_contracts': sorted(rep.used_contracts),
        'used_models': sorted(rep.used_models), 'native_calls': sorted(rep.native_calls),
        'assumed_asserts': sorted(rep.assumed_asserts), 'outcomes': rep.outcomes,
        'source': rep.source, 'sha256': rep.sha, 'wall': rep.wall, 'solver_time': solver_time,
        'by_backend': by_backend, 'vcs': vcs, 'samples': samples,
        'unknown_feasibility': rep.unknown_feasibility, 'feasibility_queries': rep.feasibility_queries,
        'slow_queries': [list(q) for q in rep.slow_queries[:20]],
        'uncovered': rep.uncovered,
        'deps_sha': rep.deps_sha,
        'dep_shas': rep.dep_shas,
    }


def _lost_obligations(qname, have, why):
    """A function that was verified on the pinned tree cannot be brought through the verifier any more
    (construct outside the supported subset, loop or contract predicate that no longer fits, verifier error)
    AND the source text its obligations were generated from has changed: every obligation that was discharged
    on the pinned tree and is not re-established now is reported as no longer proved (DESIGN 2.9: a violation
    without failing input).  On unchanged sources the same failure stays a checker problem (exit 2 / 3)."""
    from . import verify as _v
    fns = _BASELINE.get('__functions__') or {}
    base = fns.get(qname) or fns.get(qname.split('#')[0]) or \
        next((v for k, v in fns.items() if k.split('#')[0] == qname.split('#')[0]), None)
    if not base:
        return []
    changed = sorted((q or qname) for q, sha in base.items()
                     if _v.source_sha_of(q or qname.split('#')[0]) != sha)
    if not changed:
        return []
    out = []
    for name, b in sorted(_BASELINE.items()):
        if name.startswith(qname.split('#')[0] + ' : ') and isinstance(b, dict) and b.get('status') == 'unsat' and name not in have:
            out.append({'obligation': name, 'function': qname, 'regressed': True,
                        'detail': {'reason': 'discharged on the pinned tree (%s); the source it was generated from has '
                                             'changed (%s) and the verifier can no longer establish it: %s'
                                             % (b.get('backend'), ', '.join(changed)[:300], why)}})
    return out


def _jsonable(x):
    try:
        json.dumps(x)
        return x
    except Exception:
        return {k: (v if isinstance(v, (int, str, bool, float, type(None))) else repr(v)) for k, v in x.items()} \
            if isinstance(x, dict) else repr(x)


def _task_check(key):
    """Runs in a worker: an extra obligation generator of a sidecar module."""
    prop, name = key
    out = {'kind': 'check', 'name': name, 'prop': prop}
    result = {}

    def body():
        try:
            for m in _MODS:
                if m.prop == prop:
                    for (n, fn) in m.checks:
                        if n == name:
                            t0 = time.time()
                            ctx = CheckCtx(_REG, _TIER)
                            fn(ctx)
                            result['results'] = ctx.results
                            result['wall'] = time.time() - t0
                            return
                    for (n, fn) in m.bounded_checks:
                        if n == name:
                            t0 = time.time()
                            ctx = CheckCtx(_REG, _TIER)
                            fn(ctx)
                            result['bounded'] = ctx.bounded
                            result['results'] = ctx.results
                            result['wall'] = time.time() - t0
                            result['is_bounded'] = True
                            return
            result['crash'] = 'check not found'
        except BaseException:
            result['crash'] = traceback.format_exc()

    th = threading.Thread(target=body)
    th.start()
    th.join()
    out.update(result)
    return out


class CheckCtx:
    """Handed to extra obligation generators (finite-domain tables, syntactic frame scans...)."""

    def __init__(self, reg, tier):
        self.reg = reg
        self.tier = tier
        self.results = []
        self.bounded = []
        self.seed = int(os.environ.get('VERIF_SEED', '0') or 0)

    def bounded_result(self, function, bound, cases, exhaustive, failures=(), note=''):
        """failures: list of dicts {'input': ..., 'expected': ..., 'actual': ..., 'replay': <python source>}"""
        self.bounded.append({'function': function, 'bound': bound, 'cases': cases, 'exhaustive': bool(exhaustive),
                             'failures': list(failures)[:5], 'n_failures': len(list(failures)), 'note': note,
                             'label': 'bounded'})

    def obligation(self, name, ok, backend, detail=None, replay=None, undecided=False):
        self.results.append({'name': name, 'status': 'unknown' if undecided else ('unsat' if ok else 'sat'),
                             'backend': backend, 'detail': detail, 'replay': replay})

    def smt(self, name, pc, goal, detail=None):
        v = smt.discharge(list(pc), goal)
        d = dict(detail or {})
        if v.status == 'sat':
            d['model'] = smt.model_to_dict(v.model)
        self.results.append({'name': name, 'status': v.status, 'backend': v.backend, 'detail': d, 'replay': None})


def load_known_findings():
    path = os.path.join(VERIF, 'known_findings.jsonl')
    out = []
    if os.path.exists(path):
        for line in open(path):
            line = line.strip()
            if line and not line.startswith('#'):
                out.append(json.loads(line))
    return out


def main(argv=None):
    global _REG, _MODS, _TIER
    ap = argparse.ArgumentParser()
    ap.add_argument('prop')
    ap.add_argument('--tier', default=os.environ.get('VERIF_TIER', 'quick'))
    ap.add_argument('--jobs', type=int, default=int(os.environ.get('PYVC_JOBS', '16')))
    ap.add_argument('--only', default=None, help='substring filter on function names (development)')
    ap.add_argument('--verbose', '-v', action='store_true')
    ap.add_argument('--no-evidence', action='store_true')
    ap.add_argument('--write-baseline', action='store_true',
                    help='record the discharged obligations of the unchanged tree in baseline/<prop>.json')
    args = ap.parse_args(argv)
    _TIER = args.tier if args.tier in ('quick', 'thorough') else 'quick'
    os.environ['VERIF_TIER'] = _TIER        # visible to sidecar modules (tier-dependent bounds / proofs) and sub-processes
    seed = int(os.environ.get('VERIF_SEED', '0') or 0)
    t0 = time.time()
    prop = args.prop
    global _BASELINE
    _BASELINE = load_baseline(prop)
    try:
        _MODS = load_modules()
        _REG = build_registry(_MODS)
    except BaseException:
        traceback.print_exc()
        print('CHECKER-ERROR: cannot load contracts')
        return 3
    mine = [m for m in _MODS if m.prop == prop]
    if not mine:
        print('CHECKER-ERROR: no contract module for %s' % prop)
        return 3
    tasks = []
    seen_funcs = {}
    for q, c in _REG.contracts.items():
        if prop in c.props and not c.trusted and c.func is not None:
            if args.only and args.only not in q:
                continue
            tasks.append(('f', q))
    for m in mine:
        for (n, fn) in m.checks:
            if args.only and args.only not in n:
                continue
            tasks.append(('c', (prop, n)))
        for (n, fn) in m.bounded_checks:
            if args.only and args.only not in n:
                continue
            tasks.append(('c', (prop, n)))
        # checks / bounded stand-ins of another sidecar module that this property rests on too
        # (`M.shared_checks = [('C09', 'name'), ...]`): run again here, reported under this property
        for (other, n) in getattr(m, 'shared_checks', ()):
            if args.only and args.only not in n:
                continue
            assert any(n == x[0] for mm in _MODS if mm.prop == other for x in list(mm.checks) + list(mm.bounded_checks)), \
                'shared check %s/%s does not exist' % (other, n)
            tasks.append(('c', (other, n)))
    # assumed summaries declared to follow from what another property proves (Module.implied_by)
    for m in mine:
        for (q, other) in getattr(m, 'refinements', ()):
            if args.only and args.only not in q:
                continue
            keys = [k for k, c in _REG.contracts.items() if c.qname == q and c.trusted and getattr(c, 'module', None) is m]
            assert keys, 'implied_by(%s): this module states no assumed contract for it' % q
            tasks.append(('r', (keys[0], other)))
            for k, c in _REG.contracts.items():
                # the proved contract carries this property too: re-proved here
                if c.qname == q and not c.trusted and getattr(getattr(c, 'module', None), 'prop', None) == other \
                        and c.func is not None and ('f', k) not in tasks:
                    tasks.append(('f', k))
    missing = [(q, why) for (q, why) in _REG.missing
               if (q in _REG.contracts and prop in _REG.contracts[q].props) or
               any(q == ls.qname for m in mine for ls in m.loops)]
    results = []
    ctx = multiprocessing.get_context('fork')
    if args.jobs > 1 and len(tasks) > 1:
        with ctx.Pool(min(args.jobs, len(tasks)), maxtasksperchild=8) as pool:
            asyncs = [(t, pool.apply_async({'f': _task_function, 'r': _task_refinement, 'c': _task_check}[t[0]], (t[1],)))
                      for t in tasks]
            for t, a in asyncs:
                try:
                    results.append(a.get(timeout=3600))
                except Exception:
                    results.append({'kind': 'function' if t[0] in ('f', 'r') else 'check', 'qname': str(t[1]),
                                    'name': str(t[1]), 'crash': traceback.format_exc()})
    else:
        for t in tasks:
            results.append({'f': _task_function, 'r': _task_refinement, 'c': _task_check}[t[0]](t[1]))
    return report(prop, mine, results, missing, seed, time.time() - t0, args)


def report(prop, mine, results, missing, seed, wall, args):
    known = [k for k in load_known_findings() if k.get('property') == prop and k.get('status', 'known') == 'known']
    obligations = 0
    discharged = 0
    refuted = []
    undecided = []
    crashes = []
    functions = []
    by_backend = {}
    solver_time = 0.0
    samples = []
    inlined = set()
    used_models = set()
    native_calls = set()
    assumed_contracts = set()
    assumed_asserts = set()
    vcs = 0
    bounded_all = []
    baseline_out = {}
    baseline_fns = {}
    implied = {}
    for r in results:
        if 'crash' in r:
            lost = _lost_obligations(r['qname'], set(), 'verifier error: ' + r['crash'][-600:]) \
                if r.get('qname') else []
            if lost:
                refuted.extend(lost)
                obligations += len(lost)
            else:
                crashes.append((r.get('qname') or r.get('name'), r['crash']))
            continue
        if r['kind'] == 'function':
            rep = r['rep']
            if args.verbose:
                for q in rep.get('slow_queries', []):
                    print('SLOW-FEASIBILITY %s: %s' % (rep['qname'], str(q)[:600]))
            functions.append({'name': rep['qname'], 'source': rep['source'], 'sha256': rep['sha256'],
                              'paths': rep['paths'], 'outcomes': rep['outcomes'],
                              'clauses': len(rep['clauses']), 'wall_s': round(rep['wall'], 2),
                              'solver_s': round(rep['solver_time'], 2),
                              'feasibility_queries': rep['feasibility_queries']})
            solver_time += rep['solver_time']
            vcs += rep['vcs']
            for b, n in rep['by_backend'].items():
                by_backend[b] = by_backend.get(b, 0) + n
            inlined |= set(rep['inlined'])
            used_models |= set(rep['used_models'])
            native_calls |= set(rep['native_calls'])
            assumed_asserts |= set(rep['assumed_asserts'])
            for q in rep['used_contracts']:
                c = _REG.contracts.get(q)
                if c is not None and c.trusted:
                    assumed_contracts.add(q)
            if rep.get('refinement_of') and not rep['unsupported'] and not rep['errors'] and rep['clauses'] \
                    and all(cl['status'] == 'unsat' for cl in rep['clauses'].values()):
                implied[rep['refinement_of']] = rep['qname']
            samples.extend(rep['samples'][:1])
            baseline_fns[rep['qname']] = rep.get('dep_shas') or {}
            lost = []
            if rep['unsupported'] or rep['errors']:
                why = ('unsupported: ' + '; '.join(sorted(set(rep['unsupported']))[:5])) if rep['unsupported'] \
                    else 'verifier error: ' + rep['errors'][0][-600:]
                # (an obligation discharged on the explored paths only is not established: some path was given up)
                lost = _lost_obligations(rep['qname'], set(n for n, cl in rep['clauses'].items()
                                                          if cl['status'] in ('sat', 'regressed')), why)
                refuted.extend(lost)
                if lost:
                    gone = set(x['obligation'] for x in lost)
                    rep = dict(rep, clauses={n: cl for n, cl in rep['clauses'].items() if n not in gone})
            if rep['unsupported'] and not lost:
                undecided.append((rep['qname'], 'unsupported: ' + '; '.join(sorted(set(rep['unsupported']))[:5])))
            if rep['errors'] and not lost:
                crashes.append((rep['qname'], '\n'.join(rep['errors'][:3])))
            if lost:
                # the obligations of the pinned tree that can no longer be generated are reported (below);
                # what was generated on the paths that could be explored is kept
                obligations += len(lost)
                rep = dict(rep, unsupported=[], errors=[], uncovered=[], samples=[])
            if rep['paths'] == 0 and not rep['unsupported'] and not rep['errors'] and not lost:
                crashes.append((rep['qname'], 'vacuous: no feasible path (contradictory precondition?)'))
            if rep.get('uncovered'):
                # several contracts may divide the inputs of ONE function between them (frozen__from_write: writers
                # that write through the file object / programs that write through its descriptor): an exit is
                # vacuous only if NO contract of the function reaches it
                base_q = rep['qname'].split('#')[0]
                others = [r2['rep'] for r2 in results if r2.get('kind') == 'function' and 'rep' in r2
                          and r2['rep'] is not rep and r2['rep']['qname'].split('#')[0] == base_q
                          and not r2['rep'].get('refinement_of')
                          and not r2['rep']['unsupported'] and not r2['rep']['errors'] and r2['rep']['paths'] > 0]
                still = [u for u in rep['uncovered'] if all(u in (o.get('uncovered') or []) for o in others)]
                if still:
                    crashes.append((rep['qname'], 'vacuous: return/raise never reached on a feasible path (cut off by '
                                                  'an assumption?): ' + '; '.join(still)))
            if not rep['clauses'] and not rep['unsupported'] and not rep['errors'] and not lost:
                crashes.append((rep['qname'], 'vacuous: zero obligations generated'))
            for name, cl in rep['clauses'].items():
                obligations += 1
                baseline_out[name] = {'status': cl['status'], 'deps_sha': rep.get('deps_sha'),
                                      'backend': ','.join(sorted(rep['by_backend']))}
                if cl['status'] == 'unsat':
                    discharged += 1
                elif cl['status'] in ('sat', 'regressed'):
                    refuted.append({'obligation': name, 'function': rep['qname'], 'detail': cl['detail'],
                                    'regressed': cl['status'] == 'regressed'})
                else:
                    undecided.append((name, 'solver: %s' % (cl['detail'],)))
        else:
            for b in r.get('bounded', []):
                bounded_all.append(b)
                for fl in b['failures']:
                    refuted.append({'obligation': 'bounded[%s] %s' % (b['function'], str(fl.get('input'))[:80]),
                                    'function': None, 'detail': {k: v for k, v in fl.items() if k != 'replay'},
                                    'replay_src': fl.get('replay')})
            if r.get('is_bounded') and r.get('bounded'):
                continue
            for res in r.get('results', []):
                obligations += 1
                by_backend[res['backend']] = by_backend.get(res['backend'], 0) + 1
                if res['status'] == 'unsat':
                    discharged += 1
                elif res['status'] == 'sat':
                    refuted.append({'obligation': res['name'], 'function': None, 'detail': res['detail'],
                                    'replay_src': res.get('replay')})
                else:
                    undecided.append((res['name'], 'undecided: %s' % (res.get('detail'),)))
            if not r.get('results'):
                crashes.append((r['name'], 'vacuous: check produced zero obligations'))
    for q, why in missing:
        undecided.append((q, why))

    # ---- known findings / violations
    violations = []
    known_seen = []
    for rf in refuted:
        k = replay.match_known(rf, known)
        rp = replay.write_replay(prop, rf, _REG)
        rf['replay'] = rp['path']
        rf['replayed'] = rp['reproduced']
        if k is not None and rp.get('witness_class_ok', True):
            known_seen.append((k, rf))
        else:
            violations.append(rf)

    if args.write_baseline and not args.only:
        baseline_out['__functions__'] = baseline_fns
        os.makedirs(os.path.join(VERIF, 'baseline'), exist_ok=True)
        with open(os.path.join(VERIF, 'baseline', prop + '.json'), 'w') as f:
            json.dump(baseline_out, f, indent=1, sort_keys=True)
    # obligations of the pinned tree that were not generated at all on this run
    reported = set(rf['obligation'] for rf in refuted)
    for name, b in _BASELINE.items():
        if b.get('status') == 'unsat' and name not in baseline_out and name not in reported and not args.only \
                and not any(name == u[0] for u in undecided):
            fn = name.split(' : ')[0]
            if not any(fn == u[0] or fn in str(u[0]) for u in undecided) and not any(fn == c[0] for c in crashes):
                undecided.append((name, 'obligation of the pinned tree was not generated on this run'))
    exit_code = 0
    for k, rf in known_seen:
        print('KNOWN-FINDING: property=%s %s' % (prop, k.get('what', rf['obligation'])))
    for rf in violations:
        tail = '' if rf['replayed'] else ' no-failing-input-found'
        print('VIOLATION property=%s replay=%s%s' % (prop, rf['replay'], tail))
        print('  obligation: %s' % rf['obligation'])
        exit_code = 1
    if crashes:
        for name, tb in crashes:
            print('CHECKER-ERROR in %s:\n%s' % (name, tb))
        if exit_code == 0:
            exit_code = 3
    if undecided and exit_code == 0:
        exit_code = 2
    for name, why in undecided:
        print('UNDECIDED %s: %s' % (name, why))

    trusted = []
    assumptions = []
    bounded = []
    for m in mine:
        trusted.extend(m.trusted_base)
        assumptions.extend(m.assumptions)
        pass
    bounded = bounded_all
    trusted.extend('model of %s' % x for x in sorted(used_models))
    trusted.extend('assumed contract of %s' % x for x in sorted(assumed_contracts) if x not in implied)
    extra_implied = ['%s' % implied[x] for x in sorted(implied)]
    trusted.extend(['z3 %s' % z3.get_version_string(), 'cvc5 1.0.3 (fallback)', 'pyvc symbolic interpreter (DESIGN 2)',
                    'CPython %d.%d semantics as encoded (DESIGN 2.5)' % sys.version_info[:2]])
    assumptions.extend('assert isinstance(...) taken as assumption at %s' % a for a in sorted(assumed_asserts))
    assumptions.extend('executed natively on concrete arguments: %s' % a for a in sorted(native_calls))
    assumptions.append('integers are mathematical; no threads/signals/BaseException; termination only where a variant is given')
    extra = {}
    if _TIER == 'thorough' and not args.only:
        # validation of the verifier itself (DESIGN 2.4): a failure here is a checker error
        try:
            from . import modelcheck
            import subprocess as _sp
            # in a process of its own: the native side runs with effectful primitives blocked
            pcc = _sp.run([sys.executable, '-m', 'pyvc.crosscheck', prop, '--runs', '25', '--json'], cwd=VERIF,
                          capture_output=True, text=True, timeout=3600,
                          env=dict(os.environ, VERIF_SEED=str(seed)))
            try:
                cc = json.loads(pcc.stdout.strip().splitlines()[-1])
            except Exception:
                cc = {'compared': 0, 'failures': ['cross-check crashed: ' + (pcc.stdout + pcc.stderr)[-800:]],
                      'skipped': {}}
            extra['interpreter_crosscheck_against_cpython'] = {
                'runs_compared': cc['compared'], 'failures': len(cc['failures']),
                'functions_without_concrete_inputs_or_with_effects': sorted(cc['skipped'])}
            cases, mfail = modelcheck.run(3)
            extra['string_model_crosscheck_against_cpython'] = {'cases': cases, 'failures': len(mfail)}
            suites = [x for m in mine for x in getattr(m, 'conformance_suites', [])]
            if suites:
                import subprocess
                env = dict(os.environ, PYTHONPATH=os.pathsep.join([VERIF, REPO_SRC, os.path.join(REPO, 'test')]))
                p = subprocess.run(['/venv/bin/python', '-W', 'ignore', '-m', 'pyvc.conformance', prop] + suites,
                                   cwd=VERIF, env=env, capture_output=True, text=True, timeout=1800)
                try:
                    conf = json.loads(p.stdout[p.stdout.index('{'):])
                except Exception:
                    conf = {'error': (p.stdout + p.stderr)[-800:]}
                extra['runtime_conformance_under_repository_unit_tests'] = conf
                if conf.get('precondition_failures') or conf.get('postcondition_failures') or 'error' in conf:
                    print('CHECKER-ERROR: run-time conformance: %s' % json.dumps(
                        {k: conf.get(k) for k in ('precondition_failures', 'postcondition_failures', 'error')})[:1500])
                    if exit_code == 0:
                        exit_code = 3
            if cc['failures'] or mfail:
                for f in (cc['failures'] + mfail)[:10]:
                    print('CHECKER-ERROR: cross-check against CPython failed: %r' % (f,))
                if exit_code == 0:
                    exit_code = 3
        except Exception:
            print('CHECKER-ERROR: cross-check crashed\n' + traceback.format_exc())
            if exit_code == 0:
                exit_code = 3
    evidence = {
        'property_id': prop, 'tier': _TIER, 'seed': seed, 'level': 'proof',
        'coverage': {
            # obligations refuted by a LISTED known finding are reported separately (they are genuine,
            # recorded defects of the program, not claimed as proved and not counted here)
            'obligations': obligations - len(known_seen), 'discharged': discharged,
            'obligations_refuted_by_listed_known_findings': len(known_seen),
            'checker_cmd': 'python3-vt -m pyvc.check %s --tier %s' % (prop, _TIER),
            'trusted_base': trusted,
            'functions_under_contract': functions,
            'smt_queries': vcs, 'by_backend': by_backend, 'solver_time_s': round(solver_time, 3),
            'by_backend_legend': {
                'path-evaluation': 'the clause evaluated to True on a path whose every symbolic decision was a case '
                                   'split or an entailment decided by z3 during path exploration (typical for '
                                   'full-domain enum proofs)',
                'enumeration': 'finite obligation on real module constants / syntactic scan of the current source',
            },
            'inlined_transparent_functions': sorted(inlined),
            'refuted': [{'obligation': r['obligation'], 'replay': r['replay'], 'reproduced_natively': r['replayed']}
                        for r in refuted],
            'known_findings_seen': [k.get('what') for k, _ in known_seen],
            'undecided': [list(u) for u in undecided],
            'samples': samples[:5] or [{'note': 'no SMT sample (all obligations by enumeration/scan)'}],
            'bounded_standins': bounded,
            'summaries_implied_by_contracts_proved_for_other_properties': extra_implied,
            **extra,
        },
        'assumptions': assumptions,
        'wall_s': round(wall, 3),
        'violations': len(violations),
    }
    if not args.no_evidence and not args.only:
        os.makedirs(os.path.join(VERIF, 'evidence'), exist_ok=True)
        with open(os.path.join(VERIF, 'evidence', prop + '.json'), 'w') as f:
            json.dump(evidence, f, indent=1, default=str)
    print('%s: %d obligations, %d discharged, %d refuted (%d known), %d undecided, %d functions, %.1fs'
          % (prop, obligations, discharged, len(refuted), len(known_seen), len(undecided), len(functions), wall))
    if obligations == 0 and exit_code == 0:
        print('CHECKER-ERROR: zero obligations')
        exit_code = 3
    if args.verbose:
        for fn in functions:
            print('  ', fn['name'], 'paths=%d' % fn['paths'], fn['outcomes'], 'clauses=%d' % fn['clauses'],
                  'wall=%.1fs solver=%.1fs feas=%d' % (fn['wall_s'], fn['solver_s'], fn['feasibility_queries']))
    return exit_code


if __name__ == '__main__':
    sys.exit(main())
