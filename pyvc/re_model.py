"""Assumed contract of the `re` module (Python documentation): compiling a pattern text may fail; substituting a
replacement template may fail unless the template is valid for the pattern."""
import re

try:
    import z3
except ImportError:
    z3 = None

from .api import Interface, Method, Str, Int, Bool, Iface, Opt, Any_, new_opaque
from .models import MODELS, arbitrary_exception, _pyraise
from .path import Unsupported
from .values import SStr, SOpt, SChoice


def _sub(interp, self, args, kwargs):
    """Pattern.sub(repl, string): the template `repl` is parsed when sub is called; a bad escape or a reference to
    a group the pattern does not have raises re.error / IndexError (`template_ok` = it is valid for the pattern)."""
    repl = args[0] if args else kwargs['repl']
    if isinstance(repl, (SOpt, SChoice)):
        repl = interp.resolve(repl)
    if not isinstance(repl, (str, SStr)):
        raise Unsupported('Pattern.sub with a function as replacement')
    ok = interp.reg.call_opaque(interp, self, 'template_ok', [repl], {})
    if not interp.branch(ok):
        if interp.st.choose(2) == 0:
            raise _pyraise(re.error('invalid group reference / bad escape in the replacement template'))
        raise _pyraise(IndexError('no such group'))
    return SStr(interp.st.fresh_str('sub'))


class PatternI(Interface):
    target_class = re.Pattern
    attrs = {'pattern': Str, 'flags': Int, 'groups': Int}
    methods = {
        'template_ok': Method(returns=Bool, pure=True),       # ghost: the template is valid for this pattern
        'sub': Method(model=_sub),
        'search': Method(returns=Opt(Any_)),
        'match': Method(returns=Opt(Any_)),
        'fullmatch': Method(returns=Opt(Any_)),
    }


def m_compile(interp, args, kwargs):
    """re.compile(text, flags): a Pattern, or re.error (invalid expression), OverflowError / RecursionError
    (huge repetition counts / nesting), or another Exception"""
    if interp.st.choose(2) == 1:
        raise _pyraise(arbitrary_exception(interp, (re.error, OverflowError, RecursionError)))
    return new_opaque(interp, PatternI, 're.compile()')


MODELS[re.compile] = m_compile
