"""Assumed contracts (models) of builtins and standard-library functions, and operations on
symbolic sequences / maps.  Every model used on a run is listed in the evidence file; the
pure ones are cross-checked against CPython by ``pyvc.stdlib_check``."""
import ast
import builtins
import enum
import functools
import itertools
import operator
import types

try:
    import z3
except ImportError:      # replays run under the repository's interpreter, without z3
    z3 = None

from .path import Unsupported, PathAbort
from .values import (Sym, SInt, SBool, SStr, SOpt, SChoice, SList, Opaque, OpaqueVal,
                     contains_sym, to_z3, wrap)

MODELS = {}          # callable object -> model(interp, args, kwargs)
METHOD_MODELS = {}   # (type, name) -> model(interp, self, args, kwargs)


def model(*fs):
    def deco(m):
        for f in fs:
            MODELS[f] = m
        return m

    return deco


def method_model(tp, *names):
    def deco(m):
        for n in names:
            METHOD_MODELS[(tp, n)] = m
        return m

    return deco


def lookup_model(f):
    try:
        m = MODELS.get(f)
    except TypeError:
        m = None
    if m is not None:
        return m
    selfobj = getattr(f, '__self__', None)
    name = getattr(f, '__name__', None)
    if selfobj is not None and name is not None and not isinstance(selfobj, types.ModuleType):
        for k in type(selfobj).__mro__:
            mm = METHOD_MODELS.get((k, name))
            if mm is not None:
                return lambda interp, args, kwargs, mm=mm, s=selfobj: mm(interp, s, args, kwargs)
    # unbound method descriptors, e.g. str.join
    oc = getattr(f, '__objclass__', None)
    if oc is not None and name is not None:
        mm = METHOD_MODELS.get((oc, name))
        if mm is not None:
            return lambda interp, args, kwargs, mm=mm: mm(interp, args[0], args[1:], kwargs)
    return None


def _pyraise(e):
    from .interp import PyRaise
    return PyRaise(e)


# ============================================================================ builtins

@model(builtins.isinstance)
def m_isinstance(interp, args, kwargs):
    obj, tp = args
    if isinstance(obj, (SOpt, SChoice)):
        if isinstance(obj, SChoice):
            hits = [obj.idx == i for i, alt in enumerate(obj.alts) if isinstance(alt, tp)]
            if len(hits) == len(obj.alts):
                return True
            return wrap(z3.Or(*hits)) if hits else False
        obj = interp.resolve(obj)
    if isinstance(obj, Opaque):
        return interp.reg.opaque_isinstance(interp, obj, tp)
    tps = tp if isinstance(tp, tuple) else (tp,)
    if isinstance(obj, SInt):
        return any(t in (int, object) for t in tps)
    if isinstance(obj, SBool):
        return any(t in (bool, int, object) for t in tps)
    if isinstance(obj, SStr):
        return any(t in (str, object) for t in tps)
    if isinstance(obj, SList):
        import collections.abc as cabc
        return any(t in (list, object, cabc.Sequence, cabc.Iterable) for t in tps)
    from .interp import Closure, BoundMethod
    if isinstance(obj, (Closure, BoundMethod)):
        return any(t in (object, types.FunctionType) for t in tps)
    return isinstance(obj, tp)


@model(builtins.len)
def m_len(interp, args, kwargs):
    (x,) = args
    if isinstance(x, (SOpt, SChoice)):
        x = interp.resolve(x)
    if isinstance(x, SStr):
        return wrap(z3.Length(x.t))
    if isinstance(x, SList):
        return wrap(x.length)
    if isinstance(x, SMap):
        raise Unsupported('len of symbolic map')
    from .pdict import PDict
    if isinstance(x, PDict):
        return x.length(interp)
    if isinstance(x, Opaque):
        return interp.reg.call_opaque(interp, x, '__len__', [], {})
    if isinstance(x, Sym):
        raise _pyraise(TypeError('object has no len()'))
    from .interp import _static_lookup, _is_repo_function
    ln = _static_lookup(type(x), '__len__')
    if ln is not None and isinstance(ln[0], types.FunctionType) and _is_repo_function(ln[0]):
        return interp.call_function_object(ln[0], [x], {}, ln[1])
    try:
        return len(x)
    except Exception as e:
        raise _pyraise(e)


def _minmax(interp, args, kwargs, is_min):
    if kwargs:
        raise Unsupported('min/max with keyword arguments')
    if len(args) == 1:
        src = args[0]
        if isinstance(src, (SOpt, SChoice)):
            src = interp.resolve(src)
        if isinstance(src, (SList, SIter)):
            return _minmax_slist(interp, src, is_min)
        items = list(interp.iterate(src))
    else:
        items = list(args)
    if not items:
        raise _pyraise(ValueError('min()/max() arg is an empty sequence'))
    items = [interp.resolve(x) if isinstance(x, (SOpt, SChoice)) else x for x in items]
    if not any(isinstance(x, Sym) for x in items):
        try:
            return min(items) if is_min else max(items)
        except Exception as e:
            raise _pyraise(e)
    if not all(isinstance(x, (SInt, int)) and not isinstance(x, bool) for x in items):
        raise Unsupported('min/max over non-integers')
    acc = to_z3(items[0])
    for x in items[1:]:
        t = to_z3(x)
        acc = z3.If(t < acc, t, acc) if is_min else z3.If(t > acc, t, acc)
    return wrap(acc)


@model(builtins.min)
def m_min(interp, args, kwargs):
    return _minmax(interp, args, kwargs, True)


@model(builtins.max)
def m_max(interp, args, kwargs):
    return _minmax(interp, args, kwargs, False)


@model(builtins.abs)
def m_abs(interp, args, kwargs):
    (x,) = args
    if isinstance(x, SInt):
        return wrap(z3.If(x.t >= 0, x.t, -x.t))
    return abs(x)


@model(builtins.bool)
def m_bool(interp, args, kwargs):
    if not args:
        return False
    return interp.truth(args[0])


@model(builtins.int)
def m_int(interp, args, kwargs):
    if not args:
        return 0
    x = args[0]
    if isinstance(x, (SOpt, SChoice)):
        x = interp.resolve(x)
    if isinstance(x, SInt):
        return x
    if isinstance(x, SBool):
        return wrap(z3.If(x.t, 1, 0))
    if isinstance(x, SStr):
        from . import strings
        return strings.int_of_str(interp, x)
    try:
        return int(*([x] + list(args[1:])))
    except Exception as e:
        raise _pyraise(e)


@model(builtins.str)
def m_str(interp, args, kwargs):
    if not args:
        return ''
    x = args[0]
    if isinstance(x, (SOpt, SChoice)):
        x = interp.resolve(x)
    if isinstance(x, SStr):
        return x
    if isinstance(x, SInt):
        from . import strings
        return strings.str_of_int(interp, x)
    if isinstance(x, SBool):
        return wrap(z3.If(x.t, z3.StringVal('True'), z3.StringVal('False')))
    if isinstance(x, Opaque):
        return interp.reg.call_opaque(interp, x, '__str__', [], {})
    if isinstance(x, OpaqueVal):
        return SStr(interp.st.fresh_str('str'))
    if isinstance(x, Sym):
        return SStr(interp.st.fresh_str('str'))
    from .interp import _static_lookup, _is_repo_function, Closure, BoundMethod
    if isinstance(x, (Closure, BoundMethod)):
        return repr(x)
    if isinstance(x, (list, tuple, dict)) and contains_sym(x, 2):
        return SStr(interp.st.fresh_str('str'))
    if isinstance(x, (str, int, float, bool, type(None), bytes, list, tuple, dict, enum.Enum, type)):
        return str(x)
    s = _static_lookup(type(x), '__str__')
    if s is not None and isinstance(s[0], types.FunctionType) and _is_repo_function(s[0]):
        return interp.call_function_object(s[0], [x], {}, s[1])
    if contains_sym(getattr(x, '__dict__', None) or {}, 1) or contains_sym(getattr(x, 'args', ()), 1):
        return SStr(interp.st.fresh_str('str'))
    try:
        return str(x)
    except Exception as e:
        raise _pyraise(e)


@model(builtins.repr)
def m_repr(interp, args, kwargs):
    (x,) = args
    if contains_sym(x, 2):
        return SStr(interp.st.fresh_str('repr'))
    try:
        return repr(x)
    except Exception as e:
        raise _pyraise(e)


@model(builtins.list)
def m_list(interp, args, kwargs):
    if not args:
        return []
    src = args[0]
    if isinstance(src, (SOpt, SChoice)):
        src = interp.resolve(src)
    if isinstance(src, SList):
        return slist_copy(interp, src)
    return list(interp.iterate(src))


@model(builtins.tuple)
def m_tuple(interp, args, kwargs):
    if not args:
        return ()
    src = args[0]
    if isinstance(src, (SOpt, SChoice)):
        src = interp.resolve(src)
    if isinstance(src, SList):
        from .mlist import MList
        if isinstance(src, MList):
            return src.copy(interp)      # (a later mutation of the list must not show in the tuple)
        return src
    return tuple(interp.iterate(src))


@model(builtins.dict)
def m_dict(interp, args, kwargs):
    d = {}
    if args:
        src = args[0]
        if isinstance(src, (SOpt, SChoice)):
            src = interp.resolve(src)
        if isinstance(src, SMap):
            if kwargs:
                raise Unsupported('dict(SMap, **kw)')
            return src.copy(interp)
        if isinstance(src, Opaque):
            return interp.reg.call_opaque(interp, src, '__dict_copy__', [], {})
        if isinstance(src, dict) or type(src).__name__ == 'mappingproxy':
            d.update(src)
        else:
            for item in interp.iterate(src):
                k, v = list(interp.iterate(item))
                if isinstance(k, SChoice):
                    k = interp.resolve(k)
                if contains_sym(k, 0):
                    raise Unsupported('dict() with symbolic key')
                d[k] = v
    d.update(kwargs)
    return d


@model(builtins.set)
def m_set(interp, args, kwargs):
    if not args:
        return set()
    items = list(interp.iterate(args[0]))
    if contains_sym(items, 1):
        raise Unsupported('set() with symbolic elements')
    return set(items)


@model(builtins.frozenset)
def m_frozenset(interp, args, kwargs):
    return frozenset(m_set(interp, args, kwargs))


@model(builtins.any)
def m_any(interp, args, kwargs):
    ts = []
    for x in interp.iterate(args[0]):
        t = interp.truth(x)
        if t is True:
            return True
        if t is not False:
            # lazily: a generator's later items are still evaluated (sound if they are pure);
            # fork to preserve short-circuit semantics exactly
            if interp.st.fork(t):
                return True
    return False


@model(builtins.all)
def m_all(interp, args, kwargs):
    for x in interp.iterate(args[0]):
        t = interp.truth(x)
        if t is False:
            return False
        if t is not True:
            if not interp.st.fork(t):
                return False
    return True


@model(builtins.sum)
def m_sum(interp, args, kwargs):
    acc = args[1] if len(args) > 1 else 0
    for x in interp.iterate(args[0]):
        acc = interp.binop(ast.Add, acc, x)
    return acc


@model(builtins.enumerate)
def m_enumerate(interp, args, kwargs):
    start = args[1] if len(args) > 1 else kwargs.get('start', 0)
    src = args[0]
    if isinstance(src, (SOpt, SChoice)):
        src = interp.resolve(src)
    if isinstance(src, (SList, SIter)):
        return SEnumerate(src, start)
    return _lazy_enumerate(interp, interp.iterate(src), start)


def _lazy_enumerate(interp, it, start):
    i = start
    for x in it:
        yield (i, x)
        i = interp.binop(ast.Add, i, 1)


@model(builtins.zip)
def m_zip(interp, args, kwargs):
    return zip(*[interp.iterate(a) for a in args])


@model(builtins.map)
def m_map(interp, args, kwargs):
    f = args[0]
    its = [interp.iterate(a) for a in args[1:]]
    return (interp.call(f, list(xs), {}) for xs in zip(*its))


@model(builtins.filter)
def m_filter(interp, args, kwargs):
    f, src = args
    if isinstance(src, (SOpt, SChoice)):
        src = interp.resolve(src)
    if isinstance(src, (SList, SIter, SEnumerate)):
        from . import seqs

        def cond(interp2, x):
            v = x if f is None else interp2.call(f, [x], {})
            return to_z3(interp2.truth(v))

        return SIter(seqs.filtered(interp, src, cond), 0)

    def gen():
        for x in interp.iterate(src):
            v = x if f is None else interp.call(f, [x], {})
            if interp.branch(v):
                yield x

    return gen()


@model(builtins.reversed)
def m_reversed(interp, args, kwargs):
    (x,) = args
    if isinstance(x, (SOpt, SChoice)):
        x = interp.resolve(x)
    if isinstance(x, SList):
        from . import seqs
        return SIter(seqs.reversed_(interp, x), 0)
    if isinstance(x, (list, tuple)):
        return reversed(x)
    return reversed(list(interp.iterate(x)))


@model(builtins.sorted)
def m_sorted(interp, args, kwargs):
    src = args[0]
    if isinstance(src, (SOpt, SChoice)):
        src = interp.resolve(src)
    if isinstance(src, (SList, SIter, SEnumerate)):
        if kwargs:
            raise Unsupported('sorted(symbolic sequence) with key/reverse')
        from . import seqs
        return seqs.sorted_(interp, src)
    items = list(interp.iterate(args[0]))
    key = kwargs.get('key')
    rev = kwargs.get('reverse', False)
    if key is not None:
        keys = [interp.call(key, [x], {}) for x in items]
    else:
        keys = items
    if contains_sym(keys, 1):
        raise Unsupported('sorted with symbolic keys')
    order = sorted(range(len(items)), key=lambda i: keys[i], reverse=bool(rev))
    return [items[i] for i in order]


@model(builtins.iter)
def m_iter(interp, args, kwargs):
    (x,) = args
    if isinstance(x, (SOpt, SChoice)):
        x = interp.resolve(x)
    if isinstance(x, SList):
        return SIter(x, 0)
    if isinstance(x, SIter):
        return x
    return interp.iterate(x)


@model(builtins.next)
def m_next(interp, args, kwargs):
    it = args[0]
    from .interp import GenObj, PyRaise
    if isinstance(it, SIter):
        return it.next(interp, args[1:] if len(args) > 1 else None)
    if isinstance(it, GenObj):
        try:
            return it.send(None)
        except PyRaise as e:
            if isinstance(e.exc, StopIteration) and len(args) > 1:
                return args[1]
            raise
    try:
        return next(it)
    except StopIteration as e:
        if len(args) > 1:
            return args[1]
        raise _pyraise(e)


@model(builtins.getattr)
def m_getattr(interp, args, kwargs):
    from .interp import PyRaise
    try:
        return interp.getattr(args[0], args[1])
    except PyRaise as e:
        if isinstance(e.exc, AttributeError) and len(args) > 2:
            return args[2]
        raise


@model(builtins.setattr)
def m_setattr(interp, args, kwargs):
    interp.setattr(args[0], args[1], args[2])


@model(builtins.hasattr)
def m_hasattr(interp, args, kwargs):
    from .interp import PyRaise
    try:
        interp.getattr(args[0], args[1])
        return True
    except PyRaise as e:
        if isinstance(e.exc, AttributeError):
            return False
        raise


@model(builtins.callable)
def m_callable(interp, args, kwargs):
    from .interp import Closure, BoundMethod, SymMethod
    x = args[0]
    if isinstance(x, (Closure, BoundMethod, SymMethod)):
        return True
    if isinstance(x, Opaque):
        return interp.reg.opaque_has(interp, x, '__call__')
    return callable(x)


@model(builtins.type)
def m_type(interp, args, kwargs):
    if len(args) != 1:
        raise Unsupported('type() with 3 arguments')
    x = args[0]
    if isinstance(x, (SOpt, SChoice)):
        x = interp.resolve(x)
    if isinstance(x, SInt):
        return int
    if isinstance(x, SBool):
        return bool
    if isinstance(x, SStr):
        return str
    if isinstance(x, Opaque):
        return interp.reg.opaque_type(interp, x)
    return type(x)


@model(builtins.id)
def m_id(interp, args, kwargs):
    return id(args[0])


@model(builtins.print)
def m_print(interp, args, kwargs):
    f = kwargs.get('file')
    if f is None:
        interp.st.emit('print', tuple(args))
        return None
    w = interp.getattr(f, 'write')
    sep = kwargs.get('sep', ' ')
    end = kwargs.get('end', '\n')
    parts = [m_str(interp, [a], {}) for a in args]
    text = parts[0] if parts else ''
    for p in parts[1:]:
        text = interp.binop(ast.Add, interp.binop(ast.Add, text, sep), p)
    text = interp.binop(ast.Add, text, end)
    interp.call(w, [text], {})
    return None


@model(functools.reduce)
def m_reduce(interp, args, kwargs):
    f = args[0]
    src = args[1]
    if isinstance(src, (SOpt, SChoice)):
        src = interp.resolve(src)
    if isinstance(src, SList):
        from . import loops
        return loops.reduce_slist(interp, f, src, args[2:] if len(args) > 2 else None)
    _count_reduce_site(interp)
    it = interp.iterate(src)
    if len(args) > 2:
        acc = args[2]
    else:
        try:
            acc = next(it)
        except StopIteration:
            raise _pyraise(TypeError('reduce() of empty iterable with no initial value'))
    for x in it:
        acc = interp.call(f, [acc, x], {})
    return acc


@model(itertools.chain)
def m_chain(interp, args, kwargs):
    return itertools.chain(*[interp.iterate(a) for a in args])


@model(itertools.chain.from_iterable)
def m_chain_from_iterable(interp, args, kwargs):
    return itertools.chain.from_iterable(interp.iterate(a) for a in interp.iterate(args[0]))


for _op in (operator.lt, operator.le, operator.gt, operator.ge, operator.eq, operator.ne):
    def _mk(op):
        cls = {operator.lt: ast.Lt, operator.le: ast.LtE, operator.gt: ast.Gt, operator.ge: ast.GtE,
               operator.eq: ast.Eq, operator.ne: ast.NotEq}[op]

        def m(interp, args, kwargs):
            return interp.compare(cls, args[0], args[1])

        return m


    MODELS[_op] = _mk(_op)

for _op, _cls in ((operator.add, ast.Add), (operator.sub, ast.Sub), (operator.mul, ast.Mult),
                  (operator.floordiv, ast.FloorDiv), (operator.mod, ast.Mod)):
    MODELS[_op] = (lambda cls: (lambda interp, args, kwargs: interp.binop(cls, args[0], args[1])))(_cls)


@model(operator.not_)
def m_not(interp, args, kwargs):
    return interp.not_(args[0])


@method_model(str, 'join')
def m_str_join(interp, self, args, kwargs):
    src = args[0]
    if isinstance(src, (SOpt, SChoice)):
        src = interp.resolve(src)
    if isinstance(src, SList):
        from . import strings
        return strings.join_slist(interp, self, src)
    items = list(interp.iterate(src))
    if not contains_sym(items, 1) and not isinstance(self, Sym):
        try:
            return self.join(items)
        except Exception as e:
            raise _pyraise(e)
    out = None
    for i, x in enumerate(items):
        if isinstance(x, (SOpt, SChoice)):
            x = interp.resolve(x)
        if not isinstance(x, (SStr, str)):
            raise _pyraise(TypeError('sequence item %d: expected str instance' % i))
        if out is None:
            out = x
        else:
            out = interp.binop(ast.Add, interp.binop(ast.Add, out, self), x)
    return out if out is not None else ''


@method_model(str, 'format')
def m_str_format(interp, self, args, kwargs):
    if contains_sym(args, 2) or contains_sym(list(kwargs.values()), 2) or \
            any(_has_sym_state(a) for a in list(args) + list(kwargs.values())):
        return SStr(interp.st.fresh_str('fmt'))
    try:
        return self.format(*[_fmt_arg(interp, a) for a in args], **{k: _fmt_arg(interp, v) for k, v in kwargs.items()})
    except Exception as e:
        raise _pyraise(e)


def _has_sym_state(a):
    d = getattr(a, '__dict__', None)
    if isinstance(d, dict) and contains_sym(d, 1):
        return True
    from .interp import Closure, BoundMethod
    return isinstance(a, (Closure, BoundMethod, Opaque, OpaqueVal))


def _fmt_arg(interp, a):
    if isinstance(a, (str, int, float, type(None), bool, enum.Enum, type)):
        return a
    from .interp import _static_lookup, _is_repo_function
    s = _static_lookup(type(a), '__str__')
    if s is not None and isinstance(s[0], types.FunctionType) and _is_repo_function(s[0]):
        return _StrBox(m_str(interp, [a], {}))
    return a


class _StrBox:
    def __init__(self, s):
        self.s = s

    def __str__(self):
        return self.s

    def __format__(self, spec):
        return format(self.s, spec)


# ============================================================================ methods on symbolic values

def call_sym_method(interp, recv, name, args, kwargs):
    from .interp import GenObj
    if isinstance(recv, GenObj):
        if name == '__next__':
            return recv.send(None)
        if name == 'send':
            return recv.send(args[0])
        if name == 'throw':
            return recv.throw(args[0])
        if name == 'close':
            return recv.close()
    if isinstance(recv, SStr):
        from . import strings
        return strings.call_method(interp, recv, name, args, kwargs)
    if isinstance(recv, SList):
        return slist_method(interp, recv, name, args, kwargs)
    if isinstance(recv, SInt):
        if name == 'bit_length':
            raise Unsupported('bit_length')
    raise Unsupported('method %s on %r' % (name, type(recv).__name__))


def sym_getitem(interp, obj, idx):
    if isinstance(obj, (SStr, str)):
        from . import strings
        return strings.getitem(interp, obj, idx)
    if isinstance(obj, SList):
        return slist_getitem(interp, obj, idx)
    raise Unsupported('getitem on %r' % (obj,))


# ============================================================================ symbolic sequences

def slist_elem(interp, xs, idx_term):
    key = z3.simplify(idx_term).sexpr() if not isinstance(idx_term, int) else str(idx_term)
    v = xs.cache.get(key)
    if v is None:
        v = xs.elem(interp, idx_term if not isinstance(idx_term, int) else z3.IntVal(idx_term))
        xs.cache[key] = v
    return v


def slist_getitem(interp, xs, idx):
    st = interp.st
    if isinstance(idx, slice):
        from . import seqs
        return seqs.slice_(interp, xs, idx)
    t = to_z3(idx)
    n = xs.length
    if st.no_fork and st.side_conditions:
        # inside a quantifier body sequences are total; being in range becomes part of the body
        # (natively an out-of-range access makes the clause fail, so `in range` is what the clause says)
        in_range = z3.And(t >= 0, t < n)
        if not st.must_hold(in_range):
            st.side_conditions[-1].append(st._scoped(in_range))
        return slist_elem(interp, xs, t)
    if st.fork(wrap(z3.And(t >= 0, t < n))):
        return slist_elem(interp, xs, t)
    if st.fork(wrap(z3.And(t < 0, t >= -n))):
        return slist_elem(interp, xs, n + t)
    raise _pyraise(IndexError('list index out of range'))


def slist_iter(interp, xs):
    """Bounded iteration is not possible over a symbolic-length list."""
    raise Unsupported('iteration over symbolic-length sequence %s outside a loop with invariant' % xs.uid)


def slist_copy(interp, xs):
    from .mlist import MList
    if isinstance(xs, MList):
        return xs.copy(interp)
    return xs


def slist_binop(interp, opcls, a, b):
    from . import seqs
    return seqs.binop(interp, opcls, a, b)


def slist_eq(interp, a, b):
    from . import seqs
    return seqs.eq(interp, a, b)


def slist_contains(interp, xs, x):
    from . import seqs
    return seqs.contains(interp, xs, x)


def slist_method(interp, xs, name, args, kwargs):
    from . import seqs
    return seqs.method(interp, xs, name, args, kwargs)


def slist_comprehension(interp, xs, gens, i, child, emit):
    from . import seqs
    return seqs.comprehension(interp, xs, gens, i, child, emit)


class SIter:
    """Iterator over an SList: (sequence, position) cell."""

    def __init__(self, xs, pos):
        self.xs = xs
        self.pos = pos      # int or z3 term

    def next(self, interp, default):
        p = to_z3(self.pos) if not isinstance(self.pos, int) else z3.IntVal(self.pos)
        if interp.st.fork(wrap(p < self.xs.length)):
            v = slist_elem(interp, self.xs, p)
            self.pos = wrap(p + 1)
            return v
        if default is not None:
            return default[0]
        raise _pyraise(StopIteration())


class SEnumerate:
    def __init__(self, src, start):
        self.src = src
        self.start = start


class SMap:
    """Symbolic finite map (dict view): z3 arrays ``has: K -> Bool`` and ``val: K -> V``."""

    def __init__(self, ksort, vsort, has, val, uid, vwrap=None):
        self.ksort = ksort
        self.vsort = vsort
        self.has = has
        self.val = val
        self.uid = uid

    def copy(self, interp):
        return SMap(self.ksort, self.vsort, self.has, self.val, interp.st.fresh_name(self.uid + '.copy'))

    def contains(self, interp, k):
        return wrap(z3.Select(self.has, to_z3(k)))

    def getitem(self, interp, k):
        kt = to_z3(k)
        if not interp.st.fork(wrap(z3.Select(self.has, kt))):
            raise _pyraise(KeyError(k if not isinstance(k, Sym) else '<symbolic>'))
        return wrap(z3.Select(self.val, kt))

    def get(self, interp, k, default=None):
        kt = to_z3(k)
        if interp.st.fork(wrap(z3.Select(self.has, kt))):
            return wrap(z3.Select(self.val, kt))
        return default

    def setitem(self, interp, k, v):
        kt = to_z3(k)
        self.has = z3.Store(self.has, kt, z3.BoolVal(True))
        self.val = z3.Store(self.val, kt, to_z3(v))

    def delitem(self, interp, k):
        kt = to_z3(k)
        if not interp.st.fork(wrap(z3.Select(self.has, kt))):
            raise _pyraise(KeyError('<symbolic>'))
        self.has = z3.Store(self.has, kt, z3.BoolVal(False))

    def pop(self, interp, k, *default):
        kt = to_z3(k)
        if interp.st.fork(wrap(z3.Select(self.has, kt))):
            v = wrap(z3.Select(self.val, kt))
            self.has = z3.Store(self.has, kt, z3.BoolVal(False))
            return v
        if default:
            return default[0]
        raise _pyraise(KeyError('<symbolic>'))


# ============================================================================ quantifiers (spec level)

def _quant(interp, args, is_forall):
    lo, hi, pred = args
    st = interp.st
    j = st.fresh_int('j')
    lo_t, hi_t = to_z3(lo), to_z3(hi)
    rng = z3.And(lo_t <= j, j < hi_t)
    st.no_fork += 1
    n_pc = len(st.pc)
    n_fresh = len(st.fresh_log)
    st.solver.push()
    st.side_conditions.append([])
    try:
        with st.scope(rng):
            if st.check() == z3.unsat:
                body = True if is_forall else False
            else:
                body = interp.truth(interp.call(pred, [SInt(j)], {}))
    finally:
        st.no_fork -= 1
        st.solver.pop()
        learned = st.pc[n_pc:]
        del st.pc[n_pc:]
        side = st.side_conditions.pop()
    if side:
        body = wrap(z3.And(*(side + [to_z3(body)])))
    # facts assumed about the element at the arbitrary index j hold for every index
    # (forall-introduction: j was fresh and constrained only by the range, which each fact carries).
    # Constants created while evaluating the body (pieces of string decompositions, results of
    # havoc) depend on j: they become Skolem functions of j.
    created = [c for c in st.fresh_log[n_fresh:] if not c.eq(j)]
    subst = []
    for c in created:
        f = z3.Function(c.decl().name() + '@', z3.IntSort(), c.sort())
        subst.append((c, f(j)))
    bt = to_z3(body)
    if subst:
        learned = [z3.substitute(t, *subst) for t in learned]
        bt = z3.substitute(bt, *subst)
    for t in learned:
        st._add(z3.ForAll([j], t) if _mentions(t, j) else t)
    if is_forall:
        return wrap(z3.ForAll([j], z3.Implies(rng, bt)))
    return wrap(z3.Exists([j], z3.And(rng, bt)))


def _mentions(t, c):
    seen = set()
    todo = [t]
    while todo:
        x = todo.pop()
        if x.get_id() in seen:
            continue
        seen.add(x.get_id())
        if x.eq(c):
            return True
        if z3.is_quantifier(x):
            todo.append(x.body())
        else:
            todo.extend(x.children())
    return False


def q_forall(interp, args, kwargs):
    return _quant(interp, args, True)


def q_exists(interp, args, kwargs):
    return _quant(interp, args, False)


def m_is_item(interp, args, kwargs):
    """contracts.common.is_item: an element of a symbolic list of objects (a handle) against an object"""
    item, obj = args
    from .mlist import handle_of
    if isinstance(item, (SOpt, SChoice)):
        item = interp.resolve(item)
    if isinstance(item, (SInt, int)) and not isinstance(item, bool):
        h = obj.t if isinstance(obj, SInt) else handle_of(interp, obj)
        return wrap(to_z3(item) == h)
    if isinstance(obj, SInt):
        return wrap(handle_of(interp, item) == obj.t)
    return item is obj


def m_conj(interp, args, kwargs):
    ts = []
    for x in interp.iterate(args[0]):
        t = interp.truth(x)
        if t is False:
            return False
        if t is not True:
            ts.append(to_z3(t))
    return wrap(z3.And(*ts)) if ts else True


def m_slot(interp, args, kwargs):
    d, k = args
    from .pdict import PDict
    if isinstance(d, PDict):
        key = d.resolve_key(interp, k)
        v = d.values.get(key) if key is not None else None
        return v if v is not None else ()
    if isinstance(k, Sym):
        k = interp.resolve(k) if isinstance(k, (SOpt, SChoice)) else k
    return d.get(k, ())


def m_snapshot_lists(interp, args, kwargs):
    (d,) = args
    from .pdict import PDict
    if isinstance(d, PDict):
        return d.snapshot(interp)
    return {k: m_list(interp, [v], {}) for k, v in d.items()}


def m_all_keys(interp, args, kwargs):
    from .pdict import PDict
    out = []
    for d in args:
        ks = d.universe if isinstance(d, PDict) else list(d.keys())
        for k in ks:
            if k not in out:
                out.append(k)
    return out


def m_is_opaque(interp, args, kwargs):
    return isinstance(args[0], Opaque)


def _count_reduce_site(interp):
    """Every reduce() call of a repository frame has an ordinal (for call-site loop specs)."""
    for fr in reversed(interp.frame_stack):
        if not fr.info.filename.endswith('functools_model.py'):
            k = getattr(fr, 'reduce_counter', 0)
            fr.reduce_counter = k + 1
            return fr, k
    return None, 0


def m_items_of(interp, args, kwargs):
    """spec helper items_of(it): the remaining items of an iterator / the items of a sequence"""
    from . import seqs
    x = args[0]
    if isinstance(x, (SOpt, SChoice)):
        x = interp.resolve(x)
    if isinstance(x, (SList, SIter, SEnumerate)):
        if isinstance(x, SIter):
            if isinstance(x.pos, int) and x.pos == 0:
                return x.xs
            return seqs.slice_(interp, x.xs, slice(x.pos, None, None))
        return seqs.as_slist(interp, x)
    return list(interp.iterate(x))


def _minmax_slist(interp, src, is_min):
    """min/max of a non-empty symbolic sequence of integers: a bound of every element that is attained"""
    from . import seqs
    st = interp.st
    xs = seqs.as_slist(interp, src)
    if not st.fork(wrap(xs.length > 0)):
        raise _pyraise(ValueError('min()/max() arg is an empty sequence'))
    r = st.fresh_int('min' if is_min else 'max')
    w = st.fresh_int('argmin' if is_min else 'argmax')
    st.assume(z3.And(w >= 0, w < xs.length))
    ew = slist_elem(interp, xs, w)
    if not isinstance(ew, (SInt, int)):
        raise Unsupported('min/max over a symbolic sequence of non-integers')
    st.assume(to_z3(ew) == r)
    j = st.fresh_int('j')
    n_pc = len(st.pc)
    st.solver.push()
    try:
        with st.scope(z3.And(0 <= j, j < xs.length)):
            e = to_z3(slist_elem(interp, xs, j))
    finally:
        st.solver.pop()
        learned = st.pc[n_pc:]
        del st.pc[n_pc:]
    for t in learned:
        st._add(z3.ForAll([j], t) if _mentions(t, j) else t)
    st._add(z3.ForAll([j], z3.Implies(z3.And(0 <= j, j < xs.length), (r <= e) if is_min else (r >= e))))
    return wrap(r)
