"""Assumed contracts (models) of builtins and standard-library functions, and operations on
symbolic sequences / maps.  Every model used on a run is listed in the evidence file; the
pure ones are cross-checked against CPython by ``pyvc.stdlib_check``."""
import ast
import builtins
import enum
import functools
import itertools
import operator
import types

try:
    import z3
except ImportError:      # replays run under the repository's interpreter, without z3
    z3 = None

from .path import Unsupported, PathAbort
from .values import (Sym, SInt, SBool, SStr, SOpt, SChoice, SList, Opaque, OpaqueVal,
                     contains_sym, to_z3, wrap)

MODELS = {}          # callable object -> model(interp, args, kwargs)
METHOD_MODELS = {}   # (type, name) -> model(interp, self, args, kwargs)


def model(*fs):
    def deco(m):
        for f in fs:
            MODELS[f] = m
        return m

    return deco


def method_model(tp, *names):
    def deco(m):
        for n in names:
            METHOD_MODELS[(tp, n)] = m
        return m

    return deco


def lookup_model(f):
    try:
        m = MODELS.get(f)
    except TypeError:
        m = None
    if m is not None:
        return m
    selfobj = getattr(f, '__self__', None)
    name = getattr(f, '__name__', None)
    if selfobj is not None and name is not None and not isinstance(selfobj, types.ModuleType):
        for k in type(selfobj).__mro__:
            mm = METHOD_MODELS.get((k, name))
            if mm is not None:
                return lambda interp, args, kwargs, mm=mm, s=selfobj: mm(interp, s, args, kwargs)
    # unbound method descriptors, e.g. str.join
    oc = getattr(f, '__objclass__', None)
    if oc is not None and name is not None:
        mm = METHOD_MODELS.get((oc, name))
        if mm is not None:
            return lambda interp, args, kwargs, mm=mm: mm(interp, args[0], args[1:], kwargs)
    return None


def _pyraise(e):
    from .interp import PyRaise
    return PyRaise(e)


# ============================================================================ builtins

@model(builtins.isinstance)
def m_isinstance(interp, args, kwargs):
    obj, tp = args
    if isinstance(obj, (SOpt, SChoice)):
        if isinstance(obj, SChoice):
            hits = [obj.idx == i for i, alt in enumerate(obj.alts) if isinstance(alt, tp)]
            if len(hits) == len(obj.alts):
                return True
            return wrap(z3.Or(*hits)) if hits else False
        obj = interp.resolve(obj)
    if isinstance(obj, Opaque):
        return interp.reg.opaque_isinstance(interp, obj, tp)
    tps = tp if isinstance(tp, tuple) else (tp,)
    if isinstance(obj, SInt):
        return any(t in (int, object) for t in tps)
    if isinstance(obj, SBool):
        return any(t in (bool, int, object) for t in tps)
    if isinstance(obj, SStr):
        return any(t in (str, object) for t in tps)
    if isinstance(obj, SList):
        import collections.abc as cabc
        return any(t in (list, object, cabc.Sequence, cabc.Iterable) for t in tps)
    if isinstance(obj, SMap):
        import collections.abc as cabc
        return any(t in (dict, object, cabc.Mapping, cabc.MutableMapping, cabc.Iterable) for t in tps)
    if isinstance(obj, SMapProxy):
        import collections.abc as cabc
        return any(t in (types.MappingProxyType, object, cabc.Mapping, cabc.Iterable) for t in tps)
    from .interp import Closure, BoundMethod
    if isinstance(obj, (Closure, BoundMethod)):
        return any(t in (object, types.FunctionType) for t in tps)
    # a model class (pyvc/pymodels) declares the library classes whose instances it stands for
    stands_for = getattr(type(obj), '_pv_stands_for', None)
    if stands_for and any(inspect_isclass(t) and issubclass(s, t) for t in tps for s in stands_for):
        return True
    return isinstance(obj, tp)


def inspect_isclass(t):
    return isinstance(t, type)


@model(builtins.len)
def m_len(interp, args, kwargs):
    (x,) = args
    if isinstance(x, (SOpt, SChoice)):
        x = interp.resolve(x)
    if isinstance(x, SStr):
        return wrap(z3.Length(x.t))
    if isinstance(x, SList):
        return wrap(x.length)
    if isinstance(x, SMap):
        return smap_len(interp, x)
    if isinstance(x, SMapProxy):
        return smap_len(interp, x.m)
    from .pdict import PDict
    if isinstance(x, PDict):
        return x.length(interp)
    if isinstance(x, Opaque):
        return interp.reg.call_opaque(interp, x, '__len__', [], {})
    if isinstance(x, Sym):
        raise _pyraise(TypeError('object has no len()'))
    from .interp import _static_lookup, _is_repo_function
    ln = _static_lookup(type(x), '__len__')
    if ln is not None and isinstance(ln[0], types.FunctionType) and _is_repo_function(ln[0]):
        return interp.call_function_object(ln[0], [x], {}, ln[1])
    try:
        return len(x)
    except Exception as e:
        raise _pyraise(e)


def _minmax(interp, args, kwargs, is_min):
    if kwargs:
        raise Unsupported('min/max with keyword arguments')
    if len(args) == 1:
        src = args[0]
        if isinstance(src, (SOpt, SChoice)):
            src = interp.resolve(src)
        if isinstance(src, (SList, SIter)):
            return _minmax_slist(interp, src, is_min)
        items = list(interp.iterate(src))
    else:
        items = list(args)
    if not items:
        raise _pyraise(ValueError('min()/max() arg is an empty sequence'))
    items = [interp.resolve(x) if isinstance(x, (SOpt, SChoice)) else x for x in items]
    if not any(isinstance(x, Sym) for x in items):
        try:
            return min(items) if is_min else max(items)
        except Exception as e:
            raise _pyraise(e)
    if not all(isinstance(x, (SInt, int)) and not isinstance(x, bool) for x in items):
        raise Unsupported('min/max over non-integers')
    acc = to_z3(items[0])
    for x in items[1:]:
        t = to_z3(x)
        acc = z3.If(t < acc, t, acc) if is_min else z3.If(t > acc, t, acc)
    return wrap(acc)


@model(builtins.min)
def m_min(interp, args, kwargs):
    return _minmax(interp, args, kwargs, True)


@model(builtins.max)
def m_max(interp, args, kwargs):
    return _minmax(interp, args, kwargs, False)


@model(builtins.abs)
def m_abs(interp, args, kwargs):
    (x,) = args
    if isinstance(x, SInt):
        return wrap(z3.If(x.t >= 0, x.t, -x.t))
    return abs(x)


@model(builtins.bool)
def m_bool(interp, args, kwargs):
    if not args:
        return False
    return interp.truth(args[0])


@model(builtins.int)
def m_int(interp, args, kwargs):
    if not args:
        return 0
    x = args[0]
    if isinstance(x, (SOpt, SChoice)):
        x = interp.resolve(x)
    if isinstance(x, SInt):
        return x
    if isinstance(x, SBool):
        return wrap(z3.If(x.t, 1, 0))
    if isinstance(x, SStr):
        from . import strings
        return strings.int_of_str(interp, x)
    try:
        return int(*([x] + list(args[1:])))
    except Exception as e:
        raise _pyraise(e)


@model(builtins.str)
def m_str(interp, args, kwargs):
    if not args:
        return ''
    x = args[0]
    if isinstance(x, (SOpt, SChoice)):
        x = interp.resolve(x)
    if isinstance(x, SStr):
        return x
    if isinstance(x, SInt):
        from . import strings
        return strings.str_of_int(interp, x)
    if isinstance(x, SBool):
        return wrap(z3.If(x.t, z3.StringVal('True'), z3.StringVal('False')))
    if isinstance(x, Opaque):
        return interp.reg.call_opaque(interp, x, '__str__', [], {})
    if isinstance(x, OpaqueVal):
        return SStr(interp.st.fresh_str('str'))
    if isinstance(x, Sym):
        return SStr(interp.st.fresh_str('str'))
    from .interp import _static_lookup, _is_repo_function, Closure, BoundMethod
    if isinstance(x, (Closure, BoundMethod)):
        return repr(x)
    if isinstance(x, (list, tuple, dict)) and contains_sym(x, 2):
        return SStr(interp.st.fresh_str('str'))
    if isinstance(x, (str, int, float, bool, type(None), bytes, list, tuple, dict, enum.Enum, type)):
        return str(x)
    s = _static_lookup(type(x), '__str__')
    if s is not None and isinstance(s[0], types.FunctionType) and _is_repo_function(s[0]):
        return interp.call_function_object(s[0], [x], {}, s[1])
    if contains_sym(getattr(x, '__dict__', None) or {}, 1) or contains_sym(getattr(x, 'args', ()), 1):
        return SStr(interp.st.fresh_str('str'))
    try:
        return str(x)
    except Exception as e:
        raise _pyraise(e)


@model(builtins.repr)
def m_repr(interp, args, kwargs):
    (x,) = args
    if contains_sym(x, 2):
        return SStr(interp.st.fresh_str('repr'))
    try:
        return repr(x)
    except Exception as e:
        raise _pyraise(e)


@model(builtins.list)
def m_list(interp, args, kwargs):
    if not args:
        return []
    src = args[0]
    if isinstance(src, (SOpt, SChoice)):
        src = interp.resolve(src)
    if isinstance(src, SList):
        return slist_copy(interp, src)
    if isinstance(src, SLazyMap):
        # interpreted from a Python model; its loop invariant belongs to the call site (spec 'map#k')
        from .pymodels import functools_model
        saved = src.frame.model_site
        src.frame.model_site = src.site
        try:
            return interp.call(functools_model.map_list, [src.f, src.xs], {})
        finally:
            src.frame.model_site = saved
    src = as_siter(interp, src)
    if isinstance(src, SIter):
        from . import texts
        return texts.rest_of_iter(interp, src)
    return list(interp.iterate(src))


@model(builtins.tuple)
def m_tuple(interp, args, kwargs):
    if not args:
        return ()
    src = args[0]
    if isinstance(src, (SOpt, SChoice)):
        src = interp.resolve(src)
    if isinstance(src, SList):
        from . import seqs
        from .mlist import MList
        if isinstance(src, MList):
            # a snapshot that keeps the list measures (str.join, pyvc.api.Measure) of the mutable list
            c = src.copy(interp)
            c.immutable = True
            return c
        return seqs.frozen(src)
    v = m_list(interp, [src], {})          # (generator expressions / iterators over symbolic sequences)
    if isinstance(v, SList):
        from . import seqs
        return seqs.frozen(v)
    return tuple(v)


@model(builtins.dict)
def m_dict(interp, args, kwargs):
    d = {}
    if args:
        src = args[0]
        if isinstance(src, (SOpt, SChoice)):
            src = interp.resolve(src)
        if isinstance(src, SMapProxy):
            src = src.m
        if isinstance(src, SMap):
            if kwargs:
                raise Unsupported('dict(SMap, **kw)')
            return src.copy(interp)
        if isinstance(src, Opaque):
            return interp.reg.call_opaque(interp, src, '__dict_copy__', [], {})
        if isinstance(src, dict) or type(src).__name__ == 'mappingproxy':
            d.update(src)
        else:
            for item in interp.iterate(src):
                k, v = list(interp.iterate(item))
                if isinstance(k, SChoice):
                    k = interp.resolve(k)
                if contains_sym(k, 0):
                    raise Unsupported('dict() with symbolic key')
                d[k] = v
    d.update(kwargs)
    return d


import copy as _copy


@model(_copy.copy)
def m_copy(interp, args, kwargs):
    (x,) = args
    if isinstance(x, (SOpt, SChoice)):
        x = interp.resolve(x)
    if isinstance(x, SMap):
        return x.copy(interp)
    if isinstance(x, (SInt, SBool, SStr, SList)):
        return x
    if isinstance(x, (list, dict, set)):
        return _copy.copy(x)
    tp = type(x)
    if not isinstance(x, (Sym, Opaque, type)) and isinstance(getattr(x, '__dict__', None), dict) \
            and not hasattr(tp, '__copy__') and tp.__reduce_ex__ is object.__reduce_ex__ \
            and tp.__reduce__ is object.__reduce__ and not hasattr(tp, '__slots__') and '__getstate__' not in tp.__dict__ and '__setstate__' not in tp.__dict__ \
            and tp.__module__ != 'builtins':
        # an instance of a plain class: a new instance with the same attribute values (shallow, as copy.copy)
        y = object.__new__(tp)
        y.__dict__.update(x.__dict__)
        interp.note_new_object(y)
        return y
    raise Unsupported('copy.copy of %s' % type(x).__name__)


@model(builtins.set)
def m_set(interp, args, kwargs):
    if not args:
        return set()
    items = list(interp.iterate(args[0]))
    if contains_sym(items, 1):
        raise Unsupported('set() with symbolic elements')
    return set(items)


@model(builtins.frozenset)
def m_frozenset(interp, args, kwargs):
    return frozenset(m_set(interp, args, kwargs))


@model(builtins.any)
def m_any(interp, args, kwargs):
    ts = []
    for x in interp.iterate(args[0]):
        t = interp.truth(x)
        if t is True:
            return True
        if t is not False:
            # lazily: a generator's later items are still evaluated (sound if they are pure);
            # fork to preserve short-circuit semantics exactly
            if interp.st.fork(t):
                return True
    return False


@model(builtins.all)
def m_all(interp, args, kwargs):
    for x in interp.iterate(args[0]):
        t = interp.truth(x)
        if t is False:
            return False
        if t is not True:
            if not interp.st.fork(t):
                return False
    return True


@model(builtins.sum)
def m_sum(interp, args, kwargs):
    acc = args[1] if len(args) > 1 else 0
    for x in interp.iterate(args[0]):
        acc = interp.binop(ast.Add, acc, x)
    return acc


@model(builtins.enumerate)
def m_enumerate(interp, args, kwargs):
    start = args[1] if len(args) > 1 else kwargs.get('start', 0)
    src = args[0]
    if isinstance(src, (SOpt, SChoice)):
        src = interp.resolve(src)
    src = as_siter(interp, src)
    if isinstance(src, (SList, SIter)):
        return SEnumerate(src, start)
    return _lazy_enumerate(interp, interp.iterate(src), start)


def _lazy_enumerate(interp, it, start):
    i = start
    for x in it:
        yield (i, x)
        i = interp.binop(ast.Add, i, 1)


@model(builtins.zip)
def m_zip(interp, args, kwargs):
    return zip(*[interp.iterate(a) for a in args])


class SLazyMap:
    """map(f, xs) over a symbolic-length sequence, not consumed yet"""

    def __init__(self, f, xs, frame, site):
        self.f, self.xs, self.frame, self.site = f, xs, frame, site


@model(builtins.map)
def m_map(interp, args, kwargs):
    f = args[0]
    if len(args) == 2:
        src = args[1]
        if isinstance(src, (SOpt, SChoice)):
            src = interp.resolve(src)
        if isinstance(src, SList):
            # every map() over a symbolic sequence of a repository frame has an ordinal: 'map#k'
            for fr in reversed(interp.frame_stack):
                if not fr.info.filename.endswith('functools_model.py'):
                    k = getattr(fr, 'map_counter', 0)
                    fr.map_counter = k + 1
                    return SLazyMap(f, src, fr, 'map#%d' % k)
            raise Unsupported('map over a symbolic sequence outside a function')
    its = [interp.iterate(a) for a in args[1:]]
    return (interp.call(f, list(xs), {}) for xs in zip(*its))


@model(builtins.filter)
def m_filter(interp, args, kwargs):
    f, src = args
    if isinstance(src, (SOpt, SChoice)):
        src = interp.resolve(src)
    if isinstance(src, (SList, SIter, SEnumerate)):
        from . import seqs

        def cond(interp2, x):
            v = x if f is None else interp2.call(f, [x], {})
            return to_z3(interp2.truth(v))

        return SIter(seqs.filtered(interp, src, cond), 0)

    def gen():
        for x in interp.iterate(src):
            v = x if f is None else interp.call(f, [x], {})
            if interp.branch(v):
                yield x

    return gen()


@model(builtins.reversed)
def m_reversed(interp, args, kwargs):
    (x,) = args
    if isinstance(x, (SOpt, SChoice)):
        x = interp.resolve(x)
    if isinstance(x, SList):
        from . import seqs
        return SIter(seqs.reversed_(interp, x), 0)
    if isinstance(x, (list, tuple)):
        return reversed(x)
    return reversed(list(interp.iterate(x)))


@model(builtins.sorted)
def m_sorted(interp, args, kwargs):
    src = args[0]
    if isinstance(src, (SOpt, SChoice)):
        src = interp.resolve(src)
    if isinstance(src, (SList, SIter, SEnumerate)):
        if kwargs:
            raise Unsupported('sorted(symbolic sequence) with key/reverse')
        from . import seqs
        return seqs.sorted_(interp, src)
    items = list(interp.iterate(args[0]))
    key = kwargs.get('key')
    rev = kwargs.get('reverse', False)
    if key is not None:
        keys = [interp.call(key, [x], {}) for x in items]
    else:
        keys = items
    if contains_sym(keys, 1):
        raise Unsupported('sorted with symbolic keys')
    order = sorted(range(len(items)), key=lambda i: keys[i], reverse=bool(rev))
    return [items[i] for i in order]


@model(builtins.iter)
def m_iter(interp, args, kwargs):
    (x,) = args
    if isinstance(x, (SOpt, SChoice)):
        x = interp.resolve(x)
    if isinstance(x, SList):
        return SIter(x, 0)
    x = as_siter(interp, x)
    if isinstance(x, SIter):
        return x
    return interp.iterate(x)


@model(builtins.next)
def m_next(interp, args, kwargs):
    it = as_siter(interp, args[0])
    from .interp import GenObj, PyRaise
    if isinstance(it, SIter):
        return it.next(interp, args[1:] if len(args) > 1 else None)
    if isinstance(it, Opaque):
        # an iterator known through its interface: `__next__` (may raise StopIteration by its own contract)
        try:
            return interp.reg.call_opaque(interp, it, '__next__', [], {})
        except PyRaise as e:
            if isinstance(e.exc, StopIteration) and len(args) > 1:
                return args[1]
            raise
    if isinstance(it, GenObj):
        try:
            return it.send(None)
        except PyRaise as e:
            if isinstance(e.exc, StopIteration) and len(args) > 1:
                return args[1]
            raise
    try:
        return next(it)
    except StopIteration as e:
        if len(args) > 1:
            return args[1]
        raise _pyraise(e)


@model(builtins.getattr)
def m_getattr(interp, args, kwargs):
    from .interp import PyRaise
    try:
        return interp.getattr(args[0], args[1])
    except PyRaise as e:
        if isinstance(e.exc, AttributeError) and len(args) > 2:
            return args[2]
        raise


@model(builtins.setattr)
def m_setattr(interp, args, kwargs):
    interp.setattr(args[0], args[1], args[2])


@model(builtins.hasattr)
def m_hasattr(interp, args, kwargs):
    from .interp import PyRaise
    try:
        interp.getattr(args[0], args[1])
        return True
    except PyRaise as e:
        if isinstance(e.exc, AttributeError):
            return False
        raise


@model(builtins.callable)
def m_callable(interp, args, kwargs):
    from .interp import Closure, BoundMethod, SymMethod
    x = args[0]
    if isinstance(x, (Closure, BoundMethod, SymMethod)):
        return True
    if isinstance(x, Opaque):
        return interp.reg.opaque_has(interp, x, '__call__')
    return callable(x)


@model(builtins.type)
def m_type(interp, args, kwargs):
    if len(args) != 1:
        raise Unsupported('type() with 3 arguments')
    x = args[0]
    if isinstance(x, (SOpt, SChoice)):
        x = interp.resolve(x)
    if isinstance(x, SInt):
        return int
    if isinstance(x, SBool):
        return bool
    if isinstance(x, SStr):
        return str
    if isinstance(x, Opaque):
        return interp.reg.opaque_type(interp, x)
    return type(x)


@model(builtins.id)
def m_id(interp, args, kwargs):
    return id(args[0])


@model(builtins.print)
def m_print(interp, args, kwargs):
    f = kwargs.get('file')
    if f is None:
        interp.st.emit('print', tuple(args))
        return None
    w = interp.getattr(f, 'write')
    sep = kwargs.get('sep', ' ')
    end = kwargs.get('end', '\n')
    parts = [m_str(interp, [a], {}) for a in args]
    text = parts[0] if parts else ''
    for p in parts[1:]:
        text = interp.binop(ast.Add, interp.binop(ast.Add, text, sep), p)
    text = interp.binop(ast.Add, text, end)
    interp.call(w, [text], {})
    return None


@model(functools.reduce)
def m_reduce(interp, args, kwargs):
    f = args[0]
    src = args[1]
    if isinstance(src, (SOpt, SChoice)):
        src = interp.resolve(src)
    if isinstance(src, SList):
        from . import loops
        return loops.reduce_slist(interp, f, src, args[2:] if len(args) > 2 else None)
    _count_reduce_site(interp)
    it = interp.iterate(src)
    if len(args) > 2:
        acc = args[2]
    else:
        try:
            acc = next(it)
        except StopIteration:
            raise _pyraise(TypeError('reduce() of empty iterable with no initial value'))
    for x in it:
        acc = interp.call(f, [acc, x], {})
    return acc


@model(itertools.takewhile)
def m_takewhile(interp, args, kwargs):
    from . import charclass
    return charclass.m_takewhile(interp, args, kwargs)


@model(builtins.range)
def m_range(interp, args, kwargs):
    """range with symbolic bounds: a sequence of symbolic length (step must be a concrete positive int)"""
    args = [interp.resolve(a) if isinstance(a, (SOpt, SChoice)) else a for a in args]
    if not any(isinstance(a, Sym) for a in args):
        try:
            return range(*args)
        except Exception as e:
            raise _pyraise(e)
    if len(args) == 1:
        start, stop, step = 0, args[0], 1
    elif len(args) == 2:
        start, stop, step = args[0], args[1], 1
    else:
        start, stop, step = args
    if not isinstance(step, int) or isinstance(step, bool) or step != 1:
        raise Unsupported('range with symbolic bounds and step != 1')
    a, b = to_z3(start), to_z3(stop)
    n = z3.simplify(z3.If(b > a, b - a, 0))
    uid = interp.st.fresh_name('range')

    def elem(interp2, idx_term):
        return wrap(a + idx_term)

    return SList(n, elem, uid)


@model(functools.partial)
def m_partial(interp, args, kwargs):
    from .interp import PartialObj
    if not args:
        raise _pyraise(TypeError("type 'partial' takes at least one argument"))
    return PartialObj(args[0], args[1:], kwargs)


def _chain(interp, parts):
    """itertools.chain over a concrete number of iterables: when one of them is a sequence of symbolic
    length the result is their concatenation (an immutable sequence stands for the one-shot iterator:
    sound as long as it is consumed once -- tuple()/list()/one loop)."""
    parts = [interp.resolve(p) if isinstance(p, (SOpt, SChoice)) else p for p in parts]
    if any(isinstance(p, SList) for p in parts):
        from . import seqs
        acc = None
        for p in parts:
            piece = p if isinstance(p, SList) else list(interp.iterate(p))
            acc = piece if acc is None else seqs.concat(interp, acc, piece)
        return acc if isinstance(acc, SList) else iter(acc)
    return itertools.chain(*[interp.iterate(p) for p in parts])


import collections  # noqa: E402


@model(collections.deque)
def m_deque(interp, args, kwargs):
    """collections.deque without maxlen: a mutable symbolic list that also has popleft / appendleft"""
    if kwargs or len(args) > 1:
        raise Unsupported('deque with maxlen')
    from .mlist import MList, from_concrete
    from . import seqs
    if args:
        src = args[0]
        if isinstance(src, (SOpt, SChoice)):
            src = interp.resolve(src)
        if isinstance(src, (SList, SIter, SEnumerate)):
            m = MList(interp, interp.st.fresh_name('deque'), None)
            m.extend(interp, seqs.as_slist(interp, src))
        else:
            m = from_concrete(interp, list(interp.iterate(src)), 'deque')
    else:
        m = MList(interp, interp.st.fresh_name('deque'), None)
    m.is_deque = True
    return m


@model(itertools.chain)
def m_chain(interp, args, kwargs):
    return _chain(interp, list(args))


@model(itertools.chain.from_iterable)
def m_chain_from_iterable(interp, args, kwargs):
    return _chain(interp, list(interp.iterate(args[0])))


for _op in (operator.lt, operator.le, operator.gt, operator.ge, operator.eq, operator.ne):
    def _mk(op):
        cls = {operator.lt: ast.Lt, operator.le: ast.LtE, operator.gt: ast.Gt, operator.ge: ast.GtE,
               operator.eq: ast.Eq, operator.ne: ast.NotEq}[op]

        def m(interp, args, kwargs):
            return interp.compare(cls, args[0], args[1])

        return m


    MODELS[_op] = _mk(_op)

for _op, _cls in ((operator.add, ast.Add), (operator.sub, ast.Sub), (operator.mul, ast.Mult),
                  (operator.floordiv, ast.FloorDiv), (operator.mod, ast.Mod)):
    MODELS[_op] = (lambda cls: (lambda interp, args, kwargs: interp.binop(cls, args[0], args[1])))(_cls)


@model(operator.not_)
def m_not(interp, args, kwargs):
    return interp.not_(args[0])


@method_model(str, 'join')
def m_str_join(interp, self, args, kwargs):
    src = args[0]
    if isinstance(src, (SOpt, SChoice)):
        src = interp.resolve(src)
    src = as_siter(interp, src)
    from .mlist import MList
    if isinstance(src, MList):
        from . import mlist
        return mlist.join(interp, self, src)       # list measures of mutable lists (pyvc.mlist); texts.prefix_join agrees
    if isinstance(src, (SList, SIter)):
        from . import texts
        if self != '':
            # a non-empty separator: the call-site invariant / structural join of pyvc.strings (no prefix measure)
            from . import strings, seqs
            return strings.join_slist(interp, self, seqs.as_slist(interp, src))
        if isinstance(src, SList):
            from . import loops
            r = loops.join_slist(interp, self, src)      # a call-site loop spec 'join#k' of the calling function
            if r is not NotImplemented:
                return r
            return texts.join_all(interp, src)
        return texts.join_iter(interp, src)
    from . import charclass
    if isinstance(src, charclass.SCharIter):
        if isinstance(self, str) and self == '':
            return src.s
        raise Unsupported('str.join of the characters of a symbolic string with a non-empty separator')
    items = list(interp.iterate(src))
    if not contains_sym(items, 1) and not isinstance(self, Sym):
        try:
            return self.join(items)
        except Exception as e:
            raise _pyraise(e)
    out = None
    for i, x in enumerate(items):
        if isinstance(x, (SOpt, SChoice)):
            x = interp.resolve(x)
        if not isinstance(x, (SStr, str)):
            raise _pyraise(TypeError('sequence item %d: expected str instance' % i))
        if out is None:
            out = x
        else:
            out = interp.binop(ast.Add, interp.binop(ast.Add, out, self), x)
    return out if out is not None else ''


@method_model(str, 'format')
def m_str_format(interp, self, args, kwargs):
    if contains_sym(args, 2) or contains_sym(list(kwargs.values()), 2) or \
            any(_has_sym_state(a) for a in list(args) + list(kwargs.values())):
        return SStr(interp.st.fresh_str('fmt'))
    try:
        return self.format(*[_fmt_arg(interp, a) for a in args], **{k: _fmt_arg(interp, v) for k, v in kwargs.items()})
    except Exception as e:
        raise _pyraise(e)


@method_model(str, 'format_map')
def m_str_format_map(interp, self, args, kwargs):
    mapping = args[0]
    if isinstance(mapping, (SOpt, SChoice)):
        mapping = interp.resolve(mapping)
    if not isinstance(mapping, dict):
        raise Unsupported('str.format_map with %r' % type(mapping).__name__)
    if contains_sym(mapping, 2) or any(_has_sym_state(a) for a in mapping.values()):
        # a message with symbolic parts: an unconstrained string (as for str.format)
        return SStr(interp.st.fresh_str('fmt'))
    try:
        return self.format_map({k: _fmt_arg(interp, v) for k, v in mapping.items()})
    except Exception as e:
        raise _pyraise(e)


def _has_sym_state(a):
    d = getattr(a, '__dict__', None)
    if isinstance(d, dict) and contains_sym(d, 1):
        return True
    from .interp import Closure, BoundMethod
    return isinstance(a, (Closure, BoundMethod, Opaque, OpaqueVal))


def _fmt_arg(interp, a):
    if isinstance(a, (str, int, float, type(None), bool, enum.Enum, type)):
        return a
    from .interp import _static_lookup, _is_repo_function
    s = _static_lookup(type(a), '__str__')
    if s is not None and isinstance(s[0], types.FunctionType) and _is_repo_function(s[0]):
        return _StrBox(m_str(interp, [a], {}))
    return a


class _StrBox:
    def __init__(self, s):
        self.s = s

    def __str__(self):
        return self.s

    def __format__(self, spec):
        return format(self.s, spec)


# ============================================================================ eval / re

COMMON_EXCEPTIONS = (SyntaxError, ValueError, TypeError, NameError, ZeroDivisionError, OverflowError, AttributeError,
                     KeyError, IndexError, RecursionError)

# canonical source text per exception class of eval (for replays)
EVAL_WITNESS = {
    'SyntaxError': '1 +', 'ValueError': "int('x')", 'TypeError': "1 + ''", 'NameError': 'x',
    'ZeroDivisionError': '1//0', 'OverflowError': '2.0**10000', 'AttributeError': '(1).x', 'KeyError': '{}[1]',
    'IndexError': '[][0]', 'RecursionError': "(lambda f: f(f))(lambda f: f(f))", 'ArbitraryException': '1//0',
}


def arbitrary_exception(interp, classes=COMMON_EXCEPTIONS, with_arbitrary=True):
    """One of the given exception classes, or `ArbitraryException` (any other Exception), chosen
    non-deterministically; its message is an arbitrary string."""
    from .interp import ArbitraryException
    classes = list(classes) + ([ArbitraryException] if with_arbitrary else [])
    cls = classes[interp.st.choose(len(classes))]
    msg = SStr(interp.st.fresh_str('exception.message'))
    e = cls.__new__(cls)
    e.args = (msg,)
    if issubclass(cls, (SyntaxError, re_error())):
        e.msg = msg
    return e


def re_error():
    import re
    return re.error


@model(builtins.eval)
def m_eval(interp, args, kwargs):
    """eval of an arbitrary expression text: any value, or any Exception (not modelled: non-termination,
    side effects of the expression)."""
    st = interp.st
    if st.choose(2) == 1:
        raise _pyraise(arbitrary_exception(interp))
    k = st.choose(5)
    if k == 0:
        return SInt(st.fresh_int('eval.int'))
    if k == 1:
        return SBool(st.fresh_bool('eval.bool'))
    if k == 2:
        return SStr(st.fresh_str('eval.str'))
    if k == 3:
        return None
    return OpaqueVal(st.fresh_name('eval.value'))       # a float, a list, a function, ...


# ============================================================================ stat

def _stat_models():
    import stat as _stat

    def mk(name, others):
        def m(interp, args, kwargs):
            (mode,) = args
            if isinstance(mode, (SOpt, SChoice)):
                mode = interp.resolve(mode)
            if not isinstance(mode, SInt):
                try:
                    return getattr(_stat, name)(mode)
                except Exception as e:      # e.g. OverflowError for a negative mode
                    raise _pyraise(e)
            f = z3.Function('stat.' + name, z3.IntSort(), z3.BoolSort())
            for o in others:     # the file types are mutually exclusive
                g = z3.Function('stat.' + o, z3.IntSort(), z3.BoolSort())
                interp.st.assume(z3.Not(z3.And(f(mode.t), g(mode.t))))
            return wrap(f(mode.t))

        return m

    names = ('S_ISREG', 'S_ISDIR', 'S_ISLNK', 'S_ISFIFO', 'S_ISSOCK', 'S_ISCHR', 'S_ISBLK')
    for n in names:
        MODELS[getattr(_stat, n)] = mk(n, [o for o in names if o != n])


_stat_models()


# ============================================================================ xml.etree.ElementTree

def _etree_models():
    from xml.etree import ElementTree as ET
    from .pymodels import etree_model

    MODELS[ET.Element] = lambda interp, args, kwargs: interp.call(etree_model.Element, args, kwargs)
    MODELS[ET.SubElement] = lambda interp, args, kwargs: interp.call(etree_model.SubElement, args, kwargs)

    def tree(interp, args, kwargs):
        return interp.call(etree_model.ElementTree, args, kwargs)

    MODELS[ET.ElementTree] = tree


_etree_models()


# ============================================================================ methods on symbolic values

def call_sym_method(interp, recv, name, args, kwargs):
    from .interp import GenObj
    if isinstance(recv, GenObj):
        if name == '__next__':
            return recv.send(None)
        if name == 'send':
            return recv.send(args[0])
        if name == 'throw':
            return recv.throw(args[0])
        if name == 'close':
            return recv.close()
    if isinstance(recv, SStr):
        from . import strings
        return strings.call_method(interp, recv, name, args, kwargs)
    if isinstance(recv, SList):
        return slist_method(interp, recv, name, args, kwargs)
    if isinstance(recv, SIter):
        return recv.call_method(interp, name, args, kwargs)
    if isinstance(recv, SMap):
        return smap_method(interp, recv, name, args, kwargs)
    if isinstance(recv, SMapProxy):
        if name not in _PROXY_READS:
            raise _pyraise(AttributeError("'mappingproxy' object has no attribute %r" % name))
        return smap_method(interp, recv.m, name, args, kwargs)
    if isinstance(recv, SInt):
        if name == 'bit_length':
            raise Unsupported('bit_length')
    raise Unsupported('method %s on %r' % (name, type(recv).__name__))


def sym_getitem(interp, obj, idx):
    if isinstance(obj, (SStr, str)):
        from . import strings
        return strings.getitem(interp, obj, idx)
    if isinstance(obj, SList):
        return slist_getitem(interp, obj, idx)
    if isinstance(obj, SMap):
        return obj.getitem(interp, idx)
    if isinstance(obj, SMapProxy):
        return obj.m.getitem(interp, idx)
    raise Unsupported('getitem on %r' % (obj,))


# ============================================================================ symbolic sequences

def slist_elem(interp, xs, idx_term):
    if xs.volatile:
        return xs.elem(interp, idx_term if not isinstance(idx_term, int) else z3.IntVal(idx_term))
    key = z3.simplify(idx_term).sexpr() if not isinstance(idx_term, int) else str(idx_term)
    v = xs.cache.get(key)
    if v is None:
        v = xs.elem(interp, idx_term if not isinstance(idx_term, int) else z3.IntVal(idx_term))
        xs.cache[key] = v
    return v


def slist_getitem(interp, xs, idx):
    st = interp.st
    if isinstance(idx, slice):
        from . import seqs
        return seqs.slice_(interp, xs, idx)
    t = to_z3(idx)
    n = xs.length
    if st.no_fork and st.side_conditions:
        # inside a quantifier body sequences are total; being in range becomes part of the body
        # (natively an out-of-range access makes the clause fail, so `in range` is what the clause says)
        in_range = z3.And(t >= 0, t < n)
        if not st.must_hold(in_range):
            st.side_conditions[-1].append(st._scoped(in_range))
        return slist_elem(interp, xs, t)
    if st.fork(wrap(z3.And(t >= 0, t < n))):
        return slist_elem(interp, xs, t)
    if st.fork(wrap(z3.And(t < 0, t >= -n))):
        return slist_elem(interp, xs, n + t)
    raise _pyraise(IndexError('list index out of range'))


def slist_iter(interp, xs):
    """Bounded iteration is not possible over a symbolic-length list."""
    raise Unsupported('iteration over symbolic-length sequence %s outside a loop with invariant' % xs.uid)


def slist_copy(interp, xs):
    from . import texts
    return texts.copy_slist(interp, xs)


def slist_binop(interp, opcls, a, b):
    from . import seqs
    return seqs.binop(interp, opcls, a, b)


def slist_eq(interp, a, b):
    from . import seqs
    return seqs.eq(interp, a, b)


def slist_contains(interp, xs, x):
    from . import seqs
    return seqs.contains(interp, xs, x)


def slist_method(interp, xs, name, args, kwargs):
    from . import seqs
    return seqs.method(interp, xs, name, args, kwargs)


def slist_comprehension(interp, xs, gens, i, child, emit):
    from . import seqs
    return seqs.comprehension(interp, xs, gens, i, child, emit)


class SIter:
    """Iterator over an SList: (sequence, position) cell."""

    def __init__(self, xs, pos, eager=False):
        self.xs = xs
        self.pos = pos      # int or z3 term
        # eager: stands for a generator that is used through its contract -- all its items and effects at the
        # call.  Equivalent to the lazy generator only if it is consumed completely, which is checked where it
        # is consumed (loop without early exit, list()/deque()/sorted()..., never next()).
        self.eager = eager

    def next(self, interp, default):
        if self.eager:
            raise Unsupported('next() on a generator that is used through its contract (items and effects at the call)')
        p = to_z3(self.pos) if not isinstance(self.pos, int) else z3.IntVal(self.pos)
        if interp.st.fork(wrap(p < self.xs.length)):
            v = slist_elem(interp, self.xs, p)
            self.pos = wrap(p + 1)
            return v
        if default is not None:
            return default[0]
        raise _pyraise(StopIteration())

    def call_method(self, interp, name, args, kwargs):
        if name == '__iter__':
            return self
        if name == '__next__':
            return self.next(interp, None)
        raise Unsupported('method %s on an iterator over a symbolic-length sequence' % name)


def as_siter(interp, v):
    """The (sequence, position) cell behind an object that is its own iterator (e.g. a text file opened
    for reading, modelled as an opaque object whose interface gives `__pv_iter__`); other values unchanged."""
    if isinstance(v, (SOpt, SChoice)):
        v = interp.resolve(v)
    if isinstance(v, Opaque):
        from .api import _iface_lookup
        m = _iface_lookup(v._pv_iface, 'methods', '__iter__')
        if m is not None:
            return interp.reg.call_opaque(interp, v, '__iter__', [], {})
    return v


class SEnumerate:
    def __init__(self, src, start):
        self.src = src
        self.start = start


class SMap:
    """Symbolic finite map (dict view): z3 arrays ``has: K -> Bool`` and ``val: K -> V``.

    Canonical form: ``val[k]`` is the default of the value sort wherever ``has[k]`` is false, so that
    equality of the two arrays is dict equality.  The canonical-form fact is instantiated at every
    key an operation touches (`_touch`); all operations preserve it.

    ``kty`` / ``vty`` are the shapes of keys / values (Str, Int, Bool; values may also be ``Iface`` of a
    by-id interface: the array then holds the object ids).

    Keys may also be opaque objects whose interface names the attribute that decides their equality
    (``map_key = 'ident'``: the model of ``__eq__`` / ``__hash__``).  With a value shape that has no scalar
    sort (``Any_``, an interface that is not by-id, ``None``) the values are NOT tracked (``val is None``):
    only the key set is symbolic, a read gives an arbitrary value of that shape."""

    def __init__(self, kty, vty, has, val, uid):
        self.kty = kty
        self.vty = vty
        self.has = has
        self.val = val
        self.uid = uid
        # how a key term is presented as an object where the map hands out its keys (`items()`); None: the scalar
        self.key_object = None

    # ----- sorts / conversion
    @property
    def ksort(self):
        return scalar_sort(self.kty)

    @property
    def vsort(self):
        return scalar_sort(self.vty)

    @property
    def untracked(self):
        return self.val is None

    def _fresh_value(self, interp):
        from .api import Ty
        if isinstance(self.vty, Ty):
            return self.vty.make(interp, self.uid + '[]')
        return OpaqueVal(interp.st.fresh_name(self.uid + '[]'))

    @staticmethod
    def _key_value(interp, k):
        """the value that decides the equality of a key: the key itself, or the `map_key` attribute of an
        opaque object"""
        if isinstance(k, (SOpt, SChoice)):
            k = interp.resolve(k)
        if isinstance(k, Opaque) and getattr(k._pv_iface, 'map_key', None):
            k = interp.getattr(k, k._pv_iface.map_key)
        return k

    def _key(self, interp, k):
        k = self._key_value(interp, k)
        try:
            t = to_z3(k)
        except TypeError:
            raise Unsupported('symbolic map: key %r' % (k,))
        if t.sort() != self.ksort:
            raise Unsupported('symbolic map: key of sort %s in a map with %s keys' % (t.sort(), self.ksort))
        return t

    def _unwrap(self, interp, v):
        if self.val is None:
            return None
        if _is_opt_shape(self.vty):
            return _opt_term(interp, self.vty, v)
        if isinstance(v, (SOpt, SChoice)):
            v = interp.resolve(v)
        t = term_of_value(v)
        if t is None or t.sort() != self.vsort:
            raise Unsupported('symbolic map: cannot store value %r' % (v,))
        return t

    def _wrap(self, interp, t):
        if self.val is None:
            return self._fresh_value(interp)
        if _is_opt_shape(self.vty):
            srt = scalar_sort(self.vty)
            return SOpt(z3.simplify(srt.none(t)), value_of_term(interp, self.vty.inner, z3.simplify(srt.v(t))))
        return value_of_term(interp, self.vty, t)

    def _touch(self, interp, kt):
        if self.val is None:
            return
        interp.st.assume(z3.Or(z3.Select(self.has, kt), z3.Select(self.val, kt) == default_term(self.vty)))

    # ----- operations
    def copy(self, interp):
        c = SMap(self.kty, self.vty, self.has, self.val, interp.st.fresh_name(self.uid + '.copy'))
        c.key_object = self.key_object
        return c

    def contains(self, interp, k):
        k = self._key_value(interp, k)
        try:
            t = to_z3(k)
        except TypeError:
            return False
        if t.sort() != self.ksort:
            return False
        return wrap(z3.Select(self.has, t))

    def getitem(self, interp, k):
        kt = self._key(interp, k)
        if not interp.st.fork(wrap(z3.Select(self.has, kt))):
            raise _pyraise(KeyError(k if not isinstance(k, Sym) else '<symbolic>'))
        return self._wrap(interp, None if self.val is None else z3.Select(self.val, kt))

    def get(self, interp, k, default=None):
        kt = self._key(interp, k)
        h = wrap(z3.Select(self.has, kt))
        # merge `get(k, default)` into one term when the default is a scalar of the value sort
        dt = term_of_value(default) if default is not None and self.val is not None else None
        if dt is not None and dt.sort() == self.vsort and not isinstance(h, bool) and not is_object_shape(self.vty):
            return wrap(z3.If(h.t, z3.Select(self.val, kt), dt))
        if interp.st.fork(h):
            return self._wrap(interp, None if self.val is None else z3.Select(self.val, kt))
        return default

    def setitem(self, interp, k, v):
        kt = self._key(interp, k)
        vt = self._unwrap(interp, v)
        self.has = z3.Store(self.has, kt, z3.BoolVal(True))
        if self.val is not None:
            self.val = z3.Store(self.val, kt, vt)

    def _remove(self, interp, kt):
        self.has = z3.Store(self.has, kt, z3.BoolVal(False))
        if self.val is not None:
            self.val = z3.Store(self.val, kt, default_term(self.vty))

    def delitem(self, interp, k):
        kt = self._key(interp, k)
        if not interp.st.fork(wrap(z3.Select(self.has, kt))):
            raise _pyraise(KeyError('<symbolic>'))
        self._remove(interp, kt)

    def pop(self, interp, k, *default):
        kt = self._key(interp, k)
        if interp.st.fork(wrap(z3.Select(self.has, kt))):
            v = self._wrap(interp, None if self.val is None else z3.Select(self.val, kt))
            self._remove(interp, kt)
            return v
        if default:
            return default[0]
        raise _pyraise(KeyError('<symbolic>'))

    def setdefault(self, interp, k, default=None):
        kt = self._key(interp, k)
        if interp.st.fork(wrap(z3.Select(self.has, kt))):
            return self._wrap(interp, None if self.val is None else z3.Select(self.val, kt))
        self.setitem(interp, k, default)
        return default

    def clear(self, interp):
        self.has = z3.K(self.ksort, z3.BoolVal(False))
        if self.val is not None:
            self.val = z3.K(self.ksort, default_term(self.vty))

    def update(self, interp, other):
        if isinstance(other, (SOpt, SChoice)):
            other = interp.resolve(other)
        if isinstance(other, SMap):
            if self.val is None or other.val is None:
                raise Unsupported('symbolic map: update of / with a map whose values are not tracked')
            if other.ksort != self.ksort or other.vsort != self.vsort:
                raise Unsupported('symbolic map: update with a map of other sorts')
            k = z3.Const(interp.st.fresh_name('k!upd'), self.ksort)
            oh = z3.Select(other.has, k)
            self.has, self.val = (z3.Lambda([k], z3.Or(z3.Select(self.has, k), oh)),
                                  z3.Lambda([k], z3.If(oh, z3.Select(other.val, k), z3.Select(self.val, k))))
            return
        if isinstance(other, dict) or type(other).__name__ == 'mappingproxy':
            for k2, v2 in other.items():
                self.setitem(interp, k2, v2)
            return
        for item in interp.iterate(other):
            k2, v2 = list(interp.iterate(item))
            self.setitem(interp, k2, v2)

    def eq(self, interp, other):
        if other is self:
            return True
        if self.val is None or (isinstance(other, SMap) and other.val is None):
            raise Unsupported('symbolic map: == on a map whose values are not tracked')
        if isinstance(other, SMap):
            if other.ksort != self.ksort or other.vsort != self.vsort:
                raise Unsupported('symbolic map: == between maps of different sorts')
            return wrap(z3.And(self.has == other.has, self.val == other.val))
        if isinstance(other, dict):
            m = SMap(self.kty, self.vty, z3.K(self.ksort, z3.BoolVal(False)),
                     z3.K(self.ksort, default_term(self.vty)), 'lit')
            m.update(interp, other)
            return self.eq(interp, m)
        return False

    def havoc(self, interp, tag):
        base = interp.st.fresh_name('%s@%s' % (self.uid, tag))
        self.has = z3.Const(base + '.has', z3.ArraySort(self.ksort, z3.BoolSort()))
        if self.val is not None:
            self.val = z3.Const(base + '.val', z3.ArraySort(self.ksort, self.vsort))

    def terms(self):
        return [self.has, self.val] if self.val is not None else [self.has]


def has_scalar_sort(ty):
    try:
        scalar_sort(ty)
        return True
    except Unsupported:
        return False


def new_smap(interp, name, kty, vty):
    uid = interp.st.fresh_name(name)
    ks = scalar_sort(kty)
    has = z3.Const(uid + '.has', z3.ArraySort(ks, z3.BoolSort()))
    if not has_scalar_sort(vty):
        return SMap(kty, vty, has, None, uid)        # values not tracked
    return SMap(kty, vty, has, z3.Const(uid + '.val', z3.ArraySort(ks, scalar_sort(vty))), uid)


def smap_of_dict(interp, kty, vty, d, name='dict'):
    m = SMap(kty, vty, z3.K(scalar_sort(kty), z3.BoolVal(False)),
             z3.K(scalar_sort(kty), default_term(vty)) if has_scalar_sort(vty) else None,
             interp.st.fresh_name(name))
    m.update(interp, d)
    return m


def is_object_shape(ty):
    from .api import Iface
    return isinstance(ty, Iface)


_OPT_SORTS = {}


def _is_opt_shape(ty):
    from .api import Opt
    return isinstance(ty, Opt)


def opt_sort(inner):
    """the sort of optional values of a symbolic map: records (none: Bool, v: inner); canonical: v is the default
    of the inner sort when none holds"""
    key = inner.sexpr()
    if key not in _OPT_SORTS:
        dt = z3.Datatype('Opt<%s>' % key)
        dt.declare('mk', ('none', z3.BoolSort()), ('v', inner))
        _OPT_SORTS[key] = dt.create()
    return _OPT_SORTS[key]


def _opt_term(interp, ty, v):
    """the record term of an optional value (None, SOpt, or a plain value of the inner shape)"""
    srt = scalar_sort(ty)
    dflt = default_term(ty.inner)
    if isinstance(v, SChoice):
        v = interp.resolve(v)
    if v is None:
        return srt.mk(z3.BoolVal(True), dflt)
    if isinstance(v, SOpt):
        inner = v.val
        if isinstance(inner, (SOpt, SChoice)):
            inner = interp.resolve(inner)
        t = term_of_value(inner)
        if t is None or t.sort() != dflt.sort():
            raise Unsupported('symbolic map: cannot store value %r' % (v,))
        isn = v.is_none if z3.is_expr(v.is_none) else z3.BoolVal(bool(v.is_none))
        return srt.mk(isn, z3.If(isn, dflt, t))
    t = term_of_value(v)
    if t is None or t.sort() != dflt.sort():
        raise Unsupported('symbolic map: cannot store value %r' % (v,))
    return srt.mk(z3.BoolVal(False), t)


def scalar_sort(ty):
    from .api import _Int, _Bool, _Str, Iface
    if _is_opt_shape(ty):
        return opt_sort(scalar_sort(ty.inner))
    if isinstance(ty, _Int):
        return z3.IntSort()
    if isinstance(ty, _Bool):
        return z3.BoolSort()
    if isinstance(ty, _Str):
        return z3.StringSort()
    if isinstance(ty, Iface):
        if not getattr(ty.resolved(), 'by_id', False):
            raise Unsupported('objects in a symbolic map must be of a by-id interface')
        return z3.IntSort()
    raise Unsupported('no scalar sort for shape %r' % (ty,))


def default_term(ty):
    if _is_opt_shape(ty):
        return scalar_sort(ty).mk(z3.BoolVal(True), default_term(ty.inner))
    s = scalar_sort(ty)
    if s == z3.IntSort():
        return z3.IntVal(0)
    if s == z3.BoolSort():
        return z3.BoolVal(False)
    return z3.StringVal('')


def term_of_value(v):
    """z3 term standing for a value that can be stored in a map / passed to a pure ghost function:
    scalars, and objects of by-id interfaces (their id).  None if there is none."""
    if isinstance(v, Opaque):
        if getattr(v._pv_iface, 'by_id', False) and len(v._pv_index) == 1:
            return v._pv_index[0]
        return None
    if isinstance(v, (SOpt, SChoice, SList)):
        return None
    try:
        return to_z3(v)
    except TypeError:
        return None


def value_of_term(interp, ty, t):
    from .api import Iface, opaque_of_id
    if isinstance(ty, Iface):
        return opaque_of_id(interp, ty.resolved(), t)
    return wrap(t)


def smap_method(interp, m, name, args, kwargs):
    if kwargs and name != 'update':
        raise Unsupported('symbolic map: %s with keyword arguments' % name)
    if name == 'get':
        return m.get(interp, *args)
    if name == 'pop':
        return m.pop(interp, *args)
    if name == 'copy':
        return m.copy(interp)
    if name == 'setdefault':
        return m.setdefault(interp, *args)
    if name == 'clear':
        return m.clear(interp)
    if name == 'update':
        for a in args:
            m.update(interp, a)
        if kwargs:
            m.update(interp, kwargs)
        return None
    if name == '__contains__':
        return m.contains(interp, args[0])
    if name == '__getitem__':
        return m.getitem(interp, args[0])
    if name == '__setitem__':
        return m.setitem(interp, args[0], args[1])
    if name == '__delitem__':
        return m.delitem(interp, args[0])
    if name == 'keys':
        return SMapKeys(m)
    if name == 'items' and not args:
        return SMapItems(m)
    raise Unsupported('method %s on symbolic map' % name)


class SMapProxy:
    """types.MappingProxyType over a symbolic map: a live read-only view."""

    def __init__(self, m):
        self.m = m


@model(types.MappingProxyType)
def m_mappingproxy(interp, args, kwargs):
    (x,) = args
    if isinstance(x, (SOpt, SChoice)):
        x = interp.resolve(x)
    if isinstance(x, SMap):
        return SMapProxy(x)
    if isinstance(x, SMapProxy):
        return SMapProxy(x.m)
    try:
        return types.MappingProxyType(x)
    except Exception as e:
        raise _pyraise(e)


_PROXY_READS = ('get', 'copy', '__contains__', '__getitem__', 'keys', 'items')


class SMapKeys:
    """`d.keys()` of a symbolic map: supports only membership."""

    def __init__(self, m):
        self.m = m


class SMapItems:
    """`d.items()` of a symbolic map: only the source of a key- and value-preserving dict comprehension"""

    def __init__(self, m):
        self.m = m


def _card_fn(ksort):
    return z3.Function('smap.card<%s>' % ksort.sexpr(), z3.ArraySort(ksort, z3.BoolSort()), z3.IntSort())


def smap_len(interp, m):
    """len(d): the cardinality of the key set, an uninterpreted function `card` of the `has` array with the facts of
    finite cardinality instantiated at the arrays the map went through (stores on top of a base array):
    card >= 0;  card == 0  <=>  no key;  a store adds / removes at most the stored key."""
    card = _card_fn(m.ksort)
    st = interp.st
    empty = z3.K(m.ksort, z3.BoolVal(False))
    h = m.has
    for _ in range(64):
        c = card(h)
        st.assume(c >= 0)
        st.assume((c == 0) == (h == empty))
        if z3.is_store(h):
            base, k, b = h.arg(0), h.arg(1), h.arg(2)
            was = z3.Select(base, k)
            if z3.is_true(b):
                st.assume(c == card(base) + z3.If(was, 0, 1))
            elif z3.is_false(b):
                st.assume(c == card(base) - z3.If(was, 1, 0))
            else:
                st.assume(c == card(base) + z3.If(b, z3.If(was, 0, 1), z3.If(was, -1, 0)))
            h = base
        else:
            break
    return wrap(card(m.has))


def smap_dictcomp(interp, node, frame, items):
    """{key(k, v): value(k, v) for k, v in d.items()} over a symbolic map, where key(k, v) is (equal as a key to) k
    and value(k, v) is v: a copy of the map.  Anything else is Unsupported."""
    from .interp import Frame, _comp_info
    m = items.m
    if m.val is None:
        raise Unsupported('dict comprehension over a symbolic map whose values are not tracked')
    g = node.generators[0]
    st = interp.st
    k = z3.Const(st.fresh_name('k!comp'), m.ksort)
    key_obj = m.key_object(interp, k) if m.key_object is not None else wrap(k)
    val_obj = m._wrap(interp, z3.Select(m.val, k))
    child = Frame(_comp_info(frame.info, node.generators), {}, frame.enclosing + [frame.locals], frame.first_arg,
                  frame.defcls)
    child.gen = frame.gen
    n_dec = len(st.decisions)
    interp.assign(g.target, (key_obj, val_obj), child)
    kk = interp.eval(node.key, child)
    vv = interp.eval(node.value, child)
    if len(st.decisions) != n_dec:
        raise Unsupported('dict comprehension over a symbolic map: case split on the arbitrary item')
    kt = SMap._key_value(interp, kk)
    try:
        kt = to_z3(kt)
    except TypeError:
        raise Unsupported('dict comprehension over a symbolic map: key %r' % (kk,))
    if not (kt.sort() == m.ksort and z3.simplify(kt).eq(k)) or vv is not val_obj:
        raise Unsupported('dict comprehension over a symbolic map that does not preserve keys and values')
    return m.copy(interp)


def havoc_mutable(interp, v, tag, depth=3):
    """Forget the contents of the mutable symbolic state reachable from ``v`` (in place)."""
    if isinstance(v, SMap):
        v.havoc(interp, tag)
        return True
    if isinstance(v, SOpt):
        return havoc_mutable(interp, v.val, tag, depth)
    if isinstance(v, SMapProxy):
        return False        # a read-only view: the map is changed through the map itself
    done = False
    if depth > 0 and not isinstance(v, (Sym, Opaque, OpaqueVal, type, types.ModuleType, types.FunctionType)):
        d = getattr(v, '__dict__', None)
        if isinstance(d, dict):
            for x in list(d.values()):
                done = havoc_mutable(interp, x, tag, depth - 1) or done
    return done


def reachable_smaps(v, depth=3, path='', out=None, seen=None):
    """(path, SMap) pairs reachable from ``v`` through instance attributes."""
    out = [] if out is None else out
    seen = set() if seen is None else seen
    if id(v) in seen:
        return out
    seen.add(id(v))
    if isinstance(v, SMap):
        out.append((path, v))
    elif isinstance(v, SOpt):
        reachable_smaps(v.val, depth, path + '?', out, seen)
    elif isinstance(v, SMapProxy):
        reachable_smaps(v.m, depth, path + '.<view>', out, seen)
    elif depth > 0 and not isinstance(v, (Sym, Opaque, OpaqueVal, type, types.ModuleType, types.FunctionType)):
        d = getattr(v, '__dict__', None)
        if isinstance(d, dict):
            for k, x in d.items():
                reachable_smaps(x, depth - 1, '%s.%s' % (path, k), out, seen)
    return out


# ============================================================================ quantifiers (spec level)

MAX_QUANT_LEAVES = 256


def _quant(interp, args, is_forall):
    from .path import QFrame
    lo, hi, pred = args
    st = interp.st
    j = st.fresh_int('j')
    lo_t, hi_t = to_z3(lo), to_z3(hi)
    rng = z3.And(lo_t <= j, j < hi_t)
    return _quant_over(interp, j, SInt(j), rng, pred, is_forall)


def q_forall_keys(interp, args, kwargs):
    """forall_keys(d, pred): pred(k) holds for every key k of the symbolic map d."""
    m, pred = args
    if isinstance(m, (SOpt, SChoice)):
        m = interp.resolve(m)
    if isinstance(m, SMapProxy):
        m = m.m
    if not isinstance(m, SMap):
        for k in list(interp.iterate(m)):
            if not interp.branch(interp.call(pred, [k], {})):
                return False
        return True
    st = interp.st
    if m.ksort == z3.StringSort():
        k = st.fresh_str('k')
    elif m.ksort == z3.IntSort():
        k = st.fresh_int('k')
    else:
        raise Unsupported('forall_keys over keys of sort %s' % m.ksort)
    return _quant_over(interp, k, wrap(k), z3.Select(m.has, k), pred, True)


def _quant_over(interp, j, j_value, rng, pred, is_forall):
    from .path import QFrame
    st = interp.st
    st.no_fork += 1
    n_pc = len(st.pc)
    n_fresh = len(st.fresh_log)
    st.solver.push()
    leaves = []
    st.side_conditions.append([])
    try:
        work = [[]]
        while work:
            qf = QFrame(work.pop())
            st.qframes.append(qf)
            n_sc = len(st.scopes)
            try:
                with st.scope(rng):
                    if st.infeasible_site():
                        v = True if is_forall else False
                    elif qf.prefix:
                        # a case combination in which the body raises: the body does not hold there
                        # (natively the clause would raise, i.e. fail); without local case split the
                        # exception propagates as before
                        from .interp import PyRaise
                        try:
                            v = interp.truth(interp.call(pred, [j_value], {}))
                        except PyRaise:
                            v = False
                    else:
                        v = interp.truth(interp.call(pred, [j_value], {}))
            finally:
                del st.scopes[n_sc:]
                st.qframes.pop()
            leaves.append(([c for (c, _d) in qf.decisions], v))
            work.extend(qf.pending)
            if len(leaves) > MAX_QUANT_LEAVES:
                raise Unsupported('more than %d case combinations inside a quantifier body' % MAX_QUANT_LEAVES)
    finally:
        st.no_fork -= 1
        st.solver.pop()
        learned = st.pc[n_pc:]
        del st.pc[n_pc:]
        side = st.side_conditions.pop()
    if len(leaves) == 1 and not leaves[0][0]:
        body = leaves[0][1]
    else:
        # the case conditions of the local runs partition the space: merge the values
        body = wrap(z3.Or(*[z3.And(*(conds + [to_z3(v)])) for (conds, v) in leaves]))
    if side:
        body = wrap(z3.And(*(side + [to_z3(body)])))
    # facts assumed about the element at the arbitrary index j hold for every index
    # (forall-introduction: j was fresh and constrained only by the range, which each fact carries).
    # Constants created while evaluating the body (pieces of string decompositions, results of
    # havoc) depend on j: they become Skolem functions of j.
    created = [c for c in st.fresh_log[n_fresh:] if not c.eq(j)]
    subst = []
    for c in created:
        f = z3.Function(c.decl().name() + '@', j.sort(), c.sort())
        subst.append((c, f(j)))
    bt = to_z3(body)
    if subst:
        learned = [z3.substitute(t, *subst) for t in learned]
        bt = z3.substitute(bt, *subst)
    for t in learned:
        st._add(z3.ForAll([j], t) if _mentions(t, j) else t)
    if is_forall:
        return wrap(z3.ForAll([j], z3.Implies(rng, bt)))
    return wrap(z3.Exists([j], z3.And(rng, bt)))


def _mentions(t, c):
    seen = set()
    todo = [t]
    while todo:
        x = todo.pop()
        if x.get_id() in seen:
            continue
        seen.add(x.get_id())
        if x.eq(c):
            return True
        if z3.is_quantifier(x):
            todo.append(x.body())
        else:
            todo.extend(x.children())
    return False


def q_forall(interp, args, kwargs):
    return _quant(interp, args, True)


def q_exists(interp, args, kwargs):
    return _quant(interp, args, False)


def m_is_item(interp, args, kwargs):
    """contracts.common.is_item: an element of a symbolic list of objects (a handle) against an object"""
    item, obj = args
    from .mlist import handle_of
    if isinstance(item, (SOpt, SChoice)):
        item = interp.resolve(item)
    if isinstance(item, (SInt, int)) and not isinstance(item, bool):
        h = obj.t if isinstance(obj, SInt) else handle_of(interp, obj)
        return wrap(to_z3(item) == h)
    if isinstance(obj, SInt):
        return wrap(handle_of(interp, item) == obj.t)
    return item is obj


def m_conj(interp, args, kwargs):
    ts = []
    for x in interp.iterate(args[0]):
        t = interp.truth(x)
        if t is False:
            return False
        if t is not True:
            ts.append(to_z3(t))
    return wrap(z3.And(*ts)) if ts else True


def m_slot(interp, args, kwargs):
    d, k = args
    from .pdict import PDict
    if isinstance(d, PDict):
        key = d.resolve_key(interp, k)
        v = d.values.get(key) if key is not None else None
        return v if v is not None else ()
    if isinstance(k, Sym):
        k = interp.resolve(k) if isinstance(k, (SOpt, SChoice)) else k
    return d.get(k, ())


def m_snapshot_lists(interp, args, kwargs):
    (d,) = args
    from .pdict import PDict
    if isinstance(d, PDict):
        return d.snapshot(interp)
    return {k: m_list(interp, [v], {}) for k, v in d.items()}


def m_all_keys(interp, args, kwargs):
    from .pdict import PDict
    out = []
    for d in args:
        ks = d.universe if isinstance(d, PDict) else list(d.keys())
        for k in ks:
            if k not in out:
                out.append(k)
    return out
def _prefix_fun(interp, args, is_count):
    """sum_prefix(xs, k, f) / count_prefix(xs, k, pred): the value P(k) of the prefix function of the
    sequence, with the definition unfolded at k:  P(0) = 0,  P(k) = P(k-1) + f(xs[k-1])  for 0 < k <= len.
    Sound for sequences that only grow at the end (append): elements below an index never change."""
    xs, k, f = args[:3]
    extra = list(args[3:])       # further (fixed) arguments of f
    st = interp.st
    if isinstance(xs, (SOpt, SChoice)):
        xs = interp.resolve(xs)
    if isinstance(k, (SOpt, SChoice)):
        k = interp.resolve(k)

    def value_at(x):
        v = interp.call(f, [x] + extra, {})
        if is_count:
            t = interp.truth(v)
            return 1 if t is True else 0 if t is False else wrap(z3.If(t.t, 1, 0))
        if isinstance(v, (SOpt, SChoice)):
            v = interp.resolve(v)
        if isinstance(v, (bool, SBool)):
            return wrap(z3.If(to_z3(v), 1, 0))
        if not isinstance(v, (int, SInt)):
            raise Unsupported('sum_prefix: summand is not an integer')
        return v

    if not isinstance(xs, SList):
        if isinstance(k, Sym):
            raise Unsupported('sum_prefix over a concrete sequence with symbolic bound')
        acc = 0
        for x in list(interp.iterate(xs))[:k]:
            acc = interp.binop(ast.Add, acc, value_at(x))
        return acc
    if not isinstance(f, types.FunctionType) or f.__closure__:
        raise Unsupported('sum_prefix/count_prefix need a module-level function (no lambda/closure)')
    base, idx = xs.ident if xs.ident is not None else (xs.uid, ())
    name = '%s<%s|%s.%s>' % ('count' if is_count else 'sum', base, f.__module__, f.__qualname__)
    idx = list(idx)
    for e in extra:      # the prefix function also depends on the extra arguments
        if isinstance(e, (SOpt, SChoice)):
            e = interp.resolve(e)
        if isinstance(e, (SInt, SBool, SStr, int, str, bool)):
            idx.append(to_z3(e))
        elif isinstance(e, Opaque):
            name += '|' + e._pv_uid
            idx.extend(e._pv_index)
        else:
            raise Unsupported('sum_prefix/count_prefix: extra argument %r' % (e,))
    fn = z3.Function(name, *([x.sort() for x in idx] + [z3.IntSort(), z3.IntSort()]))
    P = lambda t: fn(*(idx + [t]))
    kt = to_z3(k)
    st.assume(P(z3.IntVal(0)) == 0)
    if not (isinstance(k, int) and k <= 0):
        in_range = z3.And(kt > 0, kt <= xs.length)
        with st.scope(in_range):
            if not st.infeasible_site():
                v = value_at(slist_elem(interp, xs, z3.simplify(kt - 1)))
                st.assume(P(kt) == P(kt - 1) + to_z3(v))
        if is_count:
            # consequences of the definition by induction on k (trusted lemmas, DESIGN 2.5):
            # bounds, and a count never decreases
            st.assume(z3.Implies(z3.And(kt >= 0, kt <= xs.length), z3.And(P(kt) >= 0, P(kt) <= kt)))
            lemma_key = ('count-monotone', name)
            if lemma_key not in st.ghost:
                st.ghost[lemma_key] = True
                a, b = z3.Int(name + '!a'), z3.Int(name + '!b')
                st._add(z3.ForAll([a, b], z3.Implies(z3.And(0 <= a, a <= b, b <= xs.length), P(a) <= P(b))))
    return wrap(P(kt))


def q_sum_prefix(interp, args, kwargs):
    return _prefix_fun(interp, args, False)


def q_count_prefix(interp, args, kwargs):
    return _prefix_fun(interp, args, True)


def q_nat_of_str(interp, args, kwargs):
    """SMT-LIB str.to_int: the number denoted by a non-empty string of ASCII digits, else -1."""
    (s,) = args
    if isinstance(s, (SOpt, SChoice)):
        s = interp.resolve(s)
    if isinstance(s, str):
        return int(s) if s != '' and all(c in '0123456789' for c in s) else -1
    if not isinstance(s, SStr):
        raise Unsupported('nat_of_str of a non-string')
    return wrap(z3.StrToInt(s.t))


def q_keys_subset(interp, args, kwargs):
    a, b = args
    if isinstance(a, dict) and isinstance(b, dict):
        return all(k in b for k in a)
    if isinstance(a, dict) and isinstance(b, SMap):
        parts = [to_z3(b.contains(interp, k)) for k in a]
        return wrap(z3.And(*parts)) if parts else True
    if not (isinstance(a, SMap) and isinstance(b, SMap)):
        raise Unsupported('keys_subset of %r, %r' % (type(a).__name__, type(b).__name__))
    y = z3.Const(interp.st.fresh_name('key'), a.ksort)
    return wrap(z3.ForAll([y], z3.Implies(z3.Select(a.has, y), z3.Select(b.has, y))))


# ============================================================================ prefix folds (ghost history functions)

def _fold_sig(v):
    """(signature string, shape) of a fold state: scalars, symbolic maps, by-id objects, tuples of these."""
    if isinstance(v, SMap):
        return 'map(%s|%s)' % (z3.simplify(v.has).sexpr(), z3.simplify(v.val).sexpr()), ('map', v.kty, v.vty)
    if isinstance(v, tuple):
        parts = [_fold_sig(x) for x in v]
        return '(%s)' % ','.join(p[0] for p in parts), ('tuple', [p[1] for p in parts])
    if isinstance(v, Opaque):
        t = term_of_value(v)
        if t is None:
            raise Unsupported('prefix_fold: state holds an object without id')
        return 'obj(%s)' % z3.simplify(t).sexpr(), ('obj', v._pv_iface)
    t = term_of_value(v)
    if t is None:
        raise Unsupported('prefix_fold: state of unsupported shape %r' % (v,))
    return z3.simplify(t).sexpr(), ('scalar', t.sort())


def _fold_value(interp, name, shape, t):
    """The value of the fold function ``name`` at index term ``t``."""
    kind = shape[0]
    if kind == 'scalar':
        return wrap(z3.Function(name, z3.IntSort(), shape[1])(t))
    if kind == 'obj':
        from .api import opaque_of_id
        return opaque_of_id(interp, shape[1], z3.Function(name, z3.IntSort(), z3.IntSort())(t))
    if kind == 'map':
        ks, vs = scalar_sort(shape[1]), scalar_sort(shape[2])
        has = z3.Function(name + '.has', z3.IntSort(), z3.ArraySort(ks, z3.BoolSort()))(t)
        val = z3.Function(name + '.val', z3.IntSort(), z3.ArraySort(ks, vs))(t)
        return SMap(shape[1], shape[2], has, val, '%s(%s)' % (name, z3.simplify(t).sexpr()))
    if kind == 'tuple':
        return tuple(_fold_value(interp, '%s.%d' % (name, i), sh, t) for i, sh in enumerate(shape[1]))
    raise AssertionError(kind)


def _fold_equal(interp, a, b):
    if isinstance(a, tuple):
        if not isinstance(b, tuple) or len(a) != len(b):
            raise Unsupported('prefix_fold: the step function changes the shape of the state')
        ts = [to_z3(_fold_equal(interp, x, y)) for x, y in zip(a, b)]
        return wrap(z3.And(*ts)) if ts else True
    if isinstance(a, SMap):
        if not isinstance(b, SMap):
            raise Unsupported('prefix_fold: the step function changes the shape of the state')
        return a.eq(interp, b)
    if isinstance(a, Opaque):
        ta, tb = term_of_value(a), term_of_value(b)
        if ta is None or tb is None:
            raise Unsupported('prefix_fold: the step function changes the shape of the state')
        return wrap(ta == tb)
    return interp.eq(a, b)


def m_prefix_fold(interp, args, kwargs):
    """``prefix_fold(f, init, xs, i)`` = f(...f(f(init, xs[0]), xs[1])..., xs[i-1])  over a symbolic-length xs.

    The value is the application F(i) of an uninterpreted function determined by (f, init, xs).  The
    defining equations  F(0) = init  and  F(i) = f(F(i-1), xs[i-1])  for 0 < i <= len(xs)  are
    instantiated at the index terms the clauses mention: the first whenever i may be 0, the second
    where 0 < i <= len(xs) is entailed by the path condition (e.g. at `_i + 1` when an invariant is
    re-established).  f must be a module-level function: a pure function of its two arguments."""
    import hashlib
    f, init, xs, i = args[:4]
    extra = list(args[4:])          # further (fixed) arguments of the step function: f(acc, x, *extra)
    if isinstance(xs, (SOpt, SChoice)):
        xs = interp.resolve(xs)
    if isinstance(i, (SOpt, SChoice)):
        i = interp.resolve(i)
    if not isinstance(xs, SList):
        acc = init
        items = list(interp.iterate(xs))
        if isinstance(i, Sym):
            raise Unsupported('prefix_fold: symbolic index into a concrete sequence')
        for x in items[:i]:
            acc = interp.call(f, [acc, x] + extra, {})
        return acc
    if not isinstance(f, types.FunctionType) or f.__closure__:
        raise Unsupported('prefix_fold: the step function must be a module-level function')
    if isinstance(i, int) and i == 0:
        return init
    sig, shape = _fold_sig(init)
    for e in extra:
        part, terms = _ghost_arg(e)
        sig += '|%s(%s)' % (part, ','.join(z3.simplify(t).sexpr() for t in terms))
    name = 'fold.%s.%s' % (f.__name__, hashlib.sha1(('%s:%s|%s|%s' % (f.__module__, f.__qualname__, xs.uid, sig))
                                                    .encode()).hexdigest()[:10])
    st = interp.st
    t = to_z3(i)
    value = _fold_value(interp, name, shape, t)
    if st.no_fork:
        return value         # inside a quantifier body: the term only
    done = st.ghost.setdefault('@fold-unfolded', set())
    key = (name, z3.simplify(t).sexpr())
    if key in done:
        return value
    if not st.scopes:
        done.add(key)
    st.assume(z3.Implies(t == 0, to_z3(_fold_equal(interp, value, init))))
    if st.must_hold(z3.And(t >= 1, t <= xs.length)):
        prev_t = z3.simplify(t - 1)
        if z3.is_int_value(prev_t) and prev_t.as_long() == 0:
            prev = init
        else:
            prev = _fold_value(interp, name, shape, prev_t)
            st.assume(z3.Implies(prev_t == 0, to_z3(_fold_equal(interp, prev, init))))
        x = slist_elem(interp, xs, prev_t)
        if isinstance(prev, SMap):
            prev = prev.copy(interp)
        nxt = interp.call(f, [prev, x] + extra, {})
        st.assume(_fold_equal(interp, value, nxt))
    return value


# ============================================================================ recursive spec functions

def _ghost_arg(a):
    """(name part, terms) identifying an argument of a ghost function."""
    if isinstance(a, SMap):
        return 'map', a.terms()
    if isinstance(a, SList):
        if a.ident is None:
            raise Unsupported('recursive spec function: a derived list (slice, concatenation, ...) as argument')
        return 'list:' + a.ident[0], list(a.ident[1])
    if isinstance(a, Opaque):
        t = term_of_value(a)
        if t is None:
            if a._pv_index:
                return 'obj:' + a._pv_uid, list(a._pv_index)
            return 'obj:' + a._pv_uid, []
        from .api import universe_of
        return universe_of(a._pv_iface), [t]
    if isinstance(a, (SOpt, SChoice)):
        raise Unsupported('recursive spec function: optional / choice argument (resolve it first)')
    t = term_of_value(a)
    if t is not None:
        return 's', [t]
    if a is None or isinstance(a, (enum.Enum, types.FunctionType, type)):
        return 'c:%s' % (getattr(a, '__qualname__', None) or repr(a)), []
    raise Unsupported('recursive spec function: argument %r' % (a,))


def call_recursive_spec(interp, fn, args, kwargs):
    """A boolean spec function marked ``@recursive`` (contracts/common.py): its value is the application of an
    uninterpreted predicate to the arguments; the defining equation (the body, with the recursive calls left as
    applications) is assumed for the arguments of every call made outside quantifier bodies."""
    if kwargs:
        raise Unsupported('recursive spec function called with keyword arguments')
    st = interp.st
    args = [interp.resolve(a) if isinstance(a, (SOpt, SChoice)) else a for a in args]
    parts = [_ghost_arg(a) for a in args]
    terms = [t for _, ts in parts for t in ts]
    name = 'rec.%s@%s' % (fn.__qualname__, '|'.join(p for p, _ in parts))
    kind = getattr(fn, '_pv_recursive', 'bool')
    rsort = {'bool': z3.BoolSort, 'str': z3.StringSort, 'int': z3.IntSort}[kind if kind in ('str', 'int') else 'bool']()
    u = z3.Function(name, *([t.sort() for t in terms] + [rsort])) if terms else None
    app = u(*terms) if terms else z3.Const(name, rsort)
    active = st.ghost.setdefault('@rec-active', [])
    done = st.ghost.setdefault('@rec-unfolded', set())
    key = (name, tuple(z3.simplify(t).sexpr() for t in terms))
    if fn in active or st.no_fork or key in done:
        return wrap(app)
    if not st.scopes:
        done.add(key)
    active.append(fn)
    try:
        body = interp.call_real_function(fn, args, {})
        if isinstance(body, (SOpt, SChoice)):
            body = interp.resolve(body)
        if kind not in ('str', 'int'):
            body = interp.truth(body)
    finally:
        active.pop()
    bt = to_z3(body)
    if bt.sort() != rsort:
        raise Unsupported('recursive spec function %s: result is not of the declared kind' % fn.__qualname__)
    st.assume(app == bt)
    return wrap(app)


def m_rec_app(interp, args, kwargs):
    """contracts.common.rec_app(fn, *args): the application of a recursive spec function, not unfolded here"""
    fn = args[0]
    if not getattr(fn, '_pv_recursive', False):
        raise Unsupported('rec_app: not a recursive spec function')
    active = interp.st.ghost.setdefault('@rec-active', [])
    active.append(fn)
    try:
        return call_recursive_spec(interp, fn, list(args[1:]), kwargs)
    finally:
        active.pop()


def m_is_opaque(interp, args, kwargs):
    x = args[0]
    if isinstance(x, (SOpt, SChoice)):
        x = interp.resolve(x)
    return isinstance(x, Opaque)


def _count_reduce_site(interp):
    """Every reduce() call of a repository frame has an ordinal (for call-site loop specs)."""
    for fr in reversed(interp.frame_stack):
        if not fr.info.filename.endswith('functools_model.py'):
            k = getattr(fr, 'reduce_counter', 0)
            fr.reduce_counter = k + 1
            return fr, k
    return None, 0


def lazy_map_image(interp, lm):
    """the items of map(f, xs) over a symbolic sequence as the element-wise image -- only when f, probed on an arbitrary
    element, neither raises nor splits cases nor emits ghost events (else Unsupported)"""
    from . import seqs
    from .interp import PyRaise
    xs = seqs.as_slist(interp, lm.xs)
    st = interp.st
    uid = st.fresh_name(xs.uid + '.map')

    def elem(interp2, idx_term):
        return interp2.call(lm.f, [slist_elem(interp2, xs, idx_term)], {})

    k = st.fresh_int(uid + '.k')
    n_dec, n_tr = len(st.decisions), len(st.trace)
    with st.scope(z3.And(k >= 0, k < xs.length)):
        if not st.infeasible_site():
            n_dec = len(st.decisions)
            try:
                elem(interp, k)
            except PyRaise:
                raise Unsupported('items of map(f, xs): f may raise')
    if len(st.decisions) != n_dec or len(st.trace) != n_tr:
        raise Unsupported('items of map(f, xs): f splits cases or has ghost effects (%r, %r)'
                          % (st.decisions[n_dec:], st.trace[n_tr:]))
    return SList(xs.length, elem, uid)


def m_items_of(interp, args, kwargs):
    """spec helper items_of(it): the remaining items of an iterator / the items of a sequence"""
    from . import seqs
    x = args[0]
    if isinstance(x, (SOpt, SChoice)):
        x = interp.resolve(x)
    if isinstance(x, SLazyMap):
        return lazy_map_image(interp, x)
    if isinstance(x, (SList, SIter, SEnumerate)):
        if isinstance(x, SIter):
            if isinstance(x.pos, int) and x.pos == 0:
                return x.xs
            return seqs.slice_(interp, x.xs, slice(x.pos, None, None))
        return seqs.as_slist(interp, x)
    return list(interp.iterate(x))


def _minmax_slist(interp, src, is_min):
    """min/max of a non-empty symbolic sequence of integers: a bound of every element that is attained"""
    from . import seqs
    st = interp.st
    xs = seqs.as_slist(interp, src)
    if not st.fork(wrap(xs.length > 0)):
        raise _pyraise(ValueError('min()/max() arg is an empty sequence'))
    r = st.fresh_int('min' if is_min else 'max')
    w = st.fresh_int('argmin' if is_min else 'argmax')
    st.assume(z3.And(w >= 0, w < xs.length))
    ew = slist_elem(interp, xs, w)
    if not isinstance(ew, (SInt, int)):
        raise Unsupported('min/max over a symbolic sequence of non-integers')
    st.assume(to_z3(ew) == r)
    j = st.fresh_int('j')
    n_pc = len(st.pc)
    st.solver.push()
    try:
        with st.scope(z3.And(0 <= j, j < xs.length)):
            e = to_z3(slist_elem(interp, xs, j))
    finally:
        st.solver.pop()
        learned = st.pc[n_pc:]
        del st.pc[n_pc:]
    for t in learned:
        st._add(z3.ForAll([j], t) if _mentions(t, j) else t)
    st._add(z3.ForAll([j], z3.Implies(z3.And(0 <= j, j < xs.length), (r <= e) if is_min else (r >= e))))
    return wrap(r)
