"""Replay of refuted obligations against the real code, natively, under /venv/bin/python.

A replay file is a self-contained script.  Exit status of the script: 1 = the violation
reproduces on the real code, 0 = it does not reproduce, 2 = no concrete input available.
"""
import json
import os
import re
import subprocess
import sys

from . import REPO, REPO_SRC, VERIF

PY = os.environ.get('PYVC_REPLAY_PYTHON', '/venv/bin/python')


def match_known(rf, known):
    for k in known:
        if k.get('obligation') and k['obligation'] == rf['obligation']:
            return k
        if k.get('obligation_regex') and re.search(k['obligation_regex'], rf['obligation']):
            return k
    return None


def _safe(name):
    return re.sub(r'[^A-Za-z0-9_.-]+', '_', name)[:150]


REPRODUCED = 'REPLAY: the violation is reproduced on the real code'


def write_replay(prop, rf, reg):
    d = os.path.join(VERIF, 'replays', prop)
    os.makedirs(d, exist_ok=True)
    path = os.path.join(d, _safe(rf['obligation']) + '.py')
    detail = rf.get('detail') or {}
    model = detail.get('model') if isinstance(detail, dict) else None
    body = None
    c = reg.contracts.get(rf.get('function')) if rf.get('function') else None
    src = rf.get('replay_src')
    if src is None and c is not None and c.replay is not None:
        try:
            src = c.replay(model or {}, rf)
        except Exception as e:
            src = None
            detail = dict(detail, replay_generation_error=repr(e))
    if src is None and c is not None and model is None and rf.get('regressed'):
        # an obligation that is reported because it can no longer be established (no counter-model): there is no
        # input to rebuild; running the function on default stand-ins would say nothing
        src = ('print("no counter-model: the obligation is reported because the verifier can no longer establish "\n'
               '      "it after the change of the source (see the reason above)")\nsys.exit(2)\n')
    if src is None and c is not None:
        try:
            from . import replaygen
            src = replaygen.generic(c, rf, model or {})
        except Exception as e:
            detail = dict(detail, generic_replay_error=repr(e))
    header = [
        '# Replay of a refuted proof obligation (written by pyvc; see /verif/DESIGN.md 2.3).',
        '# property   : %s' % prop,
        '# obligation : %s' % rf['obligation'],
        '# function   : %s' % rf.get('function'),
        '# run        : PYTHONPATH=%s %s %s' % (REPO_SRC, PY, path),
        '# exit status: 1 (and the line %r) = violation reproduced on the real code, 0 = not reproduced, 2 = no concrete input, 3 = the script failed' % REPRODUCED,
        '# solver output / counter-model:',
    ]
    for line in json.dumps(detail, indent=1, default=str).splitlines():
        header.append('#   ' + line)
    pre = ['import sys, os', 'sys.path.insert(0, %r)' % REPO_SRC, 'sys.path.insert(0, %r)' % VERIF,
           'OBLIGATION = %r' % rf['obligation'],
           "_lim = sys.get_int_max_str_digits() if hasattr(sys, 'get_int_max_str_digits') else None",
           'if _lim is not None:', '    sys.set_int_max_str_digits(0)      # counter-models may hold huge integers',
           'MODEL = eval(%r)' % (repr(model or {}),),
           'if _lim is not None:', '    sys.set_int_max_str_digits(_lim)', '']
    if src is None:
        src = 'print("no concrete failing input available for", OBLIGATION)\nsys.exit(2)\n'
    wrapped = 'try:\n' + ''.join('    ' + ln + '\n' for ln in src.splitlines()) + \
              ('except SystemExit as _e:\n    if _e.code == 1:\n        print(%r)\n    raise\n'
               'except BaseException as _e:\n' % REPRODUCED) + \
              '    import traceback; traceback.print_exc()\n' \
              '    print("replay script failed (not a reproduction)"); sys.exit(3)\n'
    with open(path, 'w') as f:
        f.write('\n'.join(header) + '\n' + '\n'.join(pre) + '\n' + wrapped)
    reproduced = False
    out = ''
    import shutil
    import tempfile
    # the replay runs real code on stub objects: run it in a scratch directory, so that a stub path that reaches a
    # real file operation (open / mkdir with the stub's name) cannot litter the verification repository
    scratch = tempfile.mkdtemp(prefix='pyvc-replay-')
    try:
        p = subprocess.run([PY, os.path.abspath(path)], capture_output=True, text=True, timeout=120, cwd=scratch,
                           env=dict(os.environ, PYTHONPATH=REPO_SRC))
        # (exit status 1 alone is also what CPython gives for a script it cannot compile or that dies)
        reproduced = (p.returncode == 1 and REPRODUCED in p.stdout)
        out = (p.stdout + p.stderr)[-2000:]
    except Exception as e:
        out = repr(e)
    finally:
        shutil.rmtree(scratch, ignore_errors=True)
    with open(path, 'a') as f:
        f.write('\n# --- output of the replay when it was written (reproduced=%s):\n' % reproduced)
        for line in out.splitlines():
            f.write('#   ' + line + '\n')
    return {'path': path, 'reproduced': reproduced, 'output': out}
