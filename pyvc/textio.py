"""Assumed contracts of the platform's text I/O (ghost file system): pathlib.Path.open, text files,
io.StringIO, os.fstat, filecmp.cmp, str.splitlines.

State of the ghost file system: every path object (interface `PathI`) has a ghost field `stored` --
the file's contents *as stored*, i.e. the characters that reading with `newline=''` would give.  Reading a
file opened in text mode with the default `newline=None` decodes with universal-newline translation:
    decoded = univ(stored)      ('\\r\\n' and '\\r' become '\\n')
Writing in text mode on POSIX stores the text unchanged.  A text file on disk has a ghost position `pos`
counted in characters of the stored text; `tell()` gives an opaque cookie that `seek(cookie)` maps back to
that position.  An integer that is not such a cookie (and not 0) is a BYTE offset: `utf8_len(s)` is the
number of bytes of s, equal to len(s) exactly for ASCII texts.
The environment does not fail (no OSError: unused paths are unused, the disk is not full); this is an
assumption of every proof that uses these models, listed in evidence.

`univ` and `utf8_len` are uninterpreted, with the true facts below instantiated at every use:
    '\\r' not in s  ->  univ(s) == s          '\\r' in s  ->  '\\r' not in univ(s)         |univ(s)| <= |s|
    utf8_len(s) >= |s|                        utf8_len(s) == |s|  <->  s is ASCII
They are cross-checked against CPython by the C14 check `platform-models`.
"""
import io
import os
import pathlib

try:
    import z3
except ImportError:      # replays run under the repository's interpreter, without z3
    z3 = None

from .api import Interface, Method, Ty, Str, Bool, Int, new_opaque, _Str
from .path import Unsupported
from .values import SInt, SBool, SStr, SOpt, SChoice, SList, Sym, Opaque, to_z3, wrap
from . import models, texts

# str.splitlines boundaries other than '\n' ('\r\n' counts as one)
SPLITLINES_EXTRA = '\r\x0b\x0c\x1c\x1d\x1e\x85\u2028\u2029'


def _pyraise(e):
    from .interp import PyRaise
    return PyRaise(e)


def _sv(s):
    return z3.StringVal(s)


def _t(v):
    return v if z3.is_expr(v) else to_z3(v)


# ------------------------------------------------------------------------------ univ / utf8_len

def _univ_fn():
    return z3.Function('univ_nl', z3.StringSort(), z3.StringSort())


def _blen_fn():
    return z3.Function('utf8_len', z3.StringSort(), z3.IntSort())


def univ(interp, s):
    """term of the universal-newline decoding of stored text s (the facts are axioms: added outside any merge scope)"""
    st = interp.st
    t = _t(s)
    f = _univ_fn()
    r = f(t)
    key = ('__univ__', t.get_id())
    if key not in st.ghost:
        st.ghost[key] = t
        cr = _sv('\r')
        if '__univ_ground__' not in st.ghost:
            st.ghost['__univ_ground__'] = True
            st._add(f(_sv('\r')) == _sv('\n'))
            st._add(f(_sv('\r\n')) == _sv('\n'))
        st._add(z3.Implies(z3.Not(z3.Contains(t, cr)), r == t))
        st._add(z3.Implies(z3.Contains(t, cr), z3.Not(z3.Contains(r, cr))))
        st._add(z3.Length(r) <= z3.Length(t))
    return r


def blen(interp, s):
    st = interp.st
    t = _t(s)
    f = _blen_fn()
    r = f(t)
    key = ('__blen__', t.get_id())
    if key not in st.ghost:
        st.ghost[key] = t
        ascii_ = z3.Star(z3.Range('\x00', '\x7f'))
        st._add(r >= z3.Length(t))
        st._add((r == z3.Length(t)) == z3.InRe(t, ascii_))
    return r


# ------------------------------------------------------------------------------ paths

def stored_of(interp, p):
    """current stored contents (term) of the file at path object p"""
    g = p._pv_ghost
    if 'stored' not in g:
        g['stored'] = to_z3(interp.reg.opaque_getattr(interp, p, 'stored'))     # initial contents: attribute of the model
    return _t(g['stored'])


def set_stored(interp, p, t):
    p._pv_ghost['stored'] = t


def _path_open(interp, self, args, kwargs):
    mode = args[0] if args else kwargs.get('mode', 'r')
    extra = set(kwargs) - {'mode'}
    if extra or len(args) > 1:
        raise Unsupported('Path.open with %s' % sorted(extra))
    if not isinstance(mode, str):
        raise Unsupported('Path.open with symbolic mode')
    if mode in ('r', 'rt'):
        return STextReader(interp, self)
    if mode in ('x', 'w', 'x+', 'w+', 'xt', 'wt'):
        if mode.startswith('x') and self._pv_ghost.get('exists', True) and not self._pv_ghost.get('unused'):
            raise Unsupported('exclusive creation of a path that is not known to be unused')
        f = new_opaque(interp, TextFileI, self._pv_uid + '.open(%s)' % mode)
        f._pv_ghost.update(path=self, mode=mode, pos=z3.IntVal(0), closed=False, cookies={}, dirty=False)
        set_stored(interp, self, _sv(''))
        self._pv_ghost['exists'] = True
        self._pv_ghost['unused'] = False
        return f
    raise Unsupported('Path.open(mode=%r)' % mode)


def _path_str(interp, self, args, kwargs):
    """str(path): a name; distinct path objects have distinct names"""
    g = self._pv_ghost
    if 'name' not in g:
        t = interp.st.fresh_str(self._pv_uid + '.name')
        g['name'] = SStr(t)
        reg = interp.st.ghost.setdefault('__path_names__', {})
        for other_t, other in reg.values():
            interp.st.assume(t != other_t)
        reg[t.get_id()] = (t, self)
    return g['name']


def path_of_name(interp, name):
    reg = interp.st.ghost.get('__path_names__', {})
    ent = reg.get(to_z3(name).get_id()) if isinstance(name, SStr) else None
    if ent is None:
        raise Unsupported('file name that is not the str() of a modelled path')
    return ent[1]


class PathI(Interface):
    """pathlib.Path of a regular file (or of an unused name) in the ghost file system"""
    target_class = pathlib.Path
    attrs = {'stored': Str}
    methods = {
        'open': Method(model=_path_open),
        '__str__': Method(model=_path_str),
        'chmod': Method(event='chmod'),
    }


def new_unused_path(interp, name):
    p = new_opaque(interp, PathI, name)
    p._pv_ghost['unused'] = True
    p._pv_ghost['exists'] = False
    p._pv_ghost['stored'] = _sv('')
    return p


# ------------------------------------------------------------------------------ reading

class STextReader(models.SIter):
    """A text file opened for reading (default newline=None): its own iterator over the lines of the
    decoded text; also a context manager."""

    def __init__(self, interp, path):
        self.path = path
        self.text = univ(interp, stored_of(interp, path))
        models.SIter.__init__(self, texts.lines_of_text(interp, wrap(self.text)), 0)
        self.closed = False

    def call_method(self, interp, name, args, kwargs):
        if name in ('__enter__', '__iter__'):
            return self
        if name in ('__exit__', 'close'):
            self.closed = True
            return None
        if name == 'read' and args and not kwargs:
            # read(n) from the start: the first min(n, |text|) characters (the lines position is then unknown:
            # the reader may not be iterated afterwards)
            pos = self.pos
            if not (isinstance(pos, int) and pos == 0):
                raise Unsupported('read(size) of a text file that has been read from already')
            n = texts._zi(args[0])
            whole = self.text
            head = interp.st.fresh_str('read')
            rest = interp.st.fresh_str('unread')
            interp.st.assume(whole == z3.Concat(head, rest))
            interp.st.assume(z3.Length(head) == z3.If(n < z3.Length(whole), z3.If(n < 0, z3.Length(whole), n),
                                                      z3.Length(whole)))
            self.pos = wrap(self.xs.length)
            self.xs = None
            return wrap(head)
        if name == 'read':
            if args or kwargs:
                raise Unsupported('read(size) of a text file')
            pos = self.pos
            if not (isinstance(pos, int) and pos == 0):
                return texts.join_iter(interp, self)
            self.pos = wrap(self.xs.length)
            return wrap(self.text)
        if name == 'readlines':
            return texts.rest_of_iter(interp, self)
        return models.SIter.call_method(self, interp, name, args, kwargs)


# ------------------------------------------------------------------------------ writing

def pos_of(interp, f):
    """character position (term) of a modelled text file / StringIO"""
    p = f._pv_ghost.get('pos')
    if p is None:
        p = to_z3(interp.reg.opaque_getattr(interp, f, 'pos0'))
        interp.st.assume(z3.And(p >= 0, p <= z3.Length(_contents_of(interp, f))))
        f._pv_ghost['pos'] = p
    return _t(p)


def _contents_of(interp, f):
    g = f._pv_ghost
    if 'path' in g:
        return stored_of(interp, g['path'])
    return _sio_value(interp, f)


def _write_at_pos(interp, f, old, s):
    """the contents after writing s at the current position: appended when the position is the end;
    anywhere else the write overwrites -- what the contents are then is not modelled (unknown)"""
    st = interp.st
    pos = pos_of(interp, f)
    at_end = z3.simplify(pos == z3.Length(old))
    new = z3.Concat(old, _t(s))
    if not z3.is_true(at_end) and not st.must_hold(at_end):
        new = z3.If(at_end, new, st.fresh_str('overwritten'))
    f._pv_ghost['pos'] = z3.simplify(pos + z3.Length(_t(s)))
    return z3.simplify(new)


def append_to(interp, out, s):
    """the effect of `out.write(s)` on a modelled output (ghost `written` / the stored file)"""
    g = out._pv_ghost
    if 'path' in g:
        p = g['path']
        g['dirty'] = True          # (see child_writes) written through the object and not known to be flushed
        set_stored(interp, p, _write_at_pos(interp, out, stored_of(interp, p), s))
    else:
        g['written'] = z3.simplify(z3.Concat(written_of(interp, out), _t(s)))


def written_of(interp, out):
    g = out._pv_ghost
    if 'path' in g:
        return stored_of(interp, g['path'])
    if 'written' not in g:
        g['written'] = to_z3(interp.reg.opaque_getattr(interp, out, 'written0'))
    return _t(g['written'])


def _as_text(interp, v):
    if isinstance(v, (SOpt, SChoice)):
        v = interp.resolve(v)
    if not isinstance(v, (SStr, str)):
        raise _pyraise(TypeError('write() argument must be str'))
    return v


def _w_write(interp, self, args, kwargs):
    s = _as_text(interp, args[0])
    append_to(interp, self, s)
    return wrap(z3.Length(to_z3(s)))


def lines_text(interp, lines):
    """''.join(lines) for what `writelines` accepts; consumes iterators"""
    if isinstance(lines, (SOpt, SChoice)):
        lines = interp.resolve(lines)
    lines = models.as_siter(interp, lines)
    if isinstance(lines, models.SIter):
        return texts.join_iter(interp, lines)
    if isinstance(lines, SList):
        return texts.join_all(interp, lines)
    return models.m_str_join(interp, '', [lines], {})


def _w_writelines(interp, self, args, kwargs):
    append_to(interp, self, lines_text(interp, args[0]))
    return None


def _f_seek(interp, self, args, kwargs):
    g = self._pv_ghost
    st = interp.st
    g['dirty'] = False           # TextIOWrapper.seek flushes
    off = args[0]
    whence = args[1] if len(args) > 1 else 0
    if whence != 0:
        raise Unsupported('seek with whence != SEEK_SET')
    stored = stored_of(interp, g['path'])
    if isinstance(off, int) and off == 0:
        g['pos'] = z3.IntVal(0)
        return 0
    ent = g.setdefault('cookies', {}).get(to_z3(off).get_id()) if isinstance(off, SInt) else None
    if ent is not None:
        g['pos'] = ent[1]          # a cookie of this file: the character position it was taken at
        return off
    # any other integer is a byte offset: it denotes the character position whose prefix has that many bytes --
    # the same number for an ASCII text, the end exactly for the size of the file in bytes; else unknown
    k = st.fresh_int(self._pv_uid + '.pos')
    o = to_z3(off)
    st.assume(z3.And(k >= 0, k <= z3.Length(stored)))
    st.assume(z3.Implies(z3.InRe(stored, z3.Star(z3.Range('\x00', '\x7f'))), k == o))
    st.assume((o == blen(interp, stored)) == (k == z3.Length(stored)))
    g['pos'] = k
    return off


def _f_read(interp, self, args, kwargs):
    g = self._pv_ghost
    if args or kwargs:
        raise Unsupported('read(size) of a text file')
    if 'path' in g and '+' not in g['mode']:
        raise _pyraise(io.UnsupportedOperation('not readable'))
    pos = z3.simplify(pos_of(interp, self))
    if not (z3.is_int_value(pos) and pos.as_long() == 0) and not interp.st.must_hold(pos == 0):
        raise Unsupported('read() of a file opened for update that is not positioned at its start')
    whole = _contents_of(interp, self)
    g['pos'] = z3.Length(whole)
    return wrap(univ(interp, whole)) if 'path' in g else wrap(whole)


def _f_tell(interp, self, args, kwargs):
    """an opaque cookie for the current character position (0 exactly at the start)"""
    g = self._pv_ghost
    st = interp.st
    pos = pos_of(interp, self)
    c = st.fresh_int(self._pv_uid + '.cookie')
    st.assume(z3.And(c >= 0, (c == 0) == (pos == 0)))
    g.setdefault('cookies', {})[c.get_id()] = (c, pos)
    return SInt(c)


def _f_fileno(interp, self, args, kwargs):
    g = self._pv_ghost
    if 'fd' not in g:
        t = interp.st.fresh_int(self._pv_uid + '.fd')
        g['fd'] = SInt(t)
        interp.st.ghost.setdefault('__fds__', {})[t.get_id()] = (t, self)
    return g['fd']


def _f_close(interp, self, args, kwargs):
    self._pv_ghost['closed'] = True


def _f_enter(interp, self, args, kwargs):
    return self


class TextOutI(Interface):
    """`output: TextIO` of write_to: something text can be appended to (ghost `written`)"""
    target_class = io.TextIOBase
    attrs = {'written0': Str}
    methods = {
        'write': Method(model=_w_write),
        'writelines': Method(model=_w_writelines),
    }


class TextFileI(TextOutI):
    """a text file on disk opened for writing / update through PathI.open"""
    attrs = {'pos0': Int}
    props = {'closed': lambda interp, self: self._pv_ghost['closed']}
    methods = {
        'seek': Method(model=_f_seek),
        'read': Method(model=_f_read),
        'tell': Method(model=_f_tell),
        'flush': Method(model=lambda interp, self, args, kwargs: self._pv_ghost.__setitem__('dirty', False)),
        'fileno': Method(model=_f_fileno),
        'close': Method(model=_f_close),
        '__enter__': Method(model=_f_enter),
        '__exit__': Method(model=_f_close),
    }


# ------------------------------------------------------------------------------ a child process is given the open file
# A child process that is given an open file as stdout / stderr writes through the file DESCRIPTOR: its text goes
# to the file at the current offset of the open file description, i.e. after what has been FLUSHED.  What Python has
# written to the file OBJECT and not flushed yet reaches the file later (at the next flush / close), i.e. AFTER the
# child's text (fix 2ed9b4b in /repo: `output.flush()` before the process is started).
# Ghost of a buffered output (`BufferedOutI`): `written` -- what the file holds once everything has been flushed, in
# that order; `pending` -- the suffix of `written` that is still in the buffer of the object.

def pending_of(interp, out):
    g = out._pv_ghost
    if 'pending' not in g:
        w = written_of(interp, out)
        p = to_z3(interp.reg.opaque_getattr(interp, out, 'pending0'))
        interp.st.assume(z3.SuffixOf(p, w))
        g['pending'] = p
    return _t(g['pending'])


def _buffered(interp, out, s):
    """Python writes s to a buffered output: it is appended; any part of the buffer may be flushed on the way"""
    st = interp.st
    old_p = pending_of(interp, out)
    g = out._pv_ghost
    g['written'] = z3.simplify(z3.Concat(written_of(interp, out), _t(s)))
    p = st.fresh_str(out._pv_uid + '.pending')
    q = st.fresh_str(out._pv_uid + '.auto-flushed')
    st.assume(z3.Concat(old_p, _t(s)) == z3.Concat(q, p))
    g['pending'] = p


def _b_write(interp, self, args, kwargs):
    s = _as_text(interp, args[0])
    _buffered(interp, self, s)
    return wrap(z3.Length(to_z3(s)))


def _b_writelines(interp, self, args, kwargs):
    _buffered(interp, self, lines_text(interp, args[0]))
    return None


def _b_flush(interp, self, args, kwargs):
    pending_of(interp, self)
    self._pv_ghost['pending'] = _sv('')
    return None


def child_writes(interp, out, s):
    """A child process that was given the open file `out` writes the text s through the descriptor."""
    st = interp.st
    g = out._pv_ghost
    if 'path' in g:
        # a file opened through PathI.open: writes of the object are modelled as stored at once; sound only if
        # nothing has been written through the object since it was opened / flushed -- else the result is unknown
        p = g['path']
        if g.get('dirty', True):      # (a file object of unknown history may hold unflushed text)
            set_stored(interp, p, st.fresh_str(out._pv_uid + '.unknown-order'))
        else:
            set_stored(interp, p, _write_at_pos(interp, out, stored_of(interp, p), s))
        return
    if not isinstance(out._pv_iface, type) or not issubclass(out._pv_iface, BufferedOutI):
        raise Unsupported('a child process writes to an output without a buffer model (%s)' % out._pv_iface.__name__)
    pend = pending_of(interp, out)
    w = written_of(interp, out)
    head = st.fresh_str(out._pv_uid + '.flushed')
    st.assume(w == z3.Concat(head, pend))
    g['written'] = z3.simplify(z3.Concat(head, _t(s), pend))


def nothing_buffered(interp, f):
    """(ghost) everything written through the file object has reached the file"""
    g = f._pv_ghost
    if 'path' in g:
        return not g.get('dirty', True)
    return interp.st.must_hold(pending_of(interp, f) == _sv(''))


class BufferedOutI(TextOutI):
    """`output: TextIO` that a child process may be given: ghost `written` and its unflushed suffix `pending`"""
    attrs = {'pending0': Str}
    methods = {
        'write': Method(model=_b_write),
        'writelines': Method(model=_b_writelines),
        'flush': Method(model=_b_flush),
    }


# ------------------------------------------------------------------------------ io.StringIO(newline='\n')

def _sio_value(interp, self):
    g = self._pv_ghost
    if 'value' not in g:
        g['value'] = to_z3(interp.reg.opaque_getattr(interp, self, 'value0'))
    return _t(g['value'])


def _sio_write(interp, self, args, kwargs):
    s = _as_text(interp, args[0])
    g = self._pv_ghost
    g['value'] = _write_at_pos(interp, self, _sio_value(interp, self), s)
    return wrap(z3.Length(to_z3(s)))


def _sio_seek(interp, self, args, kwargs):
    off = args[0]
    if len(args) > 1 and args[1] != 0:
        raise Unsupported('seek with whence != SEEK_SET')
    self._pv_ghost['pos'] = _t(off)        # characters
    return off


def _sio_iter(interp, self, args, kwargs):
    """iterating a StringIO(newline='\n') from its start: the division of its value after '\n' only"""
    g = self._pv_ghost
    it = g.get('iter')
    if it is None:
        pos = z3.simplify(pos_of(interp, self))
        if not (z3.is_int_value(pos) and pos.as_long() == 0):
            raise Unsupported('iteration of a StringIO that is not positioned at its start')
        it = models.SIter(texts.lines_of_text(interp, SStr(_sio_value(interp, self))), 0)
        g['iter'] = it
    return it


class StringIOI(Interface):
    """io.StringIO(newline='\n'): no newline translation; the position counts characters, tell() is it"""
    target_class = io.StringIO
    attrs = {'value0': Str, 'pos0': Int}
    props = {'closed': lambda interp, self: self._pv_ghost.get('closed', False)}
    methods = {
        'write': Method(model=_sio_write),
        'getvalue': Method(model=lambda interp, self, args, kwargs: wrap(_sio_value(interp, self))),
        'tell': Method(model=lambda interp, self, args, kwargs: wrap(pos_of(interp, self))),
        'seek': Method(model=_sio_seek),
        'read': Method(model=_f_read),
        '__iter__': Method(model=_sio_iter),
        'flush': Method(),
        'close': Method(model=_f_close),
    }


def m_StringIO(interp, args, kwargs):
    interp.st.used_models.add('io:StringIO')
    if len(args) > 1 or kwargs.get('newline') != '\n' or set(kwargs) - {'newline'}:
        # any other StringIO (e.g. a plain buffer for a traceback) is the real one, as far as it is concrete
        from .values import contains_sym
        if any(contains_sym(a) for a in list(args) + list(kwargs.values())):
            raise Unsupported('io.StringIO with symbolic text other than StringIO([text, ]newline="\\n")')
        return io.StringIO(*args, **kwargs)
    o = new_opaque(interp, StringIOI, 'StringIO')
    init = _as_text(interp, args[0]) if args else ''
    o._pv_ghost['value'] = _t(init)
    o._pv_ghost['pos'] = z3.IntVal(0)          # also with an initial value the position is the start
    return o


class _StatResult:
    def __init__(self, st_size):
        self.st_size = st_size


def m_fstat(interp, args, kwargs):
    fd = args[0]
    ent = interp.st.ghost.get('__fds__', {}).get(to_z3(fd).get_id()) if isinstance(fd, SInt) else None
    if ent is None:
        raise Unsupported('os.fstat of a descriptor that is not the fileno() of a modelled file')
    f = ent[1]
    return _StatResult(wrap(blen(interp, stored_of(interp, f._pv_ghost['path']))))


def m_filecmp_cmp(interp, args, kwargs):
    """filecmp.cmp(a, b, shallow=False): the two files hold equal BYTES"""
    if kwargs.get('shallow', args[2] if len(args) > 2 else True) is not False:
        raise Unsupported('filecmp.cmp with shallow=True')
    a = path_of_name(interp, args[0])
    b = path_of_name(interp, args[1])
    return wrap(stored_of(interp, a) == stored_of(interp, b))


# ------------------------------------------------------------------------------ str.splitlines(keepends=True)

def _extra_break_re():
    """texts that str.splitlines divides differently from a division after '\\n' only: some boundary
    character other than '\\n' is followed by another character ('\\r' followed by '\\n' is one boundary)"""
    anyc = z3.AllChar(z3.ReSort(z3.StringSort()))
    extra_no_cr = z3.Union(*[z3.Re(_sv(c)) for c in SPLITLINES_EXTRA if c != '\r'])
    not_nl = z3.Diff(anyc, z3.Re(_sv('\n')))
    inner = z3.Union(z3.Concat(extra_no_cr, anyc), z3.Concat(z3.Re(_sv('\r')), not_nl))
    return z3.Concat(z3.Star(anyc), inner, z3.Star(anyc))


def splitlines_keepends(interp, s):
    """ASSUMED contract of s.splitlines(keepends=True): the pieces concatenate to s; if s has no extra
    boundary (see above) the result is the division after '\\n' only; otherwise it has more pieces."""
    st = interp.st
    t = to_z3(s)
    canon = texts.lines_of_text(interp, SStr(t))
    differs = z3.InRe(t, _extra_break_re())
    if st.fork(wrap(differs)):
        n = st.fresh_int('splitlines.len')
        st.assume(n > canon.length)
        uid = st.fresh_name('splitlines')
        f = z3.Function(uid + '[]', z3.IntSort(), z3.StringSort())
        xs = SList(n, lambda interp2, idx: SStr(f(texts._zi(idx))), uid)
        st.assume(to_z3(texts.join_all(interp, xs)) == t)
        return xs
    return texts.copy_slist(interp, canon)


def install(reg):
    import filecmp
    reg.models[io.StringIO] = m_StringIO
    reg.models[os.fstat] = m_fstat
    reg.models[filecmp.cmp] = m_filecmp_cmp
