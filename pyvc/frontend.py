"""Locating the real source of functions: the AST that is interpreted is parsed from the
file that the imported function object points to, on every run."""
import ast
import hashlib
import importlib
import inspect
import os
import types

from . import REPO_SRC, VERIF
from .path import Unsupported

_FILE_CACHE = {}


class FuncInfo:
    __slots__ = ('node', 'globals', 'class_name', 'qualname', 'filename', 'is_generator',
                 'local_names', 'code_key', 'params', 'source_sha', 'nonlocal_names', 'global_names')

    def __init__(self, node, globals_, class_name, qualname, filename):
        self.node = node
        self.globals = globals_
        self.class_name = class_name
        self.qualname = qualname
        self.filename = filename
        self.is_generator = _is_generator(node)
        self.local_names, self.nonlocal_names, self.global_names = _local_names(node)
        self.source_sha = None


def _is_generator(node):
    body = node.body if isinstance(node.body, list) else [node.body]

    class V(ast.NodeVisitor):
        found = False

        def visit_Yield(self, n):
            self.found = True

        def visit_YieldFrom(self, n):
            self.found = True

        def visit_FunctionDef(self, n):
            pass

        def visit_AsyncFunctionDef(self, n):
            pass

        def visit_Lambda(self, n):
            pass

        def visit_ClassDef(self, n):
            pass

    v = V()
    for s in body:
        v.visit(s)
    return v.found


def _local_names(node):
    """Names that are local to the function (assigned in its own scope)."""
    names = set()
    nonlocals = set()
    globals_ = set()
    a = node.args
    for arg in a.posonlyargs + a.args + a.kwonlyargs:
        names.add(arg.arg)
    if a.vararg:
        names.add(a.vararg.arg)
    if a.kwarg:
        names.add(a.kwarg.arg)

    class V(ast.NodeVisitor):
        def visit_Name(self, n):
            if isinstance(n.ctx, (ast.Store, ast.Del)):
                names.add(n.id)

        def visit_FunctionDef(self, n):
            names.add(n.name)
            for d in n.decorator_list:
                self.visit(d)
            for d in n.args.defaults + [x for x in n.args.kw_defaults if x is not None]:
                self.visit(d)

        visit_AsyncFunctionDef = visit_FunctionDef

        def visit_ClassDef(self, n):
            names.add(n.name)

        def visit_Lambda(self, n):
            for d in n.args.defaults:
                self.visit(d)

        def visit_ListComp(self, n):
            # comprehension targets are in their own scope; the first iterable is evaluated
            # in the enclosing scope (no stores possible except walrus, ignored)
            pass

        visit_SetComp = visit_DictComp = visit_GeneratorExp = visit_ListComp

        def visit_Import(self, n):
            for al in n.names:
                names.add((al.asname or al.name).split('.')[0])

        def visit_ImportFrom(self, n):
            for al in n.names:
                names.add(al.asname or al.name)

        def visit_Nonlocal(self, n):
            nonlocals.update(n.names)

        def visit_Global(self, n):
            globals_.update(n.names)

        def visit_ExceptHandler(self, n):
            if n.name:
                names.add(n.name)
            self.generic_visit(n)

    body = node.body if isinstance(node.body, list) else []
    v = V()
    for s in body:
        v.visit(s)
    names -= nonlocals
    names -= globals_
    return names, nonlocals, globals_


class _Indexer(ast.NodeVisitor):
    """Maps first-line numbers to function nodes, remembering the enclosing class."""

    def __init__(self):
        self.by_line = {}
        self.class_stack = []
        self.qual_stack = []

    def _add(self, node, name):
        first = node.lineno
        for d in getattr(node, 'decorator_list', []):
            first = min(first, d.lineno)
        node._pv_class_name = self.class_stack[-1] if self.class_stack else None
        node._pv_qualname = '.'.join(self.qual_stack + [name])
        self.by_line.setdefault(first, []).append(node)
        if first != node.lineno:
            self.by_line.setdefault(node.lineno, []).append(node)

    def visit_ClassDef(self, node):
        self.class_stack.append(node.name)
        self.qual_stack.append(node.name)
        self.generic_visit(node)
        self.qual_stack.pop()
        self.class_stack.pop()

    def visit_FunctionDef(self, node):
        self._add(node, node.name)
        # nested functions keep the class name for name mangling
        self.qual_stack.append(node.name)
        self.qual_stack.append('<locals>')
        self.generic_visit(node)
        self.qual_stack.pop()
        self.qual_stack.pop()

    visit_AsyncFunctionDef = visit_FunctionDef

    def visit_Lambda(self, node):
        self._add(node, '<lambda>')
        self.generic_visit(node)


def parse_file(filename):
    ent = _FILE_CACHE.get(filename)
    if ent is None:
        with open(filename, 'r', encoding='utf-8') as f:
            src = f.read()
        tree = ast.parse(src, filename)
        ix = _Indexer()
        ix.visit(tree)
        ent = (src, tree, ix.by_line)
        _FILE_CACHE[filename] = ent
    return ent


_INFO_CACHE = {}


def is_interpretable_file(filename):
    if not filename:
        return False
    filename = os.path.abspath(filename)
    return filename.startswith(REPO_SRC + os.sep) or filename.startswith(os.path.join(VERIF, 'contracts') + os.sep) \
        or filename.startswith(os.path.join(VERIF, 'pyvc', 'pymodels') + os.sep)


def funcinfo_of_code(code, globals_):
    key = code
    info = _INFO_CACHE.get(key)
    if info is not None:
        return info
    filename = code.co_filename
    src, tree, by_line = parse_file(filename)
    cands = by_line.get(code.co_firstlineno, [])
    name = code.co_name
    if name == '<lambda>':
        cands = [c for c in cands if isinstance(c, ast.Lambda)]
        if len(cands) > 1:
            # disambiguate by argument names
            argnames = list(code.co_varnames[:code.co_argcount + code.co_kwonlyargcount])
            c2 = [c for c in cands if [a.arg for a in c.args.posonlyargs + c.args.args + c.args.kwonlyargs] == argnames]
            # identical signatures: disambiguate by column if python provides positions
            if len(c2) > 1:
                try:
                    pos = next(iter(code.co_positions()))
                    col = None
                    for p in code.co_positions():
                        if p[2] is not None:
                            col = p[2]
                            break
                    c3 = [c for c in c2 if c.col_offset <= (col or 0) <= getattr(c, 'end_col_offset', 10 ** 9)]
                    if len(c3) == 1:
                        c2 = c3
                    else:
                        c3 = [c for c in c2 if c.body.col_offset <= (col or 0)]
                        c3.sort(key=lambda c: -c.col_offset)
                        if c3:
                            c2 = c3[:1]
                except Exception:
                    pass
            cands = c2
    else:
        cands = [c for c in cands if not isinstance(c, ast.Lambda) and c.name == name]
    if len(cands) != 1:
        raise Unsupported('cannot locate source of %s (%s:%d): %d candidates'
                          % (name, filename, code.co_firstlineno, len(cands)))
    node = cands[0]
    node = _with_pinned_local_names(node, globals_.get('__name__'), filename)
    info = FuncInfo(node, globals_, node._pv_class_name, node._pv_qualname, filename)
    seg = ast.get_source_segment(src, node)
    info.source_sha = hashlib.sha256((seg or '').encode()).hexdigest()
    _INFO_CACHE[key] = info
    return info


# ---------------------------------------------------------------------------------------------------------
# Renamed local variables.  Loop invariants and `locals=` shapes of the sidecar contracts name local variables of
# the functions they annotate.  A change that only renames locals (the function is the pinned one up to a
# consistent renaming of identifiers that are local to it) must not make the proof fail: such a function is
# interpreted with the pinned names put back.  baseline/pinned_names.json (written by `python3-vt -m
# pyvc.pinned_names`) holds, per function under contract, the hash of its AST with the local identifiers replaced
# by position markers and those identifiers in order of first occurrence.

_PINNED_NAMES = None


def _pinned_names():
    global _PINNED_NAMES
    if _PINNED_NAMES is None:
        import json
        try:
            with open(os.path.join(VERIF, 'baseline', 'pinned_names.json')) as f:
                _PINNED_NAMES = json.load(f)
        except (OSError, ValueError):
            _PINNED_NAMES = {}
    return _PINNED_NAMES


def _own_and_nested_locals(node):
    """identifiers that are local to the function or to a function / lambda nested in it; parameters of the
    function itself are not included (they are part of its interface)"""
    a = node.args
    params = {x.arg for x in a.posonlyargs + a.args + a.kwonlyargs}
    if a.vararg:
        params.add(a.vararg.arg)
    if a.kwarg:
        params.add(a.kwarg.arg)
    # parameters other than self / cls take part too (a renamed parameter; keyword arguments of callers are
    # translated when they are bound: Interp.bind_args)
    names = set(_local_names(node)[0]) - {p for p in params if p in ('self', 'cls')}
    for n in ast.walk(node):
        if n is not node and isinstance(n, (ast.FunctionDef, ast.AsyncFunctionDef, ast.Lambda)):
            names |= set(_local_names(n)[0])
        elif isinstance(n, (ast.ListComp, ast.SetComp, ast.DictComp, ast.GeneratorExp)):
            for g in n.generators:
                for t in ast.walk(g.target):
                    if isinstance(t, ast.Name):
                        names.add(t.id)
    # names that also appear as something that is not renamed (keyword of a call, attribute, import) stay
    fixed = set()
    for n in ast.walk(node):
        if isinstance(n, ast.keyword) and n.arg:
            fixed.add(n.arg)
        elif isinstance(n, (ast.Import, ast.ImportFrom)):
            for al in n.names:
                fixed.add((al.asname or al.name).split('.')[0])
        elif isinstance(n, (ast.FunctionDef, ast.AsyncFunctionDef, ast.ClassDef)) and n is not node:
            fixed.add(n.name)
        elif isinstance(n, (ast.Global,)):
            fixed.update(n.names)
    return names - fixed - {p for p in params if p in ('self', 'cls')}


def _identifier_slots(node):
    """(object, attribute) of every identifier occurrence that a renaming of locals touches, in source order"""
    out = []

    def visit(n):
        if isinstance(n, ast.Name):
            out.append((n, 'id'))
        elif isinstance(n, ast.arg):
            out.append((n, 'arg'))
        elif isinstance(n, ast.ExceptHandler) and n.name:
            out.append((n, 'name'))
        elif isinstance(n, ast.Nonlocal):
            out.append((n, 'names'))
        for ch in ast.iter_child_nodes(n):
            visit(ch)

    visit(node)
    return out


def alpha_signature(node):
    """(sha256 of the AST with local identifiers replaced by position markers, the identifiers in order of first
    occurrence).  Lambdas have no signature (None)."""
    if not isinstance(node, (ast.FunctionDef, ast.AsyncFunctionDef)):
        return None
    import copy
    names = _own_and_nested_locals(node)
    tree = copy.deepcopy(node)
    order = []
    for obj, attr in _identifier_slots(tree):
        v = getattr(obj, attr)
        if attr == 'names':
            new = []
            for x in v:
                if x in names:
                    if x not in order:
                        order.append(x)
                    new.append('_v%d' % order.index(x))
                else:
                    new.append(x)
            obj.names = new
        elif v in names:
            if v not in order:
                order.append(v)
            setattr(obj, attr, '_v%d' % order.index(v))
    digest = hashlib.sha256(ast.dump(tree, include_attributes=False).encode()).hexdigest()
    return digest, order


def _with_pinned_local_names(node, modname, filename):
    if not isinstance(node, (ast.FunctionDef, ast.AsyncFunctionDef)) or not modname:
        return node
    pin = _pinned_names().get('%s:%s' % (modname, node._pv_qualname))
    if not pin:
        return node
    digest, order = alpha_signature(node)
    if digest == pin['alpha'] and order != pin['order'] and len(order) == len(pin['order']):
        mapping = dict(zip(order, pin['order']))
    else:
        # not the pinned function up to renaming; renamed PARAMETERS alone (same number, same kinds) are still
        # put back: contracts name parameters
        a = node.args
        cur = [x.arg for x in a.posonlyargs + a.args + a.kwonlyargs]
        old = pin.get('params')
        if not old or len(old) != len(cur) or old == cur or \
                [len(a.posonlyargs), len(a.args), len(a.kwonlyargs)] != pin.get('param_kinds'):
            return node
        mapping = {c: o for c, o in zip(cur, old) if c != o}
        if set(mapping) & set(old) or len(set(mapping.values())) != len(mapping):
            return node         # a permutation of names: not handled
    # no capture: a pinned name that is put back must not be in use for something else in the new text
    others = set()
    for obj, attr in _identifier_slots(node):
        v = getattr(obj, attr)
        for x in (v if attr == 'names' else [v]):
            if x not in mapping:
                others.add(x)
    if set(mapping.values()) & others:
        return node
    import copy
    tree = copy.deepcopy(node)
    for obj, attr in _identifier_slots(tree):
        v = getattr(obj, attr)
        if attr == 'names':
            obj.names = [mapping.get(x, x) for x in v]
        elif v in mapping:
            setattr(obj, attr, mapping[v])
    tree._pv_renamed_locals = {k: v for k, v in mapping.items() if k != v}
    a = node.args
    own_params = {x.arg for x in a.posonlyargs + a.args + a.kwonlyargs}
    tree._pv_renamed_params = {k: v for k, v in tree._pv_renamed_locals.items() if k in own_params}
    return tree


def funcinfo_of(func):
    """FuncInfo of a real Python function object whose source is in an interpretable file."""
    return funcinfo_of_code(func.__code__, func.__globals__)


def resolve_qualified(qname):
    """'pkg.mod:Class.method' -> (object, owner class or None).  Raises LookupError."""
    modname, _, path = qname.partition(':')
    try:
        mod = importlib.import_module(modname)
    except Exception as ex:
        raise LookupError('contract target missing: cannot import %s (%s)' % (modname, ex))
    obj = mod
    owner = None
    parts = path.split('.') if path else []
    for p in parts:
        owner = obj if inspect.isclass(obj) else None
        if inspect.isclass(obj):
            # static lookup, to get at the raw function / property / staticmethod
            found = None
            for k in obj.__mro__:
                if p in k.__dict__:
                    found = k.__dict__[p]
                    break
                mangled = '_%s%s' % (k.__name__.lstrip('_'), p)
                if p.startswith('__') and not p.endswith('__') and mangled in k.__dict__:
                    found = k.__dict__[mangled]
                    break
            if found is None:
                raise LookupError('contract target missing: %s' % qname)
            obj = found
        else:
            if not hasattr(obj, p):
                raise LookupError('contract target missing: %s' % qname)
            obj = getattr(obj, p)
    return obj, owner


def raw_function(obj):
    """Underlying plain function of a function / staticmethod / classmethod / property getter."""
    if isinstance(obj, (staticmethod, classmethod)):
        return obj.__func__
    if isinstance(obj, property):
        return raw_function(obj.fget)      # e.g. a property whose getter is a @contextmanager generator
    if isinstance(obj, types.MethodType):
        return obj.__func__
    if hasattr(obj, '__wrapped__') and isinstance(obj, types.FunctionType) and \
            obj.__code__.co_filename.endswith('contextlib.py'):
        return obj.__wrapped__
    return obj
