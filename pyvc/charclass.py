"""Character-class measures over symbolic strings.

``all_chars(s, pred)`` ("every character of s satisfies pred") is, for each character predicate, an
uninterpreted function  A : String -> Bool  that is a homomorphism from string concatenation to
conjunction:  A('') , A(a . b) == A(a) and A(b) , and A(c) == pred(c) for a single character c.
The homomorphism axiom is instantiated at every concatenation / decomposition the engine performs
(strings.note_concat) and at every application (over the most refined known pieces of the argument),
exactly like the counting measure of strings.py.  Two predicates whose formula on a generic character
is equivalent share one function (decided by the solver, independently of the path condition).

Models built on it: itertools.takewhile(pred, <str>) (+ ''.join of it): the longest prefix all of whose
characters satisfy pred.
"""
try:
    import z3
except ImportError:      # replays run under the repository's interpreter, without z3
    z3 = None

from .path import Unsupported
from .values import SBool, SStr, Sym, to_z3, wrap
from . import strings


class CharClass:
    __slots__ = ('ch', 'phi', 'fn', 'index', 'relevant')

    def __init__(self, ch, phi, fn, index):
        self.ch = ch          # the generic character (z3 String constant of length 1)
        self.phi = phi        # z3 Bool term over ch
        self.fn = fn          # z3 Function String -> Bool
        self.index = index
        self.relevant = {}    # ids of the terms the measure has been applied to, and of their pieces: the
        #                       homomorphism axiom is instantiated only at decompositions of these

    def at(self, t):
        """pred applied to the one-character string term t"""
        return z3.substitute(self.phi, (self.ch, t))


def _registry(interp):
    return interp.st.ghost.setdefault('__charclasses__', [])


def _mentions(t, c):
    from .models import _mentions as m
    return m(t, c)


def class_of(interp, pred):
    """The CharClass of a pure predicate on one-character strings (evaluated once on a generic character)."""
    from .interp import PyRaise
    st = interp.st
    cache = st.ghost.setdefault('__charclass_cache__', {})
    import types
    ck = pred if isinstance(pred, types.FunctionType) else None
    if ck is not None and ck in cache:
        return cache[ck]
    ch = st.fresh_str('ch')
    st.assume(z3.Length(ch) == 1)
    strings.known_single_char(interp, ch)
    n_pc = len(st.pc)
    n_tr = len(st.trace)
    st.no_fork += 1
    try:
        try:
            v = interp.truth(interp.call(pred, [SStr(ch)], {}))
        except PyRaise as e:
            raise Unsupported('character predicate raises on a generic character: %r' % (e.exc,))
    finally:
        st.no_fork -= 1
    if len(st.trace) != n_tr:
        raise Unsupported('character predicate has ghost effects')
    for t in st.pc[n_pc:]:
        if _mentions(t, ch):
            raise Unsupported('character predicate is not transparent (a contract was applied to the generic '
                              'character): give it inline=True')
    phi = to_z3(v) if not isinstance(v, bool) else z3.BoolVal(v)
    reg = _registry(interp)
    found = None
    for cc in reg:
        other = z3.substitute(phi, (ch, cc.ch))
        if other.eq(cc.phi):
            found = cc
            break
        s = z3.Solver()
        s.set('timeout', 2000)
        s.add(z3.Length(cc.ch) == 1)
        s.add(other != cc.phi)
        if s.check() == z3.unsat:
            found = cc
            break
    if found is None:
        fn = z3.Function('allchars!%d' % len(reg), z3.StringSort(), z3.BoolSort())
        found = CharClass(ch, phi, fn, len(reg))
        reg.append(found)
        st._add(fn(z3.StringVal('')))
    if ck is not None:
        cache[ck] = found
    return found


def _facts(interp, cc, p):
    """basic facts of A on the term p"""
    st = interp.st
    if z3.is_string_value(p):
        sv = p.as_string()
        if not strings._has_escape_val(p):
            st._add(cc.fn(p) == z3.And(*[cc.at(strings._charval(c)) for c in sv]) if sv else cc.fn(p))
        return
    key = ('__charclass_facts__', cc.index, p.get_id())
    if key in st.ghost:
        return
    st.ghost[key] = p
    # valid for every string p: added outside any merge scope
    st._add(z3.Implies(z3.Length(p) == 0, cc.fn(p)))
    st._add(z3.Implies(z3.Length(p) == 1, cc.fn(p) == cc.at(p)))


def note_concat(interp, whole, parts, only=None):
    """whole == concat(parts): instantiate the homomorphism axiom of every registered class."""
    reg = interp.st.ghost.get('__charclasses__')
    if not reg:
        return
    st = interp.st
    for cc in reg:
        if only is not None and cc is not only:
            continue
        if whole.get_id() not in cc.relevant:
            continue
        for p in parts:
            cc.relevant[p.get_id()] = p
        if len(parts) > 1:
            st.assume(cc.fn(whole) == z3.And(*[cc.fn(p) for p in parts]))
        elif not parts[0].eq(whole):
            st.assume(cc.fn(whole) == cc.fn(parts[0]))
        for p in list(parts) + [whole]:
            _facts(interp, cc, p)


def apply(interp, cc, s):
    """A(s) as a value (bool / SBool)"""
    st = interp.st
    if isinstance(s, str):
        t = z3.StringVal(s)
        if not strings._has_escape_val(t):
            return wrap(z3.And(*[cc.at(strings._charval(c)) for c in s])) if s else True
    t = strings._s(s)
    _make_relevant(interp, cc, t, 0)
    return wrap(cc.fn(t))


def _make_relevant(interp, cc, t, depth):
    """the measure is (about to be) applied to t: instantiate the homomorphism axiom at every known visible
    decomposition of t, and of the pieces"""
    st = interp.st
    if z3.is_string_value(t):
        _facts(interp, cc, t)
        return
    key = ('__charclass_rel__', cc.index, t.get_id())
    seen = st.ghost.get(key)
    cc.relevant[t.get_id()] = t
    _facts(interp, cc, t)
    if depth > 8:
        return
    decs = list(strings._visible_decomps(interp, t))
    n_seen = seen if seen is not None else 0
    st.ghost[key] = max(n_seen, len(strings._decomps(interp, t)))
    for d in decs:
        did = id(d)
        k2 = ('__charclass_dec__', cc.index, t.get_id(), did)
        if k2 in st.ghost:
            continue
        st.ghost[k2] = d
        pieces = list(d)
        if len(pieces) > 1:
            st.assume(cc.fn(t) == z3.And(*[cc.fn(p) for p in pieces]))
        elif pieces and not pieces[0].eq(t):
            st.assume(cc.fn(t) == cc.fn(pieces[0]))
        for p in pieces:
            _make_relevant(interp, cc, p, depth + 1)


def m_all_chars(interp, args, kwargs):
    """model of contracts.common.all_chars(s, pred)"""
    s, pred = args
    from .values import SOpt, SChoice
    if isinstance(s, (SOpt, SChoice)):
        s = interp.resolve(s)
    if not isinstance(s, (str, SStr)):
        raise Unsupported('all_chars of %r' % type(s).__name__)
    return apply(interp, class_of(interp, pred), s)


class SCharIter:
    """The characters of the string ``s`` as an iterable of one-character strings (only ''.join is modelled)."""

    def __init__(self, s):
        self.s = s


def m_takewhile(interp, args, kwargs):
    """itertools.takewhile(pred, iterable).  For a symbolic string: the characters of its longest prefix all of
    whose characters satisfy pred (pred must be a pure predicate)."""
    pred, src = args
    from .values import SOpt, SChoice
    if isinstance(src, (SOpt, SChoice)):
        src = interp.resolve(src)
    if not isinstance(src, SStr):
        def gen():
            for x in interp.iterate(src):
                if not interp.branch(interp.call(pred, [x], {})):
                    return
                yield x

        return gen()
    st = interp.st
    cc = class_of(interp, pred)
    t = src.t
    # the result is computed once per (class, string term) and path; it is also the value of an uninterpreted
    # function of the string, so that equal strings (different terms) provably have equal results
    cache = st.ghost.setdefault('__takewhile__', {})
    key = (cc.index, t.get_id())
    ent = cache.get(key)
    if ent is not None and strings._visible(interp, ent[1]):
        return SCharIter(ent[0])
    f = z3.Function('takewhile!%d' % cc.index, z3.StringSort(), z3.StringSort())
    whole = apply(interp, cc, src)
    if st.fork(whole):
        st.assume(t == f(t))
        res = src
    else:
        p, c, r = strings.decompose(interp, t, [None, 1, None], 'takewhile')
        _make_relevant(interp, cc, p, 0)
        st.assume(cc.fn(p))
        st.assume(z3.Not(cc.at(c)))
        st.assume(p == f(t))
        res = wrap(p)
    cache[key] = (res, strings._dec(interp, []), t)
    return SCharIter(res)


# ------------------------------------------------------------------------------ str.isX() / str.strip() by character class

ALL_CHARS_PREDICATES = ('isspace', 'isalnum', 'isalpha', 'isdigit', 'isdecimal', 'isnumeric')


def class_of_upred(interp, name):
    """the class of the characters c with c.<name>() (e.g. isspace)"""
    st = interp.st
    key = '__charclass_upred__' + name
    cc = st.ghost.get(key)
    if cc is None:
        ch = st.fresh_str('ch')
        st._add(z3.Length(ch) == 1)
        strings.known_single_char(interp, ch)
        v = strings._upred(interp, name, SStr(ch))
        phi = to_z3(v) if not isinstance(v, bool) else z3.BoolVal(v)
        reg = _registry(interp)
        fn = z3.Function('allchars!%d' % len(reg), z3.StringSort(), z3.BoolSort())
        cc = CharClass(ch, phi, fn, len(reg))
        reg.append(cc)
        st._add(fn(z3.StringVal('')))
        st.ghost[key] = cc
    return cc


def upred_of_string(interp, name, s):
    """s.<name>() for the predicates that mean `s is not empty and every character of s is <name>`"""
    t = strings._s(s)
    cc = class_of_upred(interp, name)
    a = apply(interp, cc, s)
    return wrap(z3.And(z3.Length(t) > 0, to_z3(a)))


def strip_space(interp, s, left, right):
    """s.strip() / lstrip() / rstrip() without argument: white space is the class of str.isspace.
    The result is an uninterpreted function of s (equal arguments give syntactically equal results) defined
    by  s == a . r . b,  a and b consist of white space only, r neither starts nor ends with white space."""
    st = interp.st
    t = strings._s(s)
    cc = class_of_upred(interp, 'isspace')
    kind = ('l' if left else '') + ('r' if right else '')
    f = z3.Function('str.%sstrip[space]' % {'lr': '', 'l': 'l', 'r': 'r'}[kind], z3.StringSort(), z3.StringSort())
    key = ('__strip_space__', kind, t.get_id())
    if key in st.ghost:
        return wrap(st.ghost[key][1])
    if key not in st.ghost:
        # the result is a constant r with r == f(t): the word equations below then contain no function
        # application (much easier for the string solvers), congruence is kept by r == f(t)
        r = strings._fresh(interp, 'stripped')
        st._add(r == f(t))
        st.ghost[key] = (t, r)
        a = strings._fresh(interp, 'strip.l') if left else z3.StringVal('')
        b = strings._fresh(interp, 'strip.r') if right else z3.StringVal('')
        # valid for every string t (the pieces are fresh): outside any merge scope
        st._add(t == strings._cat([a, r, b]))
        if left:
            st._add(cc.fn(a))
            c1 = strings._fresh(interp, 'strip.first')
            m1 = strings._fresh(interp, 'strip.m')
            st._add(z3.Or(r == z3.StringVal(''),
                          z3.And(r == z3.Concat(c1, m1), z3.Length(c1) == 1, z3.Not(cc.at(c1)))))
        if right:
            st._add(cc.fn(b))
            c2 = strings._fresh(interp, 'strip.last')
            m2 = strings._fresh(interp, 'strip.m')
            st._add(z3.Or(r == z3.StringVal(''),
                          z3.And(r == z3.Concat(m2, c2), z3.Length(c2) == 1, z3.Not(cc.at(c2)))))
        # a stripped result that is not empty contains a character that is not white space
        st._add(z3.Or(r == z3.StringVal(''), z3.Not(cc.fn(r))))
        pieces = [x for x in (a, r, b) if not (z3.is_string_value(x) and x.as_string() == '')]
        strings._decomps(interp, t).append(strings.Dec(pieces))
        saved = st.scopes
        st.scopes = []
        try:
            _make_relevant(interp, cc, t, 0)
            strings.note_concat(interp, t, [a, r, b])
            for x in (a, b, r):
                if not z3.is_string_value(x):
                    _facts(interp, cc, x)
        finally:
            st.scopes = saved
    return wrap(r)


def contains_link(interp, container, ch):
    """`ch in container` is being asked for a one-character constant ch: for every character class the container
    is known to (measure applied to it) that provably excludes ch, state  A(container) ==> ch not in container
    (a valid consequence of the definition of the measure, instantiated on demand)."""
    reg = interp.st.ghost.get('__charclasses__')
    if not reg or not isinstance(ch, str) or len(ch) != 1:
        return
    st = interp.st
    t = strings._s(container)
    if z3.is_string_value(t):
        return
    for cc in reg:
        if t.get_id() not in cc.relevant:
            continue
        key = ('__charclass_in__', cc.index, t.get_id(), ch)
        if key in st.ghost:
            continue
        st.ghost[key] = True
        phi_c = z3.simplify(cc.at(strings._charval(ch)))
        if z3.is_false(phi_c) or (not z3.is_true(phi_c) and st.must_hold(z3.Not(phi_c))):
            st._add(z3.Implies(cc.fn(t), z3.Not(z3.Contains(t, z3.StringVal(ch)))))


def contains_link_pattern(interp, t, u):
    """a constant pattern u is searched in the term t: apply contains_link to every piece of t, for every
    character of u"""
    reg = interp.st.ghost.get('__charclasses__')
    if not reg or not z3.is_string_value(u) or strings._has_escape_val(u):
        return
    uv = u.as_string()
    if not uv or len(uv) > 4:
        return
    for p in strings._flat_concat(strings.norm(interp, t)) + [t]:
        if z3.is_string_value(p):
            continue
        for c in sorted(set(uv)):
            contains_link(interp, wrap(p), c)
