"""Development aid:  python3-vt -m pyvc.debug <qualified-name-substring>  -- prints every path."""
import os, sys, threading
sys.setrecursionlimit(20000)
threading.stack_size(256 * 1024 * 1024)
from . import check, verify, smt, re_model
from .path import PathState, PathAbort, RetryPath, Unsupported
from .interp import Interp, PyRaise
import z3, traceback


def run(sub):
    mods = check.load_modules()
    reg = check.build_registry(mods)
    check._REG = reg
    for q, why in reg.missing:
        print('MISSING', q, why)
    for q, c in reg.contracts.items():
        if sub not in q or c.func is None:
            continue
        print('=====', q)
        rep = verify.verify_function(reg, c)
        print('paths', rep.paths, 'aborted', rep.aborted_paths, 'outcomes', rep.outcomes)
        for q in rep.slow_queries:
            print('  SLOW', q)
        for u in rep.unsupported:
            print('  UNSUPPORTED', u)
        for e in rep.errors:
            print('  ERROR', e)
        for name, insts in rep.obligations.items():
            for (pc, goal, meta, dec) in insts:
                v = smt.discharge(pc, goal)
                flag = {'unsat': 'ok  ', 'sat': 'FAIL', 'unknown': '????'}[v.status]
                print('  %s %s  [%s %.2fs] dec[%d]' % (flag, name, v.backend, v.time, len(dec)))
                if v.status != 'unsat':
                    print('       meta', meta)
                    print('       goal', str(goal)[:1500])
                    if v.status == 'sat':
                        print('       model', smt.model_to_dict(v.model))
                    if '--split' in sys.argv and z3.is_and(goal):
                        for ci, conj in enumerate(goal.children()):
                            v2 = smt.discharge(pc, conj)
                            print('       conjunct %d: %s [%.2fs] %s' % (ci, v2.status, v2.time, str(conj)[:300].replace('\n', ' ')))
                    if '--pc' in sys.argv:
                        for t in pc:
                            print('       pc  ', str(t)[:int(os.environ.get('PYVC_PC_WIDTH', '300'))])


if __name__ == '__main__':
    th = threading.Thread(target=run, args=(sys.argv[1],))
    th.start()
    th.join()
