"""Sequences of strings of symbolic length: the prefix-join measure, in-place append, iterators,
the canonical division of a text into lines.

prefix_join(xs, i) == xs[0] + ... + xs[i-1] is a *measure* over the list: an uninterpreted function
`join[uid] : Int -> String` per list with the defining equations
    join(0) == ''            join(i+1) == join(i) + xs[i]     (0 <= i < len)
instantiated at the index terms the proof mentions (loop indices, lengths), never as a quantified
axiom (the string solvers do not cope with those).  Accumulators built by `append` carry the
measure incrementally, so `''.join(acc)` is a term, not a loop.
"""
try:
    import z3
except ImportError:      # replays run under the repository's interpreter, without z3
    z3 = None

from .path import Unsupported
from .values import SInt, SBool, SStr, SOpt, SChoice, SList, Sym, Opaque, to_z3, wrap
from . import models


def _pyraise(e):
    from .interp import PyRaise
    return PyRaise(e)


def _scalar(v):
    return isinstance(v, (SInt, SBool, SStr, int, str, bool)) and not isinstance(v, (SOpt, SChoice))


def _zi(t):
    if isinstance(t, int):
        return z3.IntVal(t)
    if isinstance(t, SInt):
        return t.t
    return t


# ------------------------------------------------------------------------------ lists

def copy_slist(interp, xs):
    """list(xs): a new list object with the same elements (mutations of the copy do not affect xs)."""
    from .mlist import MList
    from . import seqs
    if isinstance(xs, MList):
        return xs.copy(interp)
    ys = seqs.copy(xs)            # a mutable cell whose structural normal form is [xs]
    ys.aux = {}
    return ys


def _aux(xs):
    return xs.aux


# ------------------------------------------------------------------------------ prefix join

def _jfun(interp, xs):
    a = _aux(xs)
    j = a.get('jfun')
    if j is None:
        if a.get('nojoin'):
            raise _pyraise(TypeError('sequence item: expected str instance'))
        n = z3.simplify(xs.length)
        if z3.is_int_value(n) and n.as_long() == 0 and xs.immutable and type(xs) is SList:
            j = lambda t: z3.StringVal('')
        else:
            f = z3.Function(interp.st.fresh_name('join[%s]' % xs.uid), z3.IntSort(), z3.StringSort())
            interp.st._add(f(z3.IntVal(0)) == z3.StringVal(''))       # definitional: outside any merge scope
            j = lambda t, f=f: f(_zi(t))
            a['base'] = True
        a['jfun'] = j
    return j


def _unfold(interp, xs, t):
    """instantiate  0 <= t < len  ->  join(t+1) == join(t) + xs[t]"""
    a = _aux(xs)
    if not a.get('base'):
        return            # accumulators: the measure is defined by the appends themselves
    t = z3.simplify(_zi(t))
    st = interp.st
    n = xs.length
    from .gens import YSeq
    if isinstance(xs, YSeq) and xs.shape is None:
        return            # nothing yielded yet on this path
    key = t.sexpr() if xs.immutable else '%s|%s' % (t.sexpr(), z3.simplify(n).sexpr())
    done = a.setdefault('unfolded', set())
    if key in done:
        return
    done.add(key)
    if z3.is_int_value(t) and t.as_long() < 0:
        return
    if isinstance(xs, YSeq):
        # the items are one fixed (ghost) function of the position; only the length changes: the defining
        # equation holds at every position >= 0, whatever the current length
        if xs.shape is None:
            return
        guard = t >= 0
    else:
        guard = z3.And(t >= 0, t < n)
    if st.must_hold(z3.Not(guard)):
        return
    j = a['jfun']
    with st.scope(guard):
        st.no_fork += 1
        try:
            e = models.slist_elem(interp, xs, t)
        except Unsupported:
            return        # the element at this index needs a case split (a derived sequence): no instance here
        finally:
            st.no_fork -= 1
    if not isinstance(e, (SStr, str)):
        raise _pyraise(TypeError('sequence item: expected str instance'))
    st._add(z3.Implies(guard, j(t + 1) == z3.Concat(j(t), to_z3(e))))       # definitional: outside any merge scope
    st._add(z3.Implies(guard, z3.Length(j(t + 1)) == z3.Length(j(t)) + z3.Length(to_z3(e))))


def prefix_join(interp, xs, i):
    """the term join(xs[:i]) (0 <= i <= len(xs) is the caller's business, as for a slice)"""
    if isinstance(xs, (list, tuple)):
        k = i if isinstance(i, int) else None
        if k is None:
            raise Unsupported('prefix_join of a concrete list at a symbolic index')
        out = ''
        for x in xs[:k]:
            out = interp.binop(__import__('ast').Add, out, x)
        return out
    if not isinstance(xs, SList):
        raise Unsupported('prefix_join of %r' % (xs,))
    from .mlist import MList
    if isinstance(xs, MList):
        # a mutable list: ONE join measure, that of pyvc.mlist (the fold over what has been appended to the
        # havocked base), so that `''.join(xs)` in code and `join_of(xs)` in a clause are the same term
        if z3.simplify(_zi(i) == xs.length).eq(z3.BoolVal(True)):
            from . import mlist
            return mlist.join(interp, '', xs)
        raise Unsupported('prefix_join of a mutable list at an index other than its length')
    from . import seqs
    parts = seqs.parts_of(xs)
    if len(parts) == 1 and parts[0][0] == 'base' and parts[0][1] is not xs:
        return prefix_join(interp, parts[0][1], i)       # a copy (`list(xs)`): the measure of the original
    if len(parts) > 1 and z3.simplify(_zi(i) == xs.length).eq(z3.BoolVal(True)):
        return join_all(interp, xs)
    j = _jfun(interp, xs)
    t = z3.simplify(_zi(i))
    _unfold(interp, xs, z3.simplify(t - 1))
    _unfold(interp, xs, t)
    return wrap(j(t))


def m_prefix_join(interp, args, kwargs):
    xs, i = args
    if isinstance(xs, (SOpt, SChoice)):
        xs = interp.resolve(xs)
    return prefix_join(interp, xs, i)


def join_all(interp, xs):
    """''.join(xs).  A sequence in structural normal form (a concatenation of single elements and base
    sequences, seqs.parts_of) is joined piece by piece: join(x ++ y) == join(x) + join(y); a base sequence
    by its prefix-join measure."""
    from . import seqs
    parts = seqs.parts_of(xs)
    if len(parts) == 1 and parts[0][0] == 'base' and parts[0][1] is xs:
        return prefix_join(interp, xs, wrap(xs.length))
    out = ''
    import ast as _ast
    for kind, v in parts:
        if kind == 'elem':
            if isinstance(v, (SOpt, SChoice)):
                v = interp.resolve(v)
            if not isinstance(v, (SStr, str)):
                raise _pyraise(TypeError('sequence item: expected str instance'))
            piece = v
        else:
            piece = join_all(interp, v)
        out = interp.binop(_ast.Add, out, piece) if not (isinstance(out, str) and out == '') else piece
    return out


def join_iter(interp, it):
    """''.join(it) for an iterator over a symbolic list: the join of what is left; consumes it."""
    xs = it.xs
    pos = z3.simplify(_zi(it.pos))
    n = xs.length
    if z3.is_int_value(pos) and pos.as_long() == 0:
        r = join_all(interp, xs)
    else:
        whole = to_z3(join_all(interp, xs))
        head = to_z3(prefix_join(interp, xs, wrap(pos)))
        rest = interp.st.fresh_str('rest')
        interp.st.assume(whole == z3.Concat(head, rest))
        # nothing left: the rest is empty (join(len) == join(pos) when pos == len)
        r = wrap(rest)
    it.pos = wrap(n)
    return r


def rest_of_iter(interp, it):
    """list(it): the elements that are left, as a list; consumes the iterator."""
    xs = it.xs
    pos = z3.simplify(_zi(it.pos))
    if z3.is_int_value(pos) and pos.as_long() == 0:
        ys = copy_slist(interp, xs)
    else:
        from . import seqs
        ys = seqs.slice_(interp, xs, slice(wrap(pos), None, None))
    it.pos = wrap(xs.length)
    return ys


# ------------------------------------------------------------------------------ spec functions (models)

def m_peek(interp, args, kwargs):
    (it,) = args
    if isinstance(it, (SOpt, SChoice)):
        it = interp.resolve(it)
    it = models.as_siter(interp, it)
    if isinstance(it, models.SIter):
        pos = it.pos
        ys = rest_of_iter(interp, it)
        it.pos = pos
        return ys
    if isinstance(it, (SList, list, tuple)):
        return it
    raise Unsupported('peek of %r' % (it,))


def m_is_find(interp, args, kwargs):
    """is_find(i, s, sub): i == s.find(sub), evaluated through the shared decomposition of s"""
    i, s, sub = args
    r = interp.call(interp.getattr(s, 'find'), [sub], {}) if isinstance(s, Sym) else s.find(sub)
    return interp.eq(i, r)


# ------------------------------------------------------------------------------ lines of a text

def _nl():
    return z3.StringVal('\n')


def _body_fn():
    return z3.Function('line_body', z3.StringSort(), z3.StringSort())


def line_body_axioms(x):
    """line_body(x) is x without its final '\n', if it has one (defining equations, valid for every string)"""
    b = _body_fn()(x)
    ends = z3.SuffixOf(_nl(), x)
    return [z3.Implies(ends, x == z3.Concat(b, _nl())), z3.Implies(z3.Not(ends), b == x)]


def _line_body_of_concat(interp, whole, parts):
    """line_body is a measure over concatenation: if whole == p1 . ... . pk and pk is not empty then
    line_body(whole) == p1 . ... . line_body(pk)  (valid for all strings; self-guarded)"""
    if len(parts) < 2:
        return
    st = interp.st
    last = parts[-1]
    if z3.is_string_value(last):
        lv = last.as_string()
        if not lv.endswith('\n'):
            return
        rest = z3.StringVal(lv[:-1])
        guard = whole == z3.Concat(*parts)
        body = z3.Concat(*(list(parts[:-1]) + [rest])) if lv[:-1] or len(parts) > 2 else parts[0]
        st._add(z3.Implies(guard, _body_fn()(whole) == body))
        return
    key = ('__lb_concat__', whole.get_id(), last.get_id())
    if key in st.ghost:
        return
    st.ghost[key] = (whole, last)
    # for a non-empty pk (whether it ends in '\n' or not): line_body(whole) == p1 . ... . line_body(pk)
    # (pk ends in '\n': both sides are whole[:-1]; it does not: neither does whole, both sides are whole) --
    # ONE equation without a case distinction on the ending, which is what the string solvers get lost in
    guard = z3.And(whole == z3.Concat(*parts), z3.Length(last) > 0)
    pieces = list(parts[:-1]) + [_body_fn()(last)]
    rhs = z3.Concat(*pieces)
    st._add(z3.Implies(guard, _body_fn()(whole) == rhs))
    # a ONE-character string occurs in a concatenation iff it occurs in one of the pieces (valid for all strings):
    # stated for '\n' and the body of the concatenation, it makes "no new-line in the body of a + b" a matter of
    # propositional reasoning (is_line of a pending line joined with the first line of the next part)
    st._add(z3.Contains(rhs, _nl()) == z3.Or(*[z3.Contains(p, _nl()) for p in pieces]))
    for ax in line_body_axioms(last):
        st._add(ax)


def _skip_concat(interp, whole, parts):
    """(law switched off) the concatenation is remembered as dealt with: a later activation does not go back to it"""
    if len(parts) >= 2 and not z3.is_string_value(parts[-1]):
        interp.st.ghost.setdefault(('__lb_concat__', whole.get_id(), parts[-1].get_id()), (whole, parts[-1]))


def m_line_body_over_concat_off(interp, args, kwargs):
    """spec function (returns True): from here on the law of `line_body_over_concat()` is NOT instantiated at the
    concatenations that are made (until it is switched on again) -- fewer hypotheses where it is not needed"""
    interp.st.ghost['__on_concat__'] = _skip_concat
    return True


def _activate_line_body(interp):
    st = interp.st
    if st.ghost.get('__on_concat__') is not _line_body_of_concat:
        st.ghost['__on_concat__'] = _line_body_of_concat
        for whole, parts in list(st.ghost.get('__explicit_concats__', [])):
            _line_body_of_concat(interp, whole, parts)


def m_line_body_over_concat(interp, args, kwargs):
    """spec function (returns True): from here on, and for the concatenations made so far, instantiate the law
    line_body(a + b) == a + line_body(b) for b ending in '\n' (a consequence of the definition of line_body)"""
    _activate_line_body(interp)
    return True


def is_line_term(x):
    """|x| > 0 and no '\n' in x except possibly as the last character: no '\n' in line_body(x).
    (No fresh symbols: usable under quantifiers.  The decomposition x == line_body(x) [+ '\n'] is what the
    string solvers handle well; `substr(x, 0, |x|-1)` is what they do not.)"""
    return z3.And(z3.Length(x) > 0, z3.Not(z3.Contains(_body_fn()(x), _nl())))


def m_is_line(interp, args, kwargs):
    (x,) = args
    if isinstance(x, (SOpt, SChoice)):
        x = interp.resolve(x)
    if isinstance(x, str):
        return x != '' and '\n' not in x[:-1]
    t = to_z3(x)
    for ax in line_body_axioms(t):
        interp.st._add(ax)          # definitional; under a quantifier the engine generalises it over the bound index
    return wrap(is_line_term(t))


def m_line_body(interp, args, kwargs):
    """spec function: a line without its final new-line"""
    (x,) = args
    if isinstance(x, str):
        return x[:-1] if x.endswith('\n') else x
    t = to_z3(x)
    for ax in line_body_axioms(t):
        interp.st._add(ax)
    return wrap(_body_fn()(t))


def _lines_fns():
    s, i = z3.StringSort(), z3.IntSort()
    return (z3.Function('nlines', s, i), z3.Function('line_at', s, i, s), z3.Function('lines_prefix', s, i, s))


def m_nlines(interp, args, kwargs):
    (t,) = args
    n, _, _ = _lines_fns()
    r = n(to_z3(t))
    interp.st.assume(r >= 0)
    return wrap(r)


def m_line_at(interp, args, kwargs):
    t, j = args
    _, la, _ = _lines_fns()
    return wrap(la(to_z3(t), _zi(j)))


def lines_of_text(interp, t):
    """The canonical division of text t into lines, as a list: length nlines(t), j-th element line_at(t, j),
    prefix join lines_prefix(t, i).  The characterisation `is_split_nl` of this list is ASSUMED here: it is
    the definition of the (mathematical) functions nlines / line_at; consistency is the existence of
    split_nl (bounded-checked natively in C14 `lemmas`)."""
    nl, la, lp = _lines_fns()
    tt = to_z3(t)
    st = interp.st
    key = ('__lines_of__', tt.get_id())
    ent = st.ghost.get(key)
    if ent is not None:
        return ent[1]
    n = nl(tt)
    xs = SList(n, lambda interp2, idx, tt=tt: wrap(la(tt, _zi(idx))), interp.st.fresh_name('lines'))
    xs.aux['jfun'] = lambda i, tt=tt: lp(tt, _zi(i))
    xs.aux['base'] = True
    st.ghost[key] = (tt, xs)
    j = z3.Int('j!lines')
    st._add(n >= 0)
    st._add(lp(tt, z3.IntVal(0)) == z3.StringVal(''))
    st._add(lp(tt, n) == tt)
    st._add((n == 0) == (tt == z3.StringVal('')))
    st._add(z3.ForAll([j], z3.Implies(z3.And(j >= 0, j < n), is_line_term(la(tt, j)))))
    st._add(z3.ForAll([j], z3.And(*line_body_axioms(la(tt, j)))))
    # TRUSTED LEMMA (bounded-checked, C14 `lemmas`): a line has at most one '\n', at its end -- stripping all trailing
    # '\n' (str.rstrip('\n'), as the code does) is removing that one
    rstrip_nl = z3.Function("str.rstrip[%r]" % '\n', z3.StringSort(), z3.StringSort())
    st._add(z3.ForAll([j], z3.Implies(z3.And(j >= 0, j < n), rstrip_nl(la(tt, j)) == _body_fn()(la(tt, j)))))
    st._add(z3.ForAll([j], z3.Implies(z3.And(j >= 0, j < n - 1), z3.SuffixOf(_nl(), la(tt, j)))))
    return xs


def m_lines_of(interp, args, kwargs):
    (t,) = args
    return lines_of_text(interp, t)
