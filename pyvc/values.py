"""Symbolic value domain.

Concrete values are ordinary Python objects.  Symbolic scalars wrap z3 terms.
"""
try:
    import z3
except ImportError:      # replays run under the repository's interpreter, without z3
    z3 = None


class Sym:
    """Base of all symbolic scalar wrappers."""
    __slots__ = ()

    def __bool__(self):
        raise TypeError('symbolic value used natively as bool: %r' % (self,))

    def __hash__(self):
        return id(self)


class SInt(Sym):
    __slots__ = ('t',)

    def __init__(self, t):
        self.t = t

    def __repr__(self):
        return 'SInt(%s)' % (self.t,)


class SBool(Sym):
    __slots__ = ('t',)

    def __init__(self, t):
        self.t = t

    def __repr__(self):
        return 'SBool(%s)' % (self.t,)


class SStr(Sym):
    __slots__ = ('t',)

    def __init__(self, t):
        self.t = t

    def __repr__(self):
        return 'SStr(%s)' % (self.t,)


class SOpt(Sym):
    """Optional value: None when ``is_none`` holds, else ``val`` (any value)."""
    __slots__ = ('is_none', 'val')

    def __init__(self, is_none, val):
        self.is_none = is_none
        self.val = val

    def __repr__(self):
        return 'SOpt(%s, %r)' % (self.is_none, self.val)


class SChoice(Sym):
    """One of finitely many concrete alternatives, selected by integer term ``idx``."""
    __slots__ = ('idx', 'alts')

    def __init__(self, idx, alts):
        self.idx = idx
        self.alts = list(alts)

    def __repr__(self):
        return 'SChoice(%s, %d alts)' % (self.idx, len(self.alts))


class SList(Sym):
    """A sequence of symbolic length.

    ``length``: z3 Int term (>= 0 is asserted by the creator).
    ``elem``: callable ``(interp, index_term) -> value`` producing the element at a
    symbolic index (memoised on the syntactic index term), or None when the list is over
    a z3 sequence ``seq``.
    ``uid``: name used for measures.
    ``parts``: None for a base sequence, or -- for a concatenation -- the list of its pieces
    ``('elem', value)`` / ``('base', SList)`` in order (structural normal form, used by str.join).
    """
    __slots__ = ('length', 'elem', 'uid', 'cache', 'seq', 'immutable', 'volatile', 'parts', 'elem_ty', 'ident', 'aux')

    def __init__(self, length, elem, uid, seq=None, ident=None):
        self.length = length
        self.elem = elem
        self.uid = uid
        self.cache = {}
        self.seq = seq
        self.immutable = True
        self.volatile = False    # True: the element function may case-split, elements are not memoised here
        # identity for ghost functions of the list: (family name, index terms) -- an input list is its own
        # family; a list-valued attribute of an indexed / by-id object is identified by the owner's index
        self.ident = ident
        self.elem_ty = None        # shape of the elements, when created from a ListOf shape
        self.parts = None
        self.aux = {}          # measures etc. (pyvc.texts)

    def __repr__(self):
        return 'SList(%s, len=%s)' % (self.uid, self.length)


class Opaque:
    """An object known only through an interface contract."""

    def __init__(self, iface, uid, cls=None):
        self.__dict__['_pv_iface'] = iface
        self.__dict__['_pv_uid'] = uid
        self.__dict__['_pv_cls'] = cls if cls is not None else getattr(iface, 'target_class', None)
        self.__dict__['_pv_attrs'] = {}
        self.__dict__['_pv_ghost'] = {}

    def __repr__(self):
        return '<Opaque %s:%s>' % (getattr(self._pv_iface, '__name__', self._pv_iface), self._pv_uid)


class OpaqueVal:
    """A value nothing is known about except identity (e.g. an error-message object)."""

    def __init__(self, uid):
        self.uid = uid

    def __repr__(self):
        return '<OpaqueVal %s>' % self.uid


def is_sym(v):
    return isinstance(v, Sym)


def contains_sym(v, depth=2):
    if isinstance(v, (Sym, Opaque, OpaqueVal)):
        return True
    if depth > 0:
        if isinstance(v, (list, tuple, set, frozenset)):
            return any(contains_sym(x, depth - 1) for x in v)
        if isinstance(v, dict):
            return any(contains_sym(x, depth - 1) for x in v.values()) or \
                any(contains_sym(x, 0) for x in v.keys())
    return False


def to_z3(v):
    """Convert a scalar value to a z3 term."""
    if isinstance(v, (SInt, SBool, SStr)):
        return v.t
    if isinstance(v, bool):
        return z3.BoolVal(v)
    if isinstance(v, int):
        return z3.IntVal(v)
    if isinstance(v, str):
        return z3.StringVal(v)
    raise TypeError('no z3 term for %r' % (v,))


def wrap(t):
    """Wrap a z3 term, simplifying literals to concrete Python values."""
    if isinstance(t, (bool, int, str)):
        return t
    t = z3.simplify(t) if not z3.is_const(t) else t
    if z3.is_bool(t):
        if z3.is_true(t):
            return True
        if z3.is_false(t):
            return False
        return SBool(t)
    if z3.is_int(t):
        if z3.is_int_value(t):
            return t.as_long()
        return SInt(t)
    if z3.is_string(t):
        if z3.is_string_value(t):
            return t.as_string() if not _has_escape(t) else SStr(t)
        return SStr(t)
    raise TypeError('cannot wrap %r' % (t,))


def _has_escape(t):
    s = t.as_string()
    return '\\u{' in s or '\\x' in s
