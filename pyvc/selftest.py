"""Validation of the verifier itself (not a property check):

  python3-vt -m pyvc.selftest            engine self-test module T00 + every mutant of selftest/mutants.py
  python3-vt -m pyvc.selftest --only c13

1. contracts/T00_engine.py (and every other contracts/Tnn_*.py): exactly its EXPECTED_REFUTED obligations must be refuted, everything else discharged.
2. each mutant is applied to a scratch copy of /repo/src under $TMPDIR (outside /repo and /verif, removed
   afterwards); the check of its property must exit 1 and name the designated obligation in a VIOLATION
   report; the unmutated scratch copy must pass.
"""
import argparse
import os
import re
import shutil
import subprocess
import sys
import tempfile

from . import REPO, VERIF


def run_check(prop, repo=None, jobs=8):
    env = dict(os.environ)
    if repo:
        env['PYVC_REPO'] = repo
    p = subprocess.run([sys.executable, '-m', 'pyvc.check', prop, '--no-evidence', '--jobs', str(jobs)],
                       cwd=VERIF, env=env, capture_output=True, text=True)
    return p.returncode, p.stdout + p.stderr


def main():
    ap = argparse.ArgumentParser()
    ap.add_argument('--only', default=None)
    ap.add_argument('--jobs', type=int, default=8)
    args = ap.parse_args()
    failures = []
    # 1. engine self-test
    import glob as _glob, importlib
    sys.path.insert(0, VERIF)
    for f in sorted(_glob.glob(os.path.join(VERIF, 'contracts', 'T[0-9][0-9]_*.py'))):
        # engine self-test modules: exactly their EXPECTED_REFUTED obligations are refuted, the rest discharged
        tid = os.path.basename(f)[:3]
        if args.only and args.only.lower() != tid.lower():
            continue
        mod = importlib.import_module('contracts.' + os.path.basename(f)[:-3])
        rc, out = run_check(tid, jobs=args.jobs)
        got = set(re.findall(r'^  obligation: (.*)$', out, re.M))
        undecided = [l for l in out.splitlines() if l.startswith('UNDECIDED')]
        want_undecided = list(getattr(mod, 'EXPECTED_UNDECIDED', []))
        ok = not (got != set(mod.EXPECTED_REFUTED) or 'CHECKER-ERROR' in out
                  or any(not any(w in l for w in want_undecided) for l in undecided)
                  or any(not any(w in l for l in undecided) for w in want_undecided))
        if not ok:
            failures.append((tid, 'expected refutations %r, got %r\n%s' % (sorted(mod.EXPECTED_REFUTED),
                                                                           sorted(got), out[-1500:])))
        print('%s engine self-test:' % tid, 'ok' if ok else 'FAILED')
    # 1a. every sidecar module must import under the repository's interpreter (no z3): replay scripts need them
    if not args.only or args.only.lower() == 'imports':
        code = ("import sys, glob, os, importlib, warnings; warnings.simplefilter('ignore'); sys.path.insert(0, %r)\n"
                "bad = []\n"
                "for f in sorted(glob.glob(os.path.join(%r, 'contracts', '[CT][0-9][0-9]*.py'))):\n"
                "    try: importlib.import_module('contracts.' + os.path.basename(f)[:-3])\n"
                "    except Exception as e: bad.append((f, repr(e)))\n"
                "print(bad); sys.exit(1 if bad else 0)\n" % (VERIF, VERIF))
        p = subprocess.run(['/venv/bin/python', '-W', 'ignore', '-c', code], capture_output=True, text=True,
                           env=dict(os.environ, PYTHONPATH=os.path.join(REPO, 'src')))
        print('sidecar modules import without z3 (replay side):', 'ok' if p.returncode == 0 else 'FAILED')
        if p.returncode != 0:
            failures.append(('imports', (p.stdout + p.stderr)[-1500:]))
    # 1b. models and interpreter against CPython
    if not args.only:
        p = subprocess.run([sys.executable, '-m', 'pyvc.modelcheck', '3'], cwd=VERIF, capture_output=True, text=True)
        print(p.stdout.strip().splitlines()[0] if p.stdout.strip() else p.stderr[-300:])
        if p.returncode != 0:
            failures.append(('modelcheck', p.stdout[-1500:]))
        import glob
        props = sorted({os.path.basename(f)[:3] for f in glob.glob(os.path.join(VERIF, 'contracts', 'C[0-9][0-9]*.py'))})
        for pr in props:
            p = subprocess.run([sys.executable, '-m', 'pyvc.crosscheck', pr], cwd=VERIF, capture_output=True, text=True)
            line = [l for l in p.stdout.splitlines() if l.startswith('interpreter cross-check')]
            print(line[0] if line else p.stderr[-300:])
            if p.returncode != 0:
                failures.append(('crosscheck ' + pr, p.stdout[-1500:]))
    # 2. mutants
    sys.path.insert(0, os.path.join(VERIF, 'selftest'))
    import mutants
    todo = [m for m in mutants.MUTANTS if not args.only or args.only.lower() in m[0].lower()
            or args.only.upper() == m[1]]
    if todo:
        tmp = tempfile.mkdtemp(prefix='pyvc-selftest-')
        try:
            shutil.copytree(os.path.join(REPO, 'src'), os.path.join(tmp, 'src'))
            for (mid, prop, rel, old, new, expect) in todo:
                path = os.path.join(tmp, 'src', rel)
                orig = open(path).read()
                if old not in orig:
                    failures.append((mid, 'mutation site not found in %s (the code has changed: update the mutant)' % rel))
                    print('%-40s SITE-NOT-FOUND' % mid)
                    continue
                open(path, 'w').write(orig.replace(old, new, 1))
                try:
                    rc, out = run_check(prop, repo=tmp, jobs=args.jobs)
                finally:
                    open(path, 'w').write(orig)
                hit = [o for o in re.findall(r'^  obligation: (.*)$', out, re.M) if expect in o]
                ok = rc == 1 and bool(hit)
                print('%-40s %s' % (mid, 'caught by ' + hit[0] if ok else 'MISSED (exit %d)' % rc))
                if not ok:
                    failures.append((mid, out[-1500:]))
        finally:
            shutil.rmtree(tmp, ignore_errors=True)
    # 3. changes under which the property still holds: no alarm
    benign = [b for b in getattr(mutants, 'BENIGN', []) if not args.only or args.only.lower() in b[0].lower()
              or args.only.upper() == b[1]]
    if benign:
        tmp = tempfile.mkdtemp(prefix='pyvc-selftest-')
        try:
            shutil.copytree(os.path.join(REPO, 'src'), os.path.join(tmp, 'src'))
            for (bid, prop, rel, edits) in benign:
                path = os.path.join(tmp, 'src', rel)
                orig = open(path).read()
                text = orig
                missing = [old for old, new in edits if old not in text]
                if missing:
                    failures.append((bid, 'edit site not found in %s (the code has changed: update the entry)' % rel))
                    print('%-40s SITE-NOT-FOUND' % bid)
                    continue
                for old, new in edits:
                    text = text.replace(old, new, 1)
                open(path, 'w').write(text)
                try:
                    rc, out = run_check(prop, repo=tmp, jobs=args.jobs)
                finally:
                    open(path, 'w').write(orig)
                print('%-40s %s' % (bid, 'no alarm' if rc == 0 else 'ALARM (exit %d)' % rc))
                if rc != 0:
                    failures.append((bid, out[-1500:]))
        finally:
            shutil.rmtree(tmp, ignore_errors=True)
    for mid, why in failures:
        print('--- FAILURE', mid)
        print(why)
    return 1 if failures else 0


if __name__ == '__main__':
    sys.exit(main())
