"""Writes baseline/pinned_names.json: for every repository function under contract (any property), the
alpha-signature of its pinned text (pyvc/frontend.py: renamed local variables).

  python3-vt -m pyvc.pinned_names          (re-run whenever contracts are added; on the pinned tree only)"""
import json
import os
import sys

from . import VERIF, REPO_SRC
from . import frontend


def main():
    from . import check
    mods = check.load_modules()
    reg = check.build_registry(mods)
    out = {}
    funcs = []
    for c in reg.contracts.values():
        if c.func is not None:
            funcs.append(c.func)
    for f in funcs:
        try:
            code = f.__code__
            if not os.path.abspath(code.co_filename).startswith(REPO_SRC + os.sep):
                continue
            # the outermost function of the file position (nested functions belong to their outer function)
            info = frontend.funcinfo_of(f)
        except Exception:
            continue
        sig = frontend.alpha_signature(info.node)
        if sig is None or getattr(info.node, '_pv_renamed_locals', None):
            continue
        a = info.node.args
        out['%s:%s' % (f.__globals__.get('__name__'), info.qualname)] = {
            'alpha': sig[0], 'order': sig[1],
            'params': [x.arg for x in a.posonlyargs + a.args + a.kwonlyargs],
            'param_kinds': [len(a.posonlyargs), len(a.args), len(a.kwonlyargs)]}
    path = os.path.join(VERIF, 'baseline', 'pinned_names.json')
    with open(path, 'w') as fh:
        json.dump(out, fh, indent=0, sort_keys=True)
    print('pinned names of %d functions written to %s' % (len(out), path))
    return 0


if __name__ == '__main__':
    sys.exit(main())
