"""Python-level model of str.join over a sequence of symbolic length (interpreted like repository code;
the loop invariant is attached to the call site: M.loop(qname, 'join#k', ...))."""


def join(sep, sequence):
    acc = ''
    first = True
    for element in sequence:
        if not isinstance(element, str):
            raise TypeError('sequence item: expected str instance')
        if first:
            acc = element
            first = False
        else:
            acc = acc + sep + element
    return acc
