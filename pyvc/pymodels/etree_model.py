"""Python-level model of xml.etree.ElementTree (interpreted like repository code).
Assumed: an Element stores the tag, attributes, text and sub-elements it is given, in order."""


class Element:
    def __init__(self, tag, attrib=None, **extra):
        self.tag = tag
        self.attrib = dict(attrib) if attrib is not None else {}
        for k in extra:
            self.attrib[k] = extra[k]
        self.children = []
        self.text = None
        self.tail = None

    def append(self, subelement):
        self.children.append(subelement)

    def set(self, key, value):
        self.attrib[key] = value

    def get(self, key, default=None):
        return self.attrib.get(key, default)

    def __len__(self):
        return len(self.children)

    def __iter__(self):
        return iter(self.children)


def SubElement(parent, tag, attrib=None, **extra):
    element = Element(tag, attrib, **extra)
    parent.append(element)
    return element


class ElementTree:
    def __init__(self, element=None, file=None):
        self._root = element

    def getroot(self):
        return self._root

    def write(self, file_or_filename, encoding=None, xml_declaration=None, default_namespace=None, method=None,
              short_empty_elements=True):
        # assumed: the serialisation of the tree is written to the file (one write of the whole document)
        file_or_filename.write(XmlDocument(self._root))


class XmlDocument:
    """stands for the text of the serialised tree"""

    def __init__(self, root):
        self.root = root
