"""Python-level models of library functions (interpreted like repository code)."""


def reduce_no_initial(function, sequence):
    it = iter(sequence)
    try:
        value = next(it)
    except StopIteration:
        raise TypeError('reduce() of empty iterable with no initial value')
    for element in it:
        value = function(value, element)
    return value


def reduce_with_initial(function, sequence, initial):
    value = initial
    for element in sequence:
        value = function(value, element)
    return value


def map_list(function, sequence):
    """list(map(function, sequence)) over a sequence of symbolic length (call-site loop spec 'map#k')"""
    out = []
    for element in sequence:
        out.append(function(element))
    return out
