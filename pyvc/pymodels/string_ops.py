"""Operations exercised by pyvc.modelcheck (interpreted symbolically and executed natively)."""


def find_nl(s):
    return s.find('\n')


def find_ab(s):
    return s.find('ab')


def rfind_nl(s):
    return s.rfind('\n')


def index_nl(s):
    return s.index('\n')


def slice_to_1(s):
    return s[:1]


def slice_from_1(s):
    return s[1:]


def slice_1_3(s):
    return s[1:3]


def slice_neg(s):
    return s[:-1]


def char_0(s):
    return s[0]


def char_last(s):
    return s[-1]


def startswith_a(s):
    return s.startswith('a')


def endswith_nl(s):
    return s.endswith('\n')


def count_nl(s):
    return s.count('\n')


def contains_ab(s):
    return 'ab' in s


def length(s):
    return len(s)


def rstrip_nl(s):
    return s.rstrip('\n')


def strip_sp(s):
    return s.strip(' ')


def lstrip_sp_nl(s):
    return s.lstrip(' \n')


def split_nl_1(s):
    return s.split('\n', 1)


def partition_nl(s):
    return s.partition('\n')


def rpartition_nl(s):
    return s.rpartition('\n')


def concat(s):
    return s + 'x' + s


def slices_rejoin(s):
    return s[:1] + s[1:] == s


def removeprefix_a(s):
    return s.removeprefix('a')


def find_from_1(s):
    return s.find('\n', 1)


def truth(s):
    return True if s else False


ALL = [find_nl, find_ab, rfind_nl, index_nl, slice_to_1, slice_from_1, slice_1_3, slice_neg, char_0, char_last,
       startswith_a, endswith_nl, count_nl, contains_ab, length, rstrip_nl, strip_sp, lstrip_sp_nl, split_nl_1,
       partition_nl, rpartition_nl, concat, slices_rejoin, removeprefix_a, find_from_1, truth]
