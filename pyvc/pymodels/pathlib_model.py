"""Ghost model of ``pathlib.Path`` over a ghost file system (interpreted like repository code).

A path is identified with its string.  ``p / name`` is ``str(p) + '/' + name`` (or ``name`` itself when it
is absolute), which is what pathlib computes when ``p`` is a normalised name other than a file-system
root and ``name`` is a normalised relative name (cross-checked against CPython by ``pyvc.fsmodel.crosscheck``).
Joining is therefore injective on slash-free names, and "q is below p" is ``str(q).startswith(str(p) + '/')``.

Operations with an effect on the file system are the ``fs_*`` primitives below; the engine replaces them by
models that record ghost events and ghost state (``pyvc/fsmodel.py``).  They are never executed natively.
"""
import pathlib


def fs_mkdir(path, parents, exist_ok):
    raise NotImplementedError('ghost primitive: modelled by pyvc.fsmodel')


def fs_open(path, mode):
    raise NotImplementedError('ghost primitive: modelled by pyvc.fsmodel')


def fs_chmod(path, mode):
    raise NotImplementedError('ghost primitive: modelled by pyvc.fsmodel')


def fs_resolve(path):
    raise NotImplementedError('ghost primitive: modelled by pyvc.fsmodel')


def fs_exists(path, kind):
    raise NotImplementedError('ghost primitive: modelled by pyvc.fsmodel')


class GPath:
    _pv_stands_for = (pathlib.PosixPath,)

    def __init__(self, s, parent=None, name=None):
        self._s = s
        self._parent = parent
        self._name = name

    def __truediv__(self, other):
        if isinstance(other, GPath):
            if other._parent is None:
                return _join(self, other._s)
            return (self / other._parent) / other._name
        return _join(self, str(other))

    def __rtruediv__(self, other):
        return GPath(str(other)) / self

    def joinpath(self, *others):
        ret_val = self
        for other in others:
            ret_val = ret_val / other
        return ret_val

    def __str__(self):
        return self._s

    def __fspath__(self):
        return self._s

    def __eq__(self, other):
        if not isinstance(other, GPath):
            return False
        return self._s == other._s

    def __ne__(self, other):
        return not (self == other)

    def __hash__(self):
        return 0

    @property
    def name(self):
        if self._name is None:
            return self._s.rpartition('/')[2]
        return self._name

    @property
    def parent(self):
        if self._parent is None:
            head, sep, tail = self._s.rpartition('/')
            if sep == '':
                return GPath('.')       # a bare name: pathlib's parent is '.'
            if head == '':
                return GPath('/')
            return GPath(head)
        return self._parent

    def is_absolute(self):
        return self._s.startswith('/')

    # ---- operations on the (ghost) file system
    def mkdir(self, mode=0o777, parents=False, exist_ok=False):
        fs_mkdir(self, parents, exist_ok)

    def open(self, mode='r', buffering=-1, encoding=None, errors=None, newline=None):
        return fs_open(self, mode)

    def chmod(self, mode):
        fs_chmod(self, mode)

    def resolve(self, strict=False):
        return fs_resolve(self)

    def exists(self):
        return fs_exists(self, 'any')

    def is_dir(self):
        return fs_exists(self, 'dir')

    def is_file(self):
        return fs_exists(self, 'file')


def _join(parent, name):
    if name.startswith('/'):
        return GPath(name)
    if parent._s == '.':
        return GPath(name, parent, name)        # pathlib drops the '.' component
    if parent._s == '/':
        return GPath('/' + name, parent, name)
    return GPath(parent._s + '/' + name, parent, name)
