"""Symbolic strings.

Slices, find/index, split(sep, 1), partition, startswith ... are encoded by *concatenation
decomposition* (s = p . m . r with length constraints on the pieces), never by str.substr
arithmetic: the decomposed form is what z3 and cvc5 decide quickly (DESIGN 2.2).
Character counting (`count` of a single character) is an uninterpreted function that is
additive over concatenation; the additivity axiom is instantiated at every concatenation and
decomposition the code performs (a "measure" over string concatenation).
"""
import ast
import os

try:
    import z3
except ImportError:      # replays run under the repository's interpreter, without z3
    z3 = None

from .path import Unsupported
from .values import SInt, SBool, SStr, SOpt, SChoice, SList, Sym, to_z3, wrap


def _pyraise(e):
    from .interp import PyRaise
    return PyRaise(e)


def _s(v):
    if z3.is_expr(v):
        return v
    return to_z3(v)


def _fresh(interp, base):
    c = interp.st.fresh_str(base)
    interp.st.ghost.setdefault('__pieces__', {})[c.get_id()] = c
    return c


# ------------------------------------------------------------------------------ counting measure

def _count_fns(interp):
    return interp.st.ghost.setdefault('__count_fns__', {})


def count_fn(interp, ch):
    fns = _count_fns(interp)
    f = fns.get(ch)
    if f is None:
        f = z3.Function('count[%r]' % ch, z3.StringSort(), z3.IntSort())
        fns[ch] = f
        interp.st.assume(f(z3.StringVal('')) == 0)
        interp.st.assume(f(z3.StringVal(ch)) == 1)
        # additivity over every concatenation / decomposition performed so far
        replay_concats(interp, lambda whole, parts: note_concat(interp, whole, parts, only=ch))
    return f


def replay_concats(interp, fn):
    """call fn(whole, parts) for every concatenation noted so far, under the merge scopes it was noted in"""
    st = interp.st
    saved = st.scopes
    try:
        for whole, parts, scopes in list(st.ghost.get('__concats__', [])):
            st.scopes = list(scopes)
            fn(whole, parts)
    finally:
        st.scopes = saved


def _count_facts(interp, f, ch, t):
    """basic facts of the count of character ch in term t"""
    st = interp.st
    key = ('__count_facts__', ch, t.get_id())
    if key in st.ghost:
        return
    st.ghost[key] = t
    c = z3.StringVal(ch)
    st.assume(z3.And(f(t) >= 0, f(t) <= z3.Length(t)))
    # trusted lemma: count(s) == 0  <=>  ch not in s
    st.assume((f(t) == 0) == z3.Not(z3.Contains(t, c)))


def note_concat(interp, whole, parts, only=None):
    """whole == concat(parts): instantiate additivity of every active counting function."""
    if only is None:
        interp.st.ghost.setdefault('__concats__', []).append((whole, list(parts), tuple(interp.st.scopes)))
        from . import charclass
        charclass.note_concat(interp, whole, parts)
    fns = _count_fns(interp)
    if not fns:
        return
    st = interp.st
    for ch, f in fns.items():
        if only is not None and ch != only:
            continue
        st.assume(f(whole) == z3.Sum([f(p) for p in parts]) if len(parts) > 1 else f(whole) == f(parts[0]))
        for p in list(parts) + [whole]:
            if z3.is_string_value(p):
                st.assume(f(p) == p.as_string().count(ch))
            else:
                _count_facts(interp, f, ch, p)


def concat(interp, a, b):
    ta, tb = _s(a), _s(b)
    t = z3.Concat(ta, tb)
    r = wrap(t)
    if isinstance(r, SStr):
        note_concat(interp, r.t, [ta, tb])
        # other measures over explicit concatenation (pyvc.texts: line_body)
        interp.st.ghost.setdefault('__explicit_concats__', []).append((r.t, [ta, tb]))
        hook = interp.st.ghost.get('__on_concat__')
        if hook is not None:
            hook(interp, r.t, [ta, tb])
    return r


def _flat_concat(t):
    """pieces of a (nested) concatenation term"""
    if z3.is_app(t) and t.decl().kind() == z3.Z3_OP_SEQ_CONCAT:
        out = []
        for c in t.children():
            out.extend(_flat_concat(c))
        return out
    return [t]


def _cat(pieces):
    pieces = [p for p in pieces if not (z3.is_string_value(p) and p.as_string() == '')]
    if not pieces:
        return z3.StringVal('')
    if len(pieces) == 1:
        return pieces[0]
    return z3.Concat(*pieces)


class Dec(list):
    """A decomposition (list of pieces) of a string term, valid under the merge scopes it was created in
    (decompositions made while evaluating the right operand of a merged `and`/`or` hold only there)."""
    scopes = ()


def _dec(interp, pieces, *parents):
    d = Dec(pieces)
    sc = {x.get_id(): x for x in interp.st.scopes}
    for par in parents:
        for x in getattr(par, 'scopes', ()):
            sc[x.get_id()] = x
    d.scopes = tuple(sc.values())
    return d


def _visible(interp, dec):
    sc = getattr(dec, 'scopes', ())
    if not sc:
        return True
    st = interp.st
    return all(st.is_established(x) for x in sc)


def _decomps(interp, t):
    d = interp.st.ghost.setdefault('__decomps__', {})
    ent = d.get(t.get_id())
    if ent is None:
        ent = (t, [])
        d[t.get_id()] = ent
        fl = _flat_concat(t)
        if len(fl) > 1:
            ent[1].append(Dec(fl))
    return ent[1]


def _visible_decomps(interp, t):
    return [d for d in _decomps(interp, t) if _visible(interp, d)]


def norm(interp, t, depth=0):
    """Rewrite a string term using the most refined known decomposition of its variables, so that
    prefix / suffix / equality facts become syntactic (the simplifier then decides them)."""
    if depth > 6 or not z3.is_expr(t):
        return t
    if z3.is_string_value(t):
        return t
    d = interp.st.ghost.get('__decomps__')
    if not d:
        return t
    if z3.is_app(t) and t.decl().kind() == z3.Z3_OP_SEQ_CONCAT:
        return _cat([x for c in t.children() for x in _flat_concat(norm(interp, c, depth + 1))])
    ent = d.get(t.get_id())
    if ent is None or not ent[1]:
        return t
    vis = [x for x in ent[1] if _visible(interp, x)]
    if not vis:
        return t
    pieces = vis[-1]
    return _cat([x for p in pieces for x in _flat_concat(norm(interp, p, depth + 1))])


def _sn(interp, v):
    return norm(interp, _s(v))


def _len_of(p):
    if z3.is_string_value(p):
        return z3.IntVal(len(p.as_string()))
    return z3.Length(p)


def cut(interp, t, a, base='piece'):
    """(prefix, suffix) with t == prefix . suffix and |prefix| == a.  Requires 0 <= a <= |t| (established
    by the caller).  Pieces of earlier decompositions of t are re-used whenever a known boundary is
    provably at offset a, so that different slices of one string share their pieces syntactically."""
    st = interp.st
    a = z3.simplify(a)
    if z3.is_int_value(a) and a.as_long() == 0:
        return z3.StringVal(''), t
    if z3.is_string_value(t) and z3.is_int_value(a):
        sv = t.as_string()
        return z3.StringVal(sv[:a.as_long()]), z3.StringVal(sv[a.as_long():])
    decs = _decomps(interp, t)
    for pieces in _visible_decomps(interp, t):
        off = z3.IntVal(0)
        offs = [off]
        for p in pieces:
            off = z3.simplify(off + _len_of(p))
            offs.append(off)
        for j, o in enumerate(offs):
            if o.eq(a) or (j > 0 and st.must_hold_lengths(o == a)):
                return _cat(pieces[:j]), _cat(pieces[j:])
        # inside a piece?
        for j, p in enumerate(pieces):
            if z3.is_string_value(p) and len(p.as_string()) <= 1:
                continue
            if st.must_hold_lengths(z3.And(offs[j] <= a, a <= offs[j + 1])):
                pa, pb = cut(interp, p, z3.simplify(a - offs[j]), base)
                refined = pieces[:j] + [x for x in (pa, pb)] + pieces[j + 1:]
                decs.append(_dec(interp, refined, pieces))
                return _cat(pieces[:j] + [pa]), _cat([pb] + pieces[j + 1:])
    if st.ghost.get('__align__') and not st.no_fork and not getattr(interp, 'assuming', 0):
        # (not while a predicate is being assumed: what it says about a string that was cut differently before is
        # just taken as a fact; a caller that needs the two views aligned cuts again later)
        vis = _visible_decomps(interp, t)
        if vis and len(vis[-1]) > 1:
            # The position is not located among the known pieces by lengths alone: case split on where it
            # falls in the most refined decomposition (boundaries and interiors that the length abstraction
            # does not exclude), then cut there.  Keeps one shared set of pieces per string.
            pieces = vis[-1]
            off = z3.IntVal(0)
            offs = [off]
            for pc_ in pieces:
                off = z3.simplify(off + _len_of(pc_))
                offs.append(off)
            alts = []
            for j in range(1, len(offs)):
                alts.append(offs[j] == a)
            for j, pc_ in enumerate(pieces):
                if z3.is_string_value(pc_) and len(pc_.as_string()) <= 1:
                    continue
                if pc_.get_id() in st.ghost.get('__len1__', {}):
                    continue
                alts.append(z3.And(offs[j] < a, a < offs[j + 1]))
            other = z3.Not(z3.Or(*alts)) if alts else None      # (e.g. position 0: no piece is cut)
            alts = [c for c in alts if st._len_check(c) != z3.unsat]
            if alts:
                depth = st.ghost.get('__align_depth__', 0)
                if depth < 4:
                    st.ghost['__align_depth__'] = depth + 1
                    try:
                        all_alts = alts + ([other] if st._len_check(other) != z3.unsat else [])
                        k = st.choose(len(all_alts), all_alts, assume_feasible=True)
                        if k < len(alts):
                            return cut(interp, t, a, base)
                    finally:
                        st.ghost['__align_depth__'] = depth
    p = _fresh(interp, base)
    q = _fresh(interp, base)
    st.assume(t == z3.Concat(p, q))
    st.assume(z3.Length(p) == a)
    if z3.is_int_value(a) and a.as_long() == 1:
        known_single_char(interp, p)
    decs.append(_dec(interp, [p, q]))
    note_concat(interp, t, [p, q])
    return p, q


def decompose(interp, s, lens, base='piece'):
    """Pieces p_0..p_k with s == p_0 . ... . p_k and |p_i| == lens[i]; at most one length may be None
    (that piece takes the rest).  The caller must have established that the lengths fit."""
    t = _s(s)
    k = len(lens)
    nones = [i for i, n in enumerate(lens) if n is None]
    if len(nones) > 1:
        return _decompose_free(interp, t, lens, base)
    pieces = [None] * k
    rest = t
    # cut known lengths from the left up to the free piece, then from the right
    i = 0
    while i < k and lens[i] is not None:
        p, rest = cut(interp, rest, _z(lens[i]), base)
        pieces[i] = p
        i += 1
    if i == k:
        return pieces
    tail_len = z3.IntVal(0)
    for n in lens[i + 1:]:
        tail_len = tail_len + _z(n)
    if i == k - 1:
        pieces[i] = rest
        return pieces
    mid, right = cut(interp, rest, z3.simplify(_len_of(rest) - tail_len), base)
    pieces[i] = mid
    for j in range(i + 1, k):
        p, right = cut(interp, right, _z(lens[j]), base)
        pieces[j] = p
    return pieces


def _z(n):
    if isinstance(n, int):
        return z3.IntVal(n)
    return n if z3.is_expr(n) else to_z3(n)


def _decompose_free(interp, t, lens, base):
    st = interp.st
    pieces = [_fresh(interp, base) for _ in lens]
    st.assume(t == (z3.Concat(*pieces) if len(pieces) > 1 else pieces[0]))
    for p, n in zip(pieces, lens):
        if n is not None:
            st.assume(z3.Length(p) == _z(n))
            if isinstance(n, int) and n == 1:
                known_single_char(interp, p)
    _decomps(interp, t).append(_dec(interp, list(pieces)))
    note_concat(interp, t, pieces)
    return pieces


# ------------------------------------------------------------------------------ indexing / slicing

def _norm_index(i, L, interp=None):
    """python slice-bound normalisation as a z3 term (conditions that the path condition already
    decides are not left in the term: the string solvers are much faster without them)"""
    i = _s(i) if not z3.is_expr(i) else i
    if z3.is_int_value(i) and i.as_long() == 0:
        return i
    if interp is not None:
        st = interp.st
        if st.must_hold_lengths(i >= 0):
            if st.must_hold_lengths(i <= L):
                return i
            return z3.If(i > L, L, i)
        if st.must_hold_lengths(i < 0) and st.must_hold_lengths(i + L >= 0):
            return i + L
    return z3.If(i < 0, z3.If(i + L < 0, 0, i + L), z3.If(i > L, L, i))


def getitem(interp, s, idx):
    st = interp.st
    t = _s(s)
    L = z3.Length(t)
    if isinstance(idx, slice):
        if idx.step is not None and idx.step != 1:
            raise Unsupported('string slice with step')
        cache = st.ghost.setdefault('__slices__', {})
        a = z3.IntVal(0) if idx.start is None else z3.simplify(_norm_index(idx.start, L, interp))
        b = z3.simplify(L) if idx.stop is None else z3.simplify(_norm_index(idx.stop, L, interp))
        key = (t.get_id(), a.sexpr(), b.sexpr())
        if key in cache and _visible(interp, cache[key][2]):
            return cache[key][0]
        # a slice of the same string whose bounds are provably (by lengths) the same: the same value
        # (only with string alignment switched on: costs two length questions per cached slice)
        for k2, ent in (list(cache.items()) if st.ghost.get('__align__') else ()):
            if k2[0] == t.get_id() and len(ent) > 3 and _visible(interp, ent[2]):
                a2, b2 = ent[3]
                if (a2.eq(a) or st.must_hold_lengths(a2 == a)) and (b2.eq(b) or st.must_hold_lengths(b2 == b)):
                    return ent[0]
        if st.must_hold_lengths(b >= a):
            mid_len = z3.simplify(b - a)
            a_len = a
        else:
            mid_len = z3.simplify(z3.If(b > a, b - a, 0))
            a_len = a
        if idx.start is None:
            m, r = decompose(interp, t, [mid_len, None], 'slice')
            res = wrap(m)
        elif idx.stop is None:
            p, m = decompose(interp, t, [a, None], 'slice')
            res = wrap(m)
        else:
            p, m, r = decompose(interp, t, [a_len, mid_len, None], 'slice')
            res = wrap(m)
        cache[key] = (res, t, _dec(interp, []), (a, b))
        return res
    i = _s(idx)
    if st.fork(wrap(z3.And(i >= 0, i < L))):
        p, c, r = decompose(interp, t, [i, 1, None], 'char')
        return wrap(c)
    if st.fork(wrap(z3.And(i < 0, i >= -L))):
        p, c, r = decompose(interp, t, [L + i, 1, None], 'char')
        return wrap(c)
    raise _pyraise(IndexError('string index out of range'))



# ------------------------------------------------------------------------------ alignment with the known pieces
# (opt-in per sidecar module: `M.string_alignment = True` sets st.ghost['__align__'])
#
# With alignment on, positions (cut), single-character searches (find / split / partition) and string
# equalities are related to the pieces a string is already known to consist of -- by case split where
# necessary -- instead of introducing a fresh, unrelated decomposition of the same string: word equations
# between differently cut concatenations are what the solvers get lost in.

def aligning(interp):
    return bool(interp.st.ghost.get('__align__'))


def _lit(p):
    """python value of a z3 string literal"""
    return p.as_string()


def _is_piece(t):
    """a string constant without structure (a variable): may be given a decomposition"""
    return z3.is_const(t) and not z3.is_string_value(t) and t.decl().kind() == z3.Z3_OP_UNINTERPRETED


def _is_atom(t):
    """a string term that is neither a literal nor a concatenation: a variable, an application of an
    uninterpreted function, an array element"""
    return z3.is_string(t) and not z3.is_string_value(t) and not (
        z3.is_app(t) and t.decl().kind() == z3.Z3_OP_SEQ_CONCAT)


def count_term(interp, t, ch):
    """number of occurrences of the single character ch in t, as an integer term; the facts that tie it to
    the known pieces of t are added to the context"""
    st = interp.st
    if z3.is_string_value(t) and not _has_escape_val(t):
        return z3.IntVal(_lit(t).count(ch))
    f = count_fn(interp, ch)
    _count_facts(interp, f, ch, t)
    tn = norm(interp, t)
    if not tn.eq(t):
        st.assume(f(t) == f(tn))      # t == tn holds in the current context
    fl = _flat_concat(tn)
    if len(fl) > 1:
        note_concat(interp, tn, fl, only=ch)
    elif not z3.is_string_value(tn):
        _count_facts(interp, f, ch, tn)
    elif not _has_escape_val(tn):
        st.assume(f(t) == _lit(tn).count(ch))
    return f(t)


def _count_app(interp, t):
    """(string term, character) if t is an application of a counting function"""
    if z3.is_app(t) and t.num_args() == 1 and z3.is_string(t.arg(0)) and t.decl().kind() == z3.Z3_OP_UNINTERPRETED:
        for ch, f in _count_fns(interp).items():
            if t.decl().eq(f):
                return t.arg(0), ch
    return None


def _count_zero_fact(interp, t):
    """(x, ch) if the fact t says  count_ch(x) == 0  in one of the forms the simplifier produces"""
    if not z3.is_app(t):
        return None
    k = t.decl().kind()
    if k in (z3.Z3_OP_LE, z3.Z3_OP_EQ) and t.num_args() == 2:
        a, b = t.children()
        if z3.is_int_value(b) and b.as_long() == 0:
            return _count_app(interp, a)
        if k == z3.Z3_OP_EQ and z3.is_int_value(a) and a.as_long() == 0:
            return _count_app(interp, b)
    if k == z3.Z3_OP_NOT:
        c = t.arg(0)
        if z3.is_app(c) and c.num_args() == 2:
            a, b = c.children()
            kk = c.decl().kind()
            if kk == z3.Z3_OP_GT and z3.is_int_value(b) and b.as_long() == 0:
                return _count_app(interp, a)
            if kk == z3.Z3_OP_GE and z3.is_int_value(b) and b.as_long() == 1:
                return _count_app(interp, a)
            if kk == z3.Z3_OP_LT and z3.is_int_value(a) and a.as_long() == 0:
                return _count_app(interp, b)
            if kk == z3.Z3_OP_LE and z3.is_int_value(a) and a.as_long() == 1:
                return _count_app(interp, b)
            if kk == z3.Z3_OP_SEQ_CONTAINS and z3.is_string_value(b) and not _has_escape_val(b) and len(_lit(b)) == 1:
                return a, _lit(b)
    return None


def _note_not_containing(interp, x, ch):
    interp.st.ghost.setdefault('__notin__', []).append((_dec(interp, []), x, ch))


def _known_not_containing(interp, p, ch):
    """is it a recorded fact of the current context that the piece p does not contain the character ch?"""
    for d, x, c in interp.st.ghost.get('__notin__', ()):
        if c != ch or not _visible(interp, d):
            continue
        if x.eq(p) or any(q.eq(p) for q in _flat_concat(norm(interp, x))):
            return True
    return False


def _locate_single(interp, t, ch, reverse):
    """Find the first (last) occurrence of the single character ch along the known pieces of t.
    A piece that is not known to be free of ch is asked (case split on its count); if it has one it is
    itself decomposed around its first (last) occurrence, so the result stays aligned with the pieces.
    Returns ('at', before, after) with t == before . ch . after, or ('absent',); None where no case split
    is possible."""
    st = interp.st
    pieces = _flat_concat(norm(interp, t))
    order = list(reversed(pieces)) if reverse else pieces
    lit = z3.StringVal(ch)
    for k, p in enumerate(order):
        idx = len(pieces) - 1 - k if reverse else k
        if z3.is_string_value(p):
            if _has_escape_val(p):
                return None
            sv = _lit(p)
            if ch not in sv:
                continue
            i = sv.rindex(ch) if reverse else sv.index(ch)
            head, tail = z3.StringVal(sv[:i]), z3.StringVal(sv[i + 1:])
            return ('at', _cat(pieces[:idx] + [head]), _cat([tail] + pieces[idx + 1:]))
        if _known_not_containing(interp, p, ch):
            continue
        if st.no_fork:
            return None
        n = count_term(interp, p, ch)
        if st.fork(wrap(n > 0)):
            a = _fresh(interp, 'upto')
            b = _fresh(interp, 'after')
            st.assume(p == z3.Concat(a, lit, b))
            _decomps(interp, p).append(_dec(interp, [a, lit, b]))
            note_concat(interp, p, [a, lit, b])
            free = b if reverse else a
            st.assume(count_term(interp, free, ch) == 0)
            _note_not_containing(interp, free, ch)
            return ('at', _cat(pieces[:idx] + [a]), _cat([b] + pieces[idx + 1:]))
        _note_not_containing(interp, p, ch)
    return ('absent',)


def learn(interp, t, depth=0):
    """A fact has just been added to the context (path condition or current scope).  With alignment on, string
    equalities x == u with x a variable are remembered as the decomposition x = pieces(u), so that later slices
    of x (and of strings x is a piece of) share their pieces with u syntactically; `count(x) == 0` facts are
    remembered for the piece-wise search."""
    if depth > 4 or not z3.is_app(t) or not aligning(interp):
        return
    k = t.decl().kind()
    if k == z3.Z3_OP_AND:
        for c in t.children():
            learn(interp, c, depth + 1)
        return
    cz = _count_zero_fact(interp, t)
    if cz is not None:
        _note_not_containing(interp, cz[0], cz[1])
        return
    if k != z3.Z3_OP_EQ:
        return
    a, b = t.children()
    if not z3.is_string(a):
        return
    # x . common == pieces . common  says  x == pieces: strip what both sides share at their ends
    pa = _flat_concat(norm(interp, a))
    pb = _flat_concat(norm(interp, b))
    st = interp.st

    def empty(p):
        return not z3.is_string_value(p) and st.must_hold_lengths(z3.Length(p) == 0)

    while pa and pb:
        if pa[-1].eq(pb[-1]):
            pa.pop()
            pb.pop()
        elif empty(pa[-1]):
            pa.pop()
        elif empty(pb[-1]):
            pb.pop()
        else:
            break
    while pa and pb:
        if pa[0].eq(pb[0]):
            pa.pop(0)
            pb.pop(0)
        elif empty(pa[0]):
            pa.pop(0)
        elif empty(pb[0]):
            pb.pop(0)
        else:
            break
    for x, u in ((pa, pb), (pb, pa)):
        if len(x) == 1 and _is_atom(x[0]) and not _visible_decomps(interp, x[0]):
            if any(p.eq(x[0]) for p in u):
                continue       # would be circular
            _decomps(interp, x[0]).append(_dec(interp, u if u else [z3.StringVal('')]))
            return
    for x, u in ((a, b), (b, a)):
        if _is_piece(x) and not x.eq(u):
            if _visible_decomps(interp, x):
                continue
            un = norm(interp, u)
            if any(p.eq(x) for p in _flat_concat(un)):
                continue       # would be circular
            _decomps(interp, x).append(_dec(interp, _flat_concat(un)))
            return


# ------------------------------------------------------------------------------ searching

def _occurrence(interp, t, u, reverse, base):
    """t contains u: pieces (p, q) with t == p . u . q where the occurrence is the first (last if reverse) one.
    For a constant u the constant itself is the middle piece and "no earlier occurrence" is stated as
    `u not in p . u[:-1]` (`u not in u[1:] . q`), which characterises the position without IndexOf."""
    st = interp.st
    if z3.is_string_value(u) and not _has_escape_val(u) and len(u.as_string()) >= 1:
        uv = u.as_string()
        p = _fresh(interp, base)
        q = _fresh(interp, base)
        st.assume(t == z3.Concat(p, u, q))
        _decomps(interp, t).append(_dec(interp, [p, u, q]))
        note_concat(interp, t, [p, u, q])
        if reverse:
            st.assume(z3.Not(z3.Contains(_cat([z3.StringVal(uv[1:]), q]), u)))
        else:
            st.assume(z3.Not(z3.Contains(_cat([p, z3.StringVal(uv[:-1])]), u)))
        return p, u, q
    p, m, q = decompose(interp, t, [None, None, None], base)
    st.assume(m == u)
    if reverse:
        st.assume(z3.LastIndexOf(t, u) == z3.Length(p))
    else:
        st.assume(z3.IndexOf(t, u, 0) == z3.Length(p))
    return p, m, q


def _find(interp, s, sub, start, reverse, raise_on_missing):
    """find / rfind / index / rindex.  The result for the same (string, pattern, start) terms is computed once
    per path (the pieces of the first evaluation are re-used), so that code and clauses that search for the
    same thing talk about the same pieces."""
    st = interp.st
    t = _s(s)
    u = _s(sub)
    cache = st.ghost.setdefault('__finds__', {})
    key = (t.get_id(), u.sexpr(), None if start is None else z3.simplify(_s(start)).sexpr(), bool(reverse))
    ent = cache.get(key)
    if ent is not None and _visible(interp, ent[1]):
        r = ent[0]
        if isinstance(r, int) and r == -1 and raise_on_missing:
            raise _pyraise(ValueError('substring not found'))
        return r
    try:
        r = _find_uncached(interp, s, sub, start, reverse, False)
    except BaseException:
        raise
    cache[key] = (r, _dec(interp, []), t)
    if isinstance(r, int) and r == -1 and raise_on_missing:
        raise _pyraise(ValueError('substring not found'))
    return r


def _find_uncached(interp, s, sub, start, reverse, raise_on_missing):
    st = interp.st
    t = _s(s)
    u = _s(sub)
    if start is not None:
        a = _norm_index(start, z3.Length(t), interp)
        pre, rest = decompose(interp, t, [z3.simplify(a), None], 'from')
        n_before = len(_decomps(interp, rest)) if z3.is_expr(rest) else 0
        r = _find(interp, wrap(rest), sub, None, reverse, raise_on_missing)
        if isinstance(r, int) and r == -1:
            return -1
        # the occurrence found in the tail is also a decomposition of the whole string
        if z3.is_expr(rest):
            ds = _decomps(interp, rest)
            if len(ds) > n_before and not (z3.is_string_value(pre) and pre.as_string() == ''):
                _decomps(interp, t).append(_dec(interp, _flat_concat(pre) + list(ds[-1]), ds[-1]))
        return wrap(_s(r) + z3.Length(pre)) if not (isinstance(r, int) and r == -1) else -1
    if aligning(interp) and z3.is_string_value(u) and not _has_escape_val(u) and len(_lit(u)) == 1:
        loc = _locate_single(interp, t, _lit(u), reverse)
        if loc is not None and loc[0] == 'at':
            return wrap(z3.Length(loc[1]))
        if loc is not None and loc[0] == 'absent':
            if raise_on_missing:
                raise _pyraise(ValueError('substring not found'))
            return -1
    from . import charclass
    charclass.contains_link_pattern(interp, t, u)
    if not st.fork(wrap(z3.Contains(t, u))):
        if raise_on_missing:
            raise _pyraise(ValueError('substring not found'))
        return -1
    p, m, q = _occurrence(interp, t, u, reverse, 'find')
    return wrap(z3.Length(p))


def _split_once(interp, s, sep, reverse=False):
    """(found, head, tail)"""
    st = interp.st
    t = _s(s)
    u = _s(sep)
    if aligning(interp) and z3.is_string_value(u) and not _has_escape_val(u) and len(_lit(u)) == 1:
        loc = _locate_single(interp, t, _lit(u), reverse)
        if loc is not None and loc[0] == 'at':
            return True, wrap(loc[1]), wrap(loc[2])
        if loc is not None and loc[0] == 'absent':
            return False, wrap(t), None
    if not st.fork(wrap(z3.Contains(t, u))):
        return False, wrap(t), None
    p, m, q = _occurrence(interp, t, u, reverse, 'split')
    return True, wrap(p), wrap(q)


_STRIP_DEFAULT = None


def _char_class_re(chars):
    return z3.Star(z3.Union(*[z3.Re(z3.StringVal(c)) for c in chars])) if len(chars) > 1 \
        else z3.Star(z3.Re(z3.StringVal(chars)))


def _strip(interp, s, chars, left, right):
    """s.strip/lstrip/rstrip(chars): the result is an uninterpreted function of s (so that equal
    arguments give syntactically equal results), defined by: s == a . r . b, a and b consist of
    characters of `chars` only, r neither starts (left) nor ends (right) with such a character."""
    st = interp.st
    t = _s(s)
    if chars is None:
        from . import charclass
        return charclass.strip_space(interp, s, left, right)
    if isinstance(chars, Sym) or not chars:
        raise Unsupported('strip with symbolic character set')
    chars = ''.join(sorted(set(chars)))      # (the set of characters is what matters: one function per set)
    kind = ('l' if left else '') + ('r' if right else '')
    f = z3.Function('str.%sstrip[%r]' % ({'lr': '', 'l': 'l', 'r': 'r'}[kind], chars), z3.StringSort(),
                    z3.StringSort())
    r = f(t)
    key = ('__strip__', kind, chars, t.get_id())
    if key not in st.ghost:
        st.ghost[key] = t
        cls = _char_class_re(chars)
        a = _fresh(interp, 'strip.l') if left else z3.StringVal('')
        b = _fresh(interp, 'strip.r') if right else z3.StringVal('')
        st.assume(t == _cat([a, r, b]))
        if left:
            st.assume(z3.InRe(a, cls))
            st.assume(z3.And(*[z3.Not(z3.PrefixOf(z3.StringVal(c), r)) for c in chars]))
        if right:
            st.assume(z3.InRe(b, cls))
            st.assume(z3.And(*[z3.Not(z3.SuffixOf(z3.StringVal(c), r)) for c in chars]))
        _decomps(interp, t).append(_dec(interp, [x for x in (a, r, b) if not (z3.is_string_value(x) and x.as_string() == '')]))
        note_concat(interp, t, [a, r, b])
    return wrap(r)


def _upred(interp, name, s):
    """character-class predicate (isalnum, isspace, ...): uninterpreted, except that its value on the empty
    string and on every single ASCII character is the one CPython gives (ground facts, computed natively).
    On one-character strings it is a predicate of the code point (keeps the character facts out of the
    string theory, which is much faster)."""
    f = z3.Function('str.' + name, z3.StringSort(), z3.BoolSort())
    g = z3.Function('chr.' + name, z3.IntSort(), z3.BoolSort())
    t = _s(s)
    st = interp.st
    if z3.is_string_value(t) and not _has_escape_val(t):
        return bool(getattr(t.as_string(), name)())
    key = '__upred_facts__' + name
    if key not in st.ghost:
        st.ghost[key] = True
        st.assume(z3.Not(f(z3.StringVal(''))))
        st.assume(z3.And(*[g(i) if getattr(chr(i), name)() else z3.Not(g(i)) for i in range(128)]))
    if t.get_id() in st.ghost.get('__len1__', {}):
        return wrap(g(z3.StrToCode(t)))
    from . import charclass
    if name in charclass.ALL_CHARS_PREDICATES:
        # "there is at least one character and all characters are <name>"
        return charclass.upred_of_string(interp, name, s)
    return wrap(z3.If(z3.Length(t) == 1, g(z3.StrToCode(t)), f(t)))


def known_single_char(interp, t):
    """record that the term t is known (assumed) to have length 1"""
    interp.st.ghost.setdefault('__len1__', {})[t.get_id()] = t


def _charval(c):
    return z3.Unit(z3.CharVal(ord(c))) if hasattr(z3, 'CharVal') else z3.StringVal(c)


def _has_escape_val(t):
    sv = t.as_string()
    return '\\u{' in sv or '\\x' in sv


def call_method(interp, recv, name, args, kwargs):
    st = interp.st
    args = [interp.resolve(a) if isinstance(a, (SOpt, SChoice)) else a for a in args]
    t = _s(recv)
    if name in ('startswith', 'endswith'):
        f = z3.PrefixOf if name == 'startswith' else z3.SuffixOf
        x = args[0]
        if len(args) > 2:
            raise Unsupported('%s with end' % name)
        if len(args) == 2:
            if name == 'endswith':
                raise Unsupported('endswith with start')
            # s.startswith(x, start)  ==  start <= len(s) and s[start:].startswith(x)
            start = args[1]
            L = z3.Length(t)
            a = z3.simplify(_norm_index(start, L, interp))
            if not st.fork(wrap(_s(start) <= L)):
                return False
            tail = getitem(interp, recv, slice(wrap(a), None, None))
            return call_method(interp, tail, name, [x], kwargs)
        tn = norm(interp, t)
        if isinstance(x, tuple):
            return wrap(z3.Or(*[f(_sn(interp, y), tn) for y in x])) if x else False
        if aligning(interp) and isinstance(x, str) and len(x) == 1 and not st.no_fork:
            r = z3.simplify(f(z3.StringVal(x), tn))
            if z3.is_true(r) or z3.is_false(r):
                return z3.is_true(r)
            # the first / last character as a piece of its own: ties the answer to the counting measure
            if not st.fork(wrap(z3.Length(t) >= 1)):
                return False
            if name == 'startswith':
                c, _rest = decompose(interp, t, [1, None], 'char')
            else:
                _rest, c = decompose(interp, t, [None, 1], 'char')
            for ch, fn in _count_fns(interp).items():
                _count_facts(interp, fn, ch, c)
            return wrap(c == z3.StringVal(x))
        return wrap(f(_sn(interp, x), tn))
    if name in ('find', 'index', 'rfind', 'rindex'):
        if len(args) > 3:
            raise _pyraise(TypeError('%s() takes at most 3 arguments' % name))
        start = args[1] if len(args) > 1 else None
        end = args[2] if len(args) > 2 else None
        if end is not None or (name.startswith('r') and start is not None):
            # s.find(sub, a, b) searches the slice s[a:b] (an occurrence must lie inside it)
            if start is None or (isinstance(start, int) and start == 0):
                base = 0
            else:
                base = wrap(z3.simplify(_norm_index(start, z3.Length(t), interp)))
            mid = getitem(interp, recv, slice(start, end, None))
            r = _find(interp, mid, args[0], None, name.startswith('r'), name.endswith('index'))
            if isinstance(r, int) and r == -1:
                return -1
            return r if (isinstance(base, int) and base == 0) else wrap(_s(r) + _s(base))
        return _find(interp, recv, args[0], start, name.startswith('r'), name.endswith('index'))
    if name in ('split', 'rsplit'):
        sep = args[0] if args else kwargs.get('sep')
        maxsplit = args[1] if len(args) > 1 else kwargs.get('maxsplit', -1)
        if sep is not None and isinstance(maxsplit, int) and maxsplit == -1 and isinstance(sep, str) and sep != '':
            # all splits: a sequence of strings of unknown contents (weak model); its length is
            # count(sep) + 1 for a single-character separator, at least 1 otherwise
            if len(sep) == 1 and name == 'split' and aligning(interp):
                from . import mlist
                return mlist.split_all(interp, t, sep)
            from .api import ListOf, Str as _Str
            if len(sep) == 1 and interp.st.ghost.get('__exact_split__'):
                # opt-in of a sidecar module (`M.exact_split = True`): exact for at most one separator --
                # no occurrence: [s]; one occurrence: [a, b] with s == a . sep . b (the pieces of split(sep, 1))
                f = count_fn(interp, sep)
                _count_facts(interp, f, sep, t)
                if interp.st.fork(wrap(f(t) == 0)):
                    return [recv]
                if interp.st.fork(wrap(f(t) == 1)):
                    found, a, b = _split_once(interp, recv, sep)
                    if found:
                        return [a, b]       # (else: infeasible; the weak model below is sound anyway)
            out = ListOf(_Str, min_len=1).make(interp, 'split')
            if len(sep) == 1:
                f = count_fn(interp, sep)
                _count_facts(interp, f, sep, t)
                interp.st.assume(out.length == f(t) + 1)
            return out
        if sep is None and isinstance(maxsplit, int) and maxsplit == -1 and aligning(interp):
            # split at white space: a sequence of strings of unknown contents (weak model, sound)
            from .api import ListOf, Str as _Str
            out = ListOf(_Str).make(interp, 'wsplit')
            interp.st.assume(z3.Implies(z3.Length(t) == 0, out.length == 0))
            return out
        if sep is None or maxsplit != 1:
            raise Unsupported('str.%s without separator or with maxsplit != 1' % name)
        found, a, b = _split_once(interp, recv, sep, reverse=(name == 'rsplit'))
        return [a, b] if found else [a]
    if name in ('partition', 'rpartition'):
        found, a, b = _split_once(interp, recv, args[0], reverse=(name == 'rpartition'))
        if found:
            return (a, args[0], b)
        return (a, '', '') if name == 'partition' else ('', '', a)
    if name in ('strip', 'lstrip', 'rstrip'):
        chars = args[0] if args else None
        return _strip(interp, recv, chars, name != 'rstrip', name != 'lstrip')
    if name == 'count':
        sub = args[0]
        if isinstance(sub, str) and len(sub) == 1 and len(args) == 1 and not aligning(interp):
            f = count_fn(interp, sub)
            _count_facts(interp, f, sub, t)
            return wrap(f(t))
        if isinstance(sub, str) and len(sub) == 1 and len(args) <= 3:
            if len(args) > 1:
                # s.count(c, a, b) counts in the slice s[a:b]
                t = _s(getitem(interp, recv, slice(args[1], args[2] if len(args) > 2 else None, None)))
            return wrap(count_term(interp, t, sub))
        raise Unsupported('count of a non-single-character')
    if name in ('isspace', 'isalnum', 'isdigit', 'isalpha', 'isidentifier', 'isupper', 'islower', 'isnumeric',
                'isdecimal', 'isprintable'):
        return _upred(interp, name, recv)
    if name in ('upper', 'lower', 'casefold', 'title', 'capitalize', 'swapcase', 'expandtabs'):
        f = z3.Function('str.' + name, z3.StringSort(), z3.StringSort())
        return wrap(f(t))
    if name == 'join':
        from . import models
        return models.m_str_join(interp, recv, args, kwargs)
    if name in ('format', 'format_map', '__mod__'):
        return SStr(_fresh(interp, 'fmt'))
    if name == 'replace':
        old, new = args[0], args[1]
        count = args[2] if len(args) > 2 else -1
        if count == 1:
            return wrap(z3.Replace(t, _s(old), _s(new)))
        if isinstance(old, str) and isinstance(new, str):
            if hasattr(z3, 'ReplaceAll'):
                return wrap(z3.ReplaceAll(t, _s(old), _s(new)))
            if len(old) == 1 and len(new) == 1 and old != new:
                # all occurrences of one character by another: abstracted by what is true of the result
                # (same length, the old character is gone, unchanged when it did not occur, and -- position
                # by position -- a character other than the old one stays)
                r = _fresh(interp, 'replaced')
                o, nw = z3.StringVal(old), z3.StringVal(new)
                st.assume(z3.Length(r) == z3.Length(t))
                st.assume(z3.Not(z3.Contains(r, o)))
                st.assume(z3.Implies(z3.Not(z3.Contains(t, o)), r == t))
                st.assume(z3.Implies(z3.Length(t) > 0,
                                     z3.If(z3.PrefixOf(o, t), z3.PrefixOf(nw, r),
                                           z3.SubString(r, 0, 1) == z3.SubString(t, 0, 1))))
                return SStr(r)
        raise Unsupported('str.replace (all occurrences) with symbolic pattern')
    if name == 'zfill':
        w = args[0]
        if not isinstance(w, int) or isinstance(w, bool):
            raise Unsupported('str.zfill with symbolic width')
        # pad with zeros up to width w, after a leading sign: a case split on the (short) length, as a term
        L = z3.Length(t)
        signed = z3.Or(z3.PrefixOf(z3.StringVal('-'), t), z3.PrefixOf(z3.StringVal('+'), t))
        res = t
        for k in range(w - 1, -1, -1):
            pad = z3.StringVal('0' * (w - k))
            padded = z3.If(signed, z3.Concat(z3.SubString(t, 0, 1), pad, z3.SubString(t, 1, L - 1)),
                           z3.Concat(pad, t))
            res = z3.If(L == k, padded, res)
        return wrap(res)
    if name == 'encode':
        raise Unsupported('str.encode on symbolic string')
    if name == '__len__':
        return wrap(z3.Length(t))
    if name == '__add__':
        return concat(interp, recv, args[0])
    if name == '__contains__':
        return wrap(z3.Contains(norm(interp, t), _sn(interp, args[0])))
    if name == 'splitlines' and (list(args) == [True] or (not args and kwargs == {'keepends': True})):
        from . import textio
        return textio.splitlines_keepends(interp, recv)
    if name in ('splitlines',) and not args and not kwargs and interp.st.ghost.get('__weak_splitlines__'):
        # opt-in of a sidecar module (`M.weak_splitlines = True`): s.splitlines() is SOME list of strings
        # (weak but sound; for code that only passes the lines on, e.g. into a source-location record)
        from .api import ListOf, Str as _Str
        return ListOf(_Str).make(interp, 'splitlines')
    if name in ('splitlines',):
        raise Unsupported('str.splitlines on symbolic string (give the function a contract / model)')
    if name in ('removeprefix', 'removesuffix'):
        x = _s(args[0])
        if name == 'removeprefix':
            if st.fork(wrap(z3.PrefixOf(x, t))):
                a, b = decompose(interp, t, [z3.Length(x), None], 'rmprefix')
                return wrap(b)
            return recv
        if st.fork(wrap(z3.SuffixOf(x, t))):
            a, b = decompose(interp, t, [None, z3.Length(x)], 'rmsuffix')
            return wrap(a)
        return recv
    raise Unsupported('str.%s on symbolic string' % name)


def _int_fns():
    return (z3.Function('int.valid', z3.StringSort(), z3.BoolSort()),
            z3.Function('int.value', z3.StringSort(), z3.IntSort()))


def str_of_int(interp, n):
    t = n.t
    r = z3.If(t >= 0, z3.IntToStr(t), z3.Concat(z3.StringVal('-'), z3.IntToStr(-t)))
    # trusted lemma (CPython): int(str(n)) == n for every int n -- instantiated at this n, so that a text
    # that equals str(n) converts back to n without the solver having to invert int.to.str
    valid, val = _int_fns()
    interp.st.assume(z3.And(valid(r), val(r) == t))
    return wrap(r)


def int_of_str(interp, s):
    """int(s): valid decimal literal (optionally signed) or ValueError; other accepted forms
    (white space, underscores, non-ASCII digits) are abstracted by an uninterpreted validity
    predicate and value function."""
    st = interp.st
    t = _s(s)
    valid, val = _int_fns()
    digits = z3.Plus(z3.Range('0', '9'))
    plain = z3.InRe(t, digits)
    st.assume(z3.Implies(plain, z3.And(valid(t), val(t) == z3.StrToInt(t))))
    neg = z3.InRe(t, z3.Concat(z3.Re(z3.StringVal('-')), digits))
    # '-' followed by decimal digits: valid, the negated value of the digits (so that int(str(n)) == n for n < 0)
    st.assume(z3.Implies(neg, z3.And(valid(t), val(t) == -z3.StrToInt(z3.SubString(t, 1, z3.Length(t) - 1)))))
    if not st.fork(wrap(valid(t))):
        raise _pyraise(ValueError('invalid literal for int()'))
    return wrap(val(t))


def join_slist(interp, sep, xs):
    """sep.join(xs) for a sequence of symbolic length.

    If the calling function has a loop spec 'join#k' for this join (M.loop(qname, 'join#k', ...)), the join is
    interpreted from the Python model pyvc/pymodels/str_model.py with that invariant (loops.join_slist).  Otherwise:

    The sequence is taken in its structural normal form (pieces: single elements and base
    sequences, see seqs.parts_of).  The join of a *base* sequence b is an uninterpreted string
    J(sep, b) -- a function of the (immutable) sequence, named by its uid -- about which only
    `len(b) == 0 => J == ''` and `len(b) == 1 => J == b[0]` are stated.  The join of a concatenation is
    composed from the joins of its pieces by the law
        join(x ++ y) = join(y) if x is empty, join(x) if y is empty, else join(x) + sep + join(y)
    which holds of Python's str.join for every x, y."""
    from . import seqs, models, loops
    from .interp import PyRaise
    r = loops.join_slist(interp, sep, xs)
    if r is not NotImplemented:
        return r
    st = interp.st
    if not isinstance(sep, str):
        raise Unsupported('str.join over symbolic-length sequence with symbolic separator')
    acc_t, acc_n = None, None
    for kind, v in seqs.parts_of(xs):
        if kind == 'elem':
            if isinstance(v, (SOpt, SChoice)):
                v = interp.resolve(v)
            if not isinstance(v, (SStr, str)):
                raise _pyraise(TypeError('sequence item: expected str instance'))
            t, n = _s(v), z3.IntVal(1)
        else:
            t, n = _join_of_base(interp, sep, v), v.length
        if acc_t is None:
            acc_t, acc_n = t, n
        else:
            joined = z3.Concat(acc_t, z3.StringVal(sep), t) if sep else z3.Concat(acc_t, t)
            acc_t = z3.If(acc_n == 0, t, z3.If(n == 0, acc_t, joined))
            acc_n = acc_n + n
    if acc_t is None:
        return ''
    return wrap(z3.simplify(acc_t))


def _join_of_base(interp, sep, b):
    from . import models
    from .interp import PyRaise
    st = interp.st
    key = ('__join__', sep, b.uid)
    t = st.ghost.get(key)
    if t is not None:
        return t
    t = z3.String('join[%r](%s)' % (sep, b.uid))
    st.ghost[key] = t
    st.assume(z3.Implies(b.length == 0, t == z3.StringVal('')))
    # elements must be strings (else Python raises TypeError); len 1: the join is the element
    st.no_fork += 1
    try:
        with st.scope(b.length >= 1):
            if st.check() != z3.unsat:
                e0 = models.slist_elem(interp, b, z3.IntVal(0))
                if not isinstance(e0, (SStr, str)):
                    raise Unsupported('str.join over symbolic-length sequence of non-strings')
                first = _s(e0)
            else:
                first = None
    except PyRaise as e:
        raise Unsupported('str.join: element access raises %r' % (e.exc,))
    finally:
        st.no_fork -= 1
    if first is not None:
        st.assume(z3.Implies(b.length == 1, t == first))
    return t


# ------------------------------------------------------------------------------ forgetting dead pieces

def _consts_of_term(t, acc, seen):
    todo = [t]
    while todo:
        x = todo.pop()
        i = x.get_id()
        if i in seen:
            continue
        seen.add(i)
        if z3.is_quantifier(x):
            todo.append(x.body())
            continue
        if z3.is_const(x) and x.decl().kind() == z3.Z3_OP_UNINTERPRETED:
            acc.add(i)
        else:
            todo.extend(x.children())


def _consts_of_value(v, acc, seen_terms, seen_objs, depth=0):
    if depth > 8 or v is None or isinstance(v, (bool, int, str, float, bytes, type)):
        return
    if z3.is_expr(v):
        _consts_of_term(v, acc, seen_terms)
        return
    oid = id(v)
    if oid in seen_objs:
        return
    seen_objs.add(oid)
    if isinstance(v, (SInt, SBool, SStr)):
        _consts_of_term(v.t, acc, seen_terms)
        return
    if isinstance(v, SOpt):
        _consts_of_term(v.is_none, acc, seen_terms)
        _consts_of_value(v.val, acc, seen_terms, seen_objs, depth + 1)
        return
    if isinstance(v, SChoice):
        _consts_of_term(v.idx, acc, seen_terms)
        for a in v.alts:
            _consts_of_value(a, acc, seen_terms, seen_objs, depth + 1)
        return
    if isinstance(v, (list, tuple, set, frozenset)):
        for x in v:
            _consts_of_value(x, acc, seen_terms, seen_objs, depth + 1)
        return
    if isinstance(v, dict):
        for x in v.values():
            _consts_of_value(x, acc, seen_terms, seen_objs, depth + 1)
        return
    import types as _types
    if isinstance(v, (_types.FunctionType, _types.ModuleType, _types.BuiltinFunctionType)):
        return
    for attr in ('__dict__',):
        d = getattr(v, attr, None)
        if isinstance(d, dict):
            for x in list(d.values()):
                _consts_of_value(x, acc, seen_terms, seen_objs, depth + 1)
    sl = getattr(type(v), '__slots__', None)
    if sl:
        for k in type(v).__mro__:
            for name in getattr(k, '__slots__', ()) or ():
                try:
                    _consts_of_value(getattr(v, name), acc, seen_terms, seen_objs, depth + 1)
                except AttributeError:
                    pass


def forget_dead_pieces(interp):
    """At a loop head (after the havoc): string pieces introduced by earlier decompositions that no live
    value refers to any more are existential witnesses of facts about the past (e.g. the position found by
    a `find` whose result was just havocked).  The conjuncts of the path condition that mention such dead
    pieces are dropped, and the decomposition registry forgets them, so that new slices of the same string
    are not related to stale boundaries.  Dropping assumptions only weakens what obligations are proved
    from: it is sound, and keeps the string solvers away from aligning unrelated decompositions."""
    st = interp.st
    pieces = st.ghost.get('__pieces__')
    if not pieces or os.environ.get('PYVC_KEEP_DEAD_PIECES') or aligning(interp):
        # (with alignment the pieces are the vocabulary later cuts and searches are related to: kept)
        return
    live = set()
    seen_terms, seen_objs = set(), set()
    for fr in interp.frame_stack:
        _consts_of_value(fr.locals, live, seen_terms, seen_objs)
        for d in fr.enclosing:
            _consts_of_value(d, live, seen_terms, seen_objs)
    _consts_of_value(interp.reg.ghost_env, live, seen_terms, seen_objs)
    _consts_of_value(getattr(interp, 'root_values', None), live, seen_terms, seen_objs)
    _consts_of_value(st.trace, live, seen_terms, seen_objs)
    _consts_of_value([v for k, v in st.ghost.items() if not (isinstance(k, str) and k.startswith('__'))
                      and not isinstance(k, tuple)], live, seen_terms, seen_objs)
    if interp.collect is not None:
        _consts_of_value(interp.collect[1], live, seen_terms, seen_objs)
    # obligations recorded so far keep their own copy of the path condition
    conj = []
    for t in list(st.pc) + list(st.scopes):
        acc = set()
        _consts_of_term(t, acc, set())
        conj.append(acc & set(pieces))
    live_pieces = set(pieces) & live
    changed = True
    while changed:
        changed = False
        for acc in conj:
            if acc and (acc & live_pieces) and not acc <= live_pieces:
                live_pieces |= acc
                changed = True
    dead = set(pieces) - live_pieces
    if not dead:
        return
    n_pc = len(st.pc)
    keep = [t for t, acc in zip(st.pc, conj[:n_pc]) if not (acc & dead)]
    if len(keep) != n_pc:
        st.reset_pc(keep)
    for i in dead:
        pieces.pop(i, None)

    def dead_term(x):
        acc = set()
        _consts_of_term(x, acc, set())
        return bool(acc & dead)

    decs = st.ghost.get('__decomps__')
    if decs:
        for key in list(decs):
            t, lst = decs[key]
            if dead_term(t):
                del decs[key]
                continue
            lst[:] = [pcs for pcs in lst if not any(dead_term(p) for p in pcs)]
    sl = st.ghost.get('__slices__')
    if sl:
        for key in list(sl):
            res, t = sl[key][0], sl[key][1]
            if dead_term(t) or (isinstance(res, Sym) and dead_term(_s(res))):
                del sl[key]
    tw = st.ghost.get('__takewhile__')
    if tw:
        for key in list(tw):
            r, _d, t = tw[key]
            if dead_term(t) or (isinstance(r, Sym) and dead_term(_s(r))):
                del tw[key]
    fc = st.ghost.get('__finds__')
    if fc:
        for key in list(fc):
            r, _d, t = fc[key]
            if dead_term(t) or (isinstance(r, Sym) and dead_term(_s(r))):
                del fc[key]
    cc = st.ghost.get('__concats__')
    if cc:
        cc[:] = [(w, ps, sc) for (w, ps, sc) in cc if not dead_term(w) and not any(dead_term(p) for p in ps)]
    ni = st.ghost.get('__notin__')
    if ni:
        ni[:] = [(d, x, c) for (d, x, c) in ni if not dead_term(x)]
