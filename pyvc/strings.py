"""Symbolic strings.

Slices, find/index, split(sep, 1), partition, startswith ... are encoded by *concatenation
decomposition* (s = p . m . r with length constraints on the pieces), never by str.substr
arithmetic: the decomposed form is what z3 and cvc5 decide quickly (DESIGN 2.2).
Character counting (`count` of a single character) is an uninterpreted function that is
additive over concatenation; the additivity axiom is instantiated at every concatenation and
decomposition the code performs (a "measure" over string concatenation).
"""
import ast

try:
    import z3
except ImportError:      # replays run under the repository's interpreter, without z3
    z3 = None

from .path import Unsupported
from .values import SInt, SBool, SStr, SOpt, SChoice, SList, Sym, to_z3, wrap


def _pyraise(e):
    from .interp import PyRaise
    return PyRaise(e)


def _s(v):
    if z3.is_expr(v):
        return v
    return to_z3(v)


def _fresh(interp, base):
    return interp.st.fresh_str(base)


# ------------------------------------------------------------------------------ counting measure

def _count_fns(interp):
    return interp.st.ghost.setdefault('__count_fns__', {})


def count_fn(interp, ch):
    fns = _count_fns(interp)
    f = fns.get(ch)
    if f is None:
        f = z3.Function('count_u%04x' % ord(ch), z3.StringSort(), z3.IntSort())   # (a name every solver can parse)
        fns[ch] = f
        interp.st.axiom(f(z3.StringVal('')) == 0)
        interp.st.axiom(f(z3.StringVal(ch)) == 1)
        # additivity over every concatenation / decomposition performed so far
        for whole, parts in list(interp.st.ghost.get('__concats__', [])):
            note_concat(interp, whole, parts, only=ch)
    return f


def _count_facts(interp, f, ch, t):
    """basic facts of the count of character ch in term t"""
    st = interp.st
    key = ('__count_facts__', ch, t.get_id())
    if key in st.ghost:
        return
    st.ghost[key] = t
    c = z3.StringVal(ch)
    # instances of axioms of the counting function: valid in every context (not scoped)
    st.axiom(z3.And(f(t) >= 0, f(t) <= z3.Length(t)))
    # a string of one character: counts 1 iff it is that character
    if st.len_must_hold(z3.Length(t) == 1):
        st.axiom(z3.Implies(z3.Length(t) == 1, f(t) == z3.If(t == c, 1, 0)))


# "every character satisfies P" for the character-class predicates of str: an additive measure into
# (Bool, and).  s.isspace() is  s != '' and all_isspace(s)  (the empty string satisfies `all` vacuously).
ALL_PREDS = {'isspace': True, 'isdigit': True, 'isalpha': True, 'isalnum': True, 'isdecimal': True,
             'isnumeric': True, 'isprintable': False, 'isascii': False}      # name -> "and non-empty"


def _all_fns(interp):
    return interp.st.ghost.setdefault('__all_fns__', {})


def _all_lit(name, sv):
    if name.startswith('in_'):      # 'in_u0020u0009': every character is one of the listed ones
        allowed = {chr(int(h, 16)) for h in name[3:].split('u') if h}
        return all(c in allowed for c in sv)
    return all(getattr(c, name)() for c in sv)


def all_in_name(chars):
    return 'in_' + ''.join('u%04x' % ord(c) for c in sorted(set(chars)))


def all_fn(interp, name):
    fns = _all_fns(interp)
    f = fns.get(name)
    if f is None:
        f = z3.Function('all_' + name, z3.StringSort(), z3.BoolSort())
        fns[name] = f
        interp.st.axiom(f(z3.StringVal('')))
        for whole, parts in list(interp.st.ghost.get('__concats__', [])):
            note_concat(interp, whole, parts, only=('all', name))
    return f


def all_term(interp, t, name):
    """`every character of t satisfies str.<name>` as a boolean term, tied to the known pieces of t"""
    st = interp.st
    if z3.is_string_value(t):
        return z3.BoolVal(_all_lit(name, _lit(t)))
    f = all_fn(interp, name)
    tn = norm(interp, t)
    if not tn.eq(t):
        st.assume(f(t) == f(tn))      # t == tn holds in the current context
    fl = _flat_concat(tn)
    if len(fl) > 1:
        note_concat(interp, tn, fl, only=('all', name))
    elif z3.is_string_value(tn):
        st.assume(f(t) == _all_lit(name, _lit(tn)))
    return f(t)


def note_concat(interp, whole, parts, only=None):
    """whole == concat(parts): instantiate additivity of every active measure (counting functions,
    character-class predicates)."""
    if only is None:
        interp.st.ghost.setdefault('__concats__', []).append((whole, list(parts)))
    st = interp.st
    cat = z3.Concat(*parts) if len(parts) > 1 else parts[0]
    for name, f in _all_fns(interp).items():
        if only is not None and only != ('all', name):
            continue
        vals = [z3.BoolVal(_all_lit(name, _lit(p))) if z3.is_string_value(p) else f(p) for p in parts]
        add = f(whole) == (z3.And(*vals) if len(vals) > 1 else vals[0])
        st.axiom(add if whole.eq(cat) else z3.Implies(whole == cat, add))
    if isinstance(only, tuple):
        return
    fns = _count_fns(interp)
    if not fns:
        return
    for ch, f in fns.items():
        if only is not None and ch != only:
            continue
        add = f(whole) == z3.Sum([f(p) for p in parts]) if len(parts) > 1 else f(whole) == f(parts[0])
        # additivity, as an axiom instance that holds in every context: it carries the hypothesis
        # whole == concat(parts) unless that is syntactically so
        st.axiom(add if whole.eq(cat) else z3.Implies(whole == cat, add))
        for p in list(parts) + [whole]:
            if z3.is_string_value(p):
                st.axiom(f(p) == p.as_string().count(ch))
            else:
                _count_facts(interp, f, ch, p)


def count_term(interp, t, ch):
    """number of occurrences of the single character ch in t, as an integer term; the facts that tie it to
    the known pieces of t are added to the context.  Membership of a single character is expressed through
    it as well (`ch in t`  is  count > 0: trusted lemma, listed in evidence), so that the solvers see linear
    arithmetic over an additive measure instead of str.contains."""
    st = interp.st
    if z3.is_string_value(t):
        return z3.IntVal(_lit(t).count(ch))
    f = count_fn(interp, ch)
    _count_facts(interp, f, ch, t)
    tn = norm(interp, t)
    if not tn.eq(t):
        st.assume(f(t) == f(tn))      # t == tn holds in the current context
    fl = _flat_concat(tn)
    if len(fl) > 1:
        note_concat(interp, tn, fl, only=ch)
    elif not z3.is_string_value(tn):
        _count_facts(interp, f, ch, tn)
    else:
        st.assume(f(t) == _lit(tn).count(ch))
    return f(t)


def contains_term(interp, t, u):
    """`u in t` as a boolean term"""
    if z3.is_string_value(u) and len(_lit(u)) == 1:
        return count_term(interp, t, _lit(u)) > 0
    return z3.Contains(norm(interp, t), norm(interp, u))


def _is_count_app(t):
    return z3.is_app(t) and t.num_args() == 1 and t.decl().name().startswith('count_u') and z3.is_string(t.arg(0))


def _count_zero_fact(t):
    """(x, ch) if the fact t says  count_ch(x) == 0  in one of the forms the simplifier produces"""
    if not z3.is_app(t):
        return None
    k = t.decl().kind()
    if k in (z3.Z3_OP_LE, z3.Z3_OP_EQ) and t.num_args() == 2:
        a, b = t.children()
        if _is_count_app(a) and z3.is_int_value(b) and b.as_long() == 0:
            return a.arg(0), chr(int(a.decl().name()[7:], 16))
        if k == z3.Z3_OP_EQ and _is_count_app(b) and z3.is_int_value(a) and a.as_long() == 0:
            return b.arg(0), chr(int(b.decl().name()[7:], 16))
    if k == z3.Z3_OP_NOT:
        c = t.arg(0)
        if z3.is_app(c) and c.num_args() == 2:
            a, b = c.children()
            kk = c.decl().kind()
            if kk == z3.Z3_OP_GT and _is_count_app(a) and z3.is_int_value(b) and b.as_long() == 0:
                return a.arg(0), chr(int(a.decl().name()[7:], 16))
            if kk == z3.Z3_OP_GE and _is_count_app(a) and z3.is_int_value(b) and b.as_long() == 1:
                return a.arg(0), chr(int(a.decl().name()[7:], 16))
            if kk == z3.Z3_OP_LT and _is_count_app(b) and z3.is_int_value(a) and a.as_long() == 0:
                return b.arg(0), chr(int(b.decl().name()[7:], 16))
            if kk == z3.Z3_OP_LE and _is_count_app(b) and z3.is_int_value(a) and a.as_long() == 1:
                return b.arg(0), chr(int(b.decl().name()[7:], 16))
    return None


def concat(interp, a, b):
    ta, tb = _s(a), _s(b)
    t = z3.Concat(ta, tb)
    r = wrap(t)
    if isinstance(r, SStr):
        note_concat(interp, r.t, [ta, tb])
    return r


def _flat_concat(t):
    """pieces of a (nested) concatenation term"""
    if z3.is_app(t) and t.decl().kind() == z3.Z3_OP_SEQ_CONCAT:
        out = []
        for c in t.children():
            out.extend(_flat_concat(c))
        return out
    return [t]


def _cat(pieces):
    pieces = [p for p in pieces if not (z3.is_string_value(p) and p.as_string() == '')]
    if not pieces:
        return z3.StringVal('')
    if len(pieces) == 1:
        return pieces[0]
    return z3.Concat(*pieces)


def _decomp_entry(interp, t):
    d = interp.st.ghost.setdefault('__decomps__', {})
    ent = d.get(t.get_id())
    if ent is None:
        ent = (t, [])
        d[t.get_id()] = ent
        fl = _flat_concat(t)
        if len(fl) > 1:
            ent[1].append((frozenset(), fl))
    return ent


def _usable(interp, tagged):
    """A decomposition created inside a merge scope (under a temporary assumption) is known only there:
    it may be used again only where all those assumptions are in force."""
    cur = interp.st._scope_ids()
    return [pieces for (sc, pieces) in tagged if sc <= cur]


def _decomps(interp, t):
    """the decompositions of t that are known in the current context (most refined last)"""
    return _usable(interp, _decomp_entry(interp, t)[1])


def _add_decomp(interp, t, pieces, universal=False):
    st = interp.st
    st._keep = getattr(st, '_keep', [])
    st._keep.extend(st.scopes)      # keep the scope terms alive: their ids identify them
    _decomp_entry(interp, t)[1].append((frozenset() if universal else st._scope_ids(), list(pieces)))


def norm(interp, t, depth=0):
    """Rewrite a string term using the most refined known decomposition of its variables, so that
    prefix / suffix / equality facts become syntactic (the simplifier then decides them)."""
    if depth > 6 or not z3.is_expr(t):
        return t
    if z3.is_string_value(t):
        return t
    d = interp.st.ghost.get('__decomps__')
    if not d:
        return t
    if z3.is_app(t) and t.decl().kind() == z3.Z3_OP_SEQ_CONCAT:
        return _cat([x for c in t.children() for x in _flat_concat(norm(interp, c, depth + 1))])
    ent = d.get(t.get_id())
    if ent is None or not ent[1]:
        return t
    usable = _usable(interp, ent[1])
    if not usable:
        return t
    pieces = usable[-1]
    return _cat([x for p in pieces for x in _flat_concat(norm(interp, p, depth + 1))])


def _sn(interp, v):
    return norm(interp, _s(v))


def _is_piece(t):
    """a string constant without structure (a variable): may be given a decomposition"""
    return z3.is_const(t) and not z3.is_string_value(t) and t.decl().kind() == z3.Z3_OP_UNINTERPRETED


def _lit(p):
    """python value of a z3 string literal"""
    return p.as_string()


def _note_not_containing(interp, x, ch):
    st = interp.st
    st._keep = getattr(st, '_keep', [])
    st._keep.extend(st.scopes)
    st.ghost.setdefault('__notin__', []).append((st._scope_ids(), x, ch))


def _known_not_containing(interp, p, ch):
    """is it a recorded fact of the current context that the piece p does not contain the character ch?"""
    cur = interp.st._scope_ids()
    for sc, x, c in interp.st.ghost.get('__notin__', ()):
        if c != ch or not sc <= cur:
            continue
        if x.eq(p) or any(q.eq(p) for q in _flat_concat(norm(interp, x))):
            return True
    return False


def _locate_single(interp, t, ch, reverse):
    """Find the first (last) occurrence of the single character ch along the known pieces of t.
    A piece that is not known to be free of ch is asked (case split on its count); if it has one it is
    itself decomposed around its first (last) occurrence, so the result stays aligned with the pieces.
    Returns ('at', before, after) with t == before . ch . after, or ('absent',)."""
    st = interp.st
    pieces = _flat_concat(norm(interp, t))
    order = list(reversed(pieces)) if reverse else pieces
    lit = z3.StringVal(ch)
    for k, p in enumerate(order):
        idx = len(pieces) - 1 - k if reverse else k
        if z3.is_string_value(p):
            sv = _lit(p)
            if ch not in sv:
                continue
            i = sv.rindex(ch) if reverse else sv.index(ch)
            head, tail = z3.StringVal(sv[:i]), z3.StringVal(sv[i + 1:])
            return ('at', _cat(pieces[:idx] + [head]), _cat([tail] + pieces[idx + 1:]))
        if _known_not_containing(interp, p, ch):
            continue
        if st.no_fork:
            return None
        n = count_term(interp, p, ch)
        if st.fork(wrap(n > 0)):
            a = _fresh(interp, 'upto')
            b = _fresh(interp, 'after')
            st.assume(p == z3.Concat(a, lit, b))
            _add_decomp(interp, p, [a, lit, b])
            note_concat(interp, p, [a, lit, b])
            free = b if reverse else a
            st.assume(count_term(interp, free, ch) == 0)
            _note_not_containing(interp, free, ch)
            return ('at', _cat(pieces[:idx] + [a]), _cat([b] + pieces[idx + 1:]))
        _note_not_containing(interp, p, ch)
    return ('absent',)


def learn(interp, t, depth=0):
    """A fact has just been added to the context (path condition or current scope).  String equalities
    x == u with x a variable are remembered as the decomposition x = pieces(u), so that later slices of x
    (and of strings x is a piece of) share their pieces with u syntactically."""
    if depth > 4 or not z3.is_app(t):
        return
    k = t.decl().kind()
    if k == z3.Z3_OP_AND:
        for c in t.children():
            learn(interp, c, depth + 1)
        return
    cz = _count_zero_fact(t)
    if cz is not None:
        _note_not_containing(interp, cz[0], cz[1])
        return
    if k != z3.Z3_OP_EQ:
        return
    a, b = t.children()
    if not z3.is_string(a):
        return
    # x . common == pieces . common  says  x == pieces: strip what both sides share at their ends
    pa = _flat_concat(norm(interp, a))
    pb = _flat_concat(norm(interp, b))
    st = interp.st

    def empty(p):
        return not z3.is_string_value(p) and st.len_must_hold(z3.Length(p) == 0)

    while pa and pb:
        if pa[-1].eq(pb[-1]):
            pa.pop()
            pb.pop()
        elif empty(pa[-1]):
            pa.pop()
        elif empty(pb[-1]):
            pb.pop()
        else:
            break
    while pa and pb:
        if pa[0].eq(pb[0]):
            pa.pop(0)
            pb.pop(0)
        elif empty(pa[0]):
            pa.pop(0)
        elif empty(pb[0]):
            pb.pop(0)
        else:
            break
    # literal pieces that one side ends / starts with and the other side has as a longer literal
    for x, u in ((pa, pb), (pb, pa)):
        if len(x) == 1 and _is_atom(x[0]) and not _decomps(interp, x[0]):
            if any(p.eq(x[0]) for p in u):
                continue       # would be circular
            _add_decomp(interp, x[0], u if u else [z3.StringVal('')])
            return
    for x, u in ((a, b), (b, a)):
        if _is_piece(x) and not x.eq(u):
            if _decomps(interp, x):
                continue
            un = norm(interp, u)
            if any(p.eq(x) for p in _flat_concat(un)):
                continue       # would be circular
            _add_decomp(interp, x, _flat_concat(un))
            return


def _is_atom(t):
    """a string term that is neither a literal nor a concatenation: a variable, an application of an
    uninterpreted function, an array element"""
    return z3.is_string(t) and not z3.is_string_value(t) and not (
        z3.is_app(t) and t.decl().kind() == z3.Z3_OP_SEQ_CONCAT)


def _len_of(p):
    if z3.is_string_value(p):
        return z3.IntVal(len(p.as_string()))
    return z3.Length(p)


def _cut_inside(interp, t, pieces, offs, j, a, base):
    """offset a of t falls inside piece j of the decomposition `pieces` (offs: its boundaries)"""
    pa, pb = cut(interp, pieces[j], z3.simplify(a - offs[j]), base)
    mid = [x for x in _flat_concat(pa) + _flat_concat(pb) if not (z3.is_string_value(x) and x.as_string() == '')]
    _add_decomp(interp, t, pieces[:j] + mid + pieces[j + 1:])
    return _cat(pieces[:j] + _flat_concat(pa)), _cat(_flat_concat(pb) + pieces[j + 1:])


def cut(interp, t, a, base='piece'):
    """(prefix, suffix) with t == prefix . suffix and |prefix| == a.  Requires 0 <= a <= |t| (established
    by the caller).  Pieces of earlier decompositions of t are re-used whenever a known boundary is
    provably at offset a, so that different slices of one string share their pieces syntactically."""
    st = interp.st
    a = z3.simplify(a)
    if z3.is_int_value(a) and a.as_long() == 0:
        return z3.StringVal(''), t
    if z3.is_string_value(t) and z3.is_int_value(a):
        sv = t.as_string()
        return z3.StringVal(sv[:a.as_long()]), z3.StringVal(sv[a.as_long():])
    decs = _decomps(interp, t)
    for pieces in reversed(decs):       # newest (most refined / most recently learned) first
        off = z3.IntVal(0)
        offs = [off]
        for p in pieces:
            off = z3.simplify(off + _len_of(p))
            offs.append(off)
        for j, o in enumerate(offs):
            if o.eq(a) or (j > 0 and st.len_must_hold(o == a)):
                return _cat(pieces[:j]), _cat(pieces[j:])
        # inside a piece?
        for j, p in enumerate(pieces):
            if z3.is_string_value(p) and len(p.as_string()) <= 1:
                continue
            if st.len_must_hold(z3.And(offs[j] <= a, a <= offs[j + 1])):
                return _cut_inside(interp, t, pieces, offs, j, a, base)
    if decs and len(decs[-1]) > 1 and not st.no_fork and not getattr(interp, 'assuming', 0):
        # (Not while a predicate is being assumed: what it says about a string that was cut differently
        # before is just taken as a fact; a caller that needs the two views aligned cuts again later.)
        # The offset is not known to be at a boundary or inside one particular piece: case split on where it
        # falls (rather than a fresh split of t that is unrelated to its pieces: word equations between
        # differently cut concatenations are what the solvers get lost in).
        pieces = decs[-1]
        off = z3.IntVal(0)
        offs = [off]
        for p in pieces:
            off = z3.simplify(off + _len_of(p))
            offs.append(off)
        for j in range(len(pieces)):
            if j == len(pieces) - 1 or st.fork(wrap(a <= offs[j + 1])):
                if j == len(pieces) - 1:
                    at_end = st.fork(wrap(a >= offs[j + 1]))
                else:
                    at_end = st.fork(wrap(a == offs[j + 1]))
                if at_end:
                    return _cat(pieces[:j + 1]), _cat(pieces[j + 1:])
                return _cut_inside(interp, t, pieces, offs, j, a, base)
    p = _fresh(interp, base)
    q = _fresh(interp, base)
    st.assume(t == z3.Concat(p, q))
    st.assume(z3.Length(p) == a)
    _add_decomp(interp, t, [p, q])
    note_concat(interp, t, [p, q])
    return p, q


def decompose(interp, s, lens, base='piece'):
    """Pieces p_0..p_k with s == p_0 . ... . p_k and |p_i| == lens[i]; at most one length may be None
    (that piece takes the rest).  The caller must have established that the lengths fit."""
    t = _s(s)
    k = len(lens)
    nones = [i for i, n in enumerate(lens) if n is None]
    if len(nones) > 1:
        return _decompose_free(interp, t, lens, base)
    pieces = [None] * k
    rest = t
    # cut known lengths from the left up to the free piece, then from the right
    i = 0
    while i < k and lens[i] is not None:
        p, rest = cut(interp, rest, _z(lens[i]), base)
        pieces[i] = p
        i += 1
    if i == k:
        return pieces
    tail_len = z3.IntVal(0)
    for n in lens[i + 1:]:
        tail_len = tail_len + _z(n)
    if i == k - 1:
        pieces[i] = rest
        return pieces
    mid, right = cut(interp, rest, z3.simplify(_len_of(rest) - tail_len), base)
    pieces[i] = mid
    for j in range(i + 1, k):
        p, right = cut(interp, right, _z(lens[j]), base)
        pieces[j] = p
    return pieces


def _z(n):
    if isinstance(n, int):
        return z3.IntVal(n)
    return n if z3.is_expr(n) else to_z3(n)


def _decompose_free(interp, t, lens, base):
    st = interp.st
    pieces = [_fresh(interp, base) for _ in lens]
    st.assume(t == (z3.Concat(*pieces) if len(pieces) > 1 else pieces[0]))
    for p, n in zip(pieces, lens):
        if n is not None:
            st.assume(z3.Length(p) == _z(n))
    _add_decomp(interp, t, pieces)
    note_concat(interp, t, pieces)
    return pieces


# ------------------------------------------------------------------------------ indexing / slicing

def _norm_index(i, L, interp=None):
    """python slice-bound normalisation as a z3 term (conditions that the path condition already
    decides are not left in the term: the string solvers are much faster without them)"""
    i = _s(i) if not z3.is_expr(i) else i
    if z3.is_int_value(i) and i.as_long() == 0:
        return i
    if interp is not None:
        st = interp.st
        if st.len_must_hold(i >= 0):
            if st.len_must_hold(i <= L):
                return i
            return z3.If(i > L, L, i)
        if st.len_must_hold(i < 0) and st.len_must_hold(i + L >= 0):
            return i + L
    return z3.If(i < 0, z3.If(i + L < 0, 0, i + L), z3.If(i > L, L, i))


def getitem(interp, s, idx):
    st = interp.st
    t = _s(s)
    L = z3.Length(t)
    if isinstance(idx, slice):
        if idx.step is not None and idx.step != 1:
            raise Unsupported('string slice with step')
        cache = st.ghost.setdefault('__slices__', {})
        a = z3.IntVal(0) if idx.start is None else z3.simplify(_norm_index(idx.start, L, interp))
        b = z3.simplify(L) if idx.stop is None else z3.simplify(_norm_index(idx.stop, L, interp))
        key = (t.get_id(), a.sexpr(), b.sexpr())
        if key in cache and cache[key][2] <= st._scope_ids():
            return cache[key][0]
        if st.len_must_hold(b >= a):
            mid_len = z3.simplify(b - a)
            a_len = a
        else:
            mid_len = z3.simplify(z3.If(b > a, b - a, 0))
            a_len = a
        if idx.start is None:
            m, r = decompose(interp, t, [mid_len, None], 'slice')
            res = wrap(m)
        elif idx.stop is None:
            p, m = decompose(interp, t, [a, None], 'slice')
            res = wrap(m)
        else:
            p, m, r = decompose(interp, t, [a_len, mid_len, None], 'slice')
            res = wrap(m)
        cache[key] = (res, t, st._scope_ids())
        return res
    i = _s(idx)
    if st.fork(wrap(z3.And(i >= 0, i < L))):
        p, c, r = decompose(interp, t, [i, 1, None], 'char')
        return wrap(c)
    if st.fork(wrap(z3.And(i < 0, i >= -L))):
        p, c, r = decompose(interp, t, [L + i, 1, None], 'char')
        return wrap(c)
    raise _pyraise(IndexError('string index out of range'))


# ------------------------------------------------------------------------------ searching

def _find(interp, s, sub, start, reverse, raise_on_missing):
    st = interp.st
    t = _s(s)
    u = _s(sub)
    if start is not None:
        a = _norm_index(start, z3.Length(t), interp)
        pre, rest = decompose(interp, t, [z3.simplify(a), None], 'from')
        r = _find(interp, wrap(rest), sub, None, reverse, raise_on_missing)
        if isinstance(r, int) and r == -1:
            return -1
        return wrap(_s(r) + z3.Length(pre)) if not (isinstance(r, int) and r == -1) else -1
    if z3.is_string_value(u) and len(_lit(u)) == 1:
        loc = _locate_single(interp, t, _lit(u), reverse)
        if loc is not None and loc[0] == 'at':
            return wrap(z3.Length(loc[1]))
        if loc is not None and loc[0] == 'absent':
            if raise_on_missing:
                raise _pyraise(ValueError('substring not found'))
            return -1
    if not st.fork(wrap(contains_term(interp, t, u))):
        if raise_on_missing:
            raise _pyraise(ValueError('substring not found'))
        return -1
    p, m, q = decompose(interp, t, [None, None, None], 'find')
    st.assume(m == u)
    single = z3.is_string_value(u) and len(_lit(u)) == 1
    if single:
        st.assume(count_term(interp, q if reverse else p, _lit(u)) == 0)
    else:
        if reverse:
            st.assume(z3.LastIndexOf(t, u) == z3.Length(p))
        else:
            st.assume(z3.IndexOf(t, u, 0) == z3.Length(p))
    return wrap(z3.Length(p))


def _split_once(interp, s, sep, reverse=False):
    """(found, head, tail)"""
    st = interp.st
    t = _s(s)
    u = _s(sep)
    if z3.is_string_value(u) and len(_lit(u)) == 1:
        loc = _locate_single(interp, t, _lit(u), reverse)
        if loc is not None and loc[0] == 'at':
            return True, wrap(loc[1]), wrap(loc[2])
        if loc is not None and loc[0] == 'absent':
            return False, wrap(t), None
    if not st.fork(wrap(contains_term(interp, t, u))):
        return False, wrap(t), None
    p, m, q = decompose(interp, t, [None, None, None], 'split')
    st.assume(m == u)
    single = z3.is_string_value(u) and len(_lit(u)) == 1
    if single:
        st.assume(count_term(interp, q if reverse else p, _lit(u)) == 0)
    elif reverse:
        st.assume(z3.LastIndexOf(t, u) == z3.Length(p))
    else:
        st.assume(z3.IndexOf(t, u, 0) == z3.Length(p))
    return True, wrap(p), wrap(q)


_STRIP_DEFAULT = None


def _char_class_re(chars):
    return z3.Star(z3.Union(*[z3.Re(z3.StringVal(c)) for c in chars])) if len(chars) > 1 \
        else z3.Star(z3.Re(z3.StringVal(chars)))


def _strip(interp, s, chars, left, right):
    """s.strip/lstrip/rstrip(chars): the result is an uninterpreted function of s (so that equal
    arguments give syntactically equal results), defined by: s == a . r . b, a and b consist of
    characters of `chars` only, r neither starts (left) nor ends (right) with such a character."""
    st = interp.st
    t = _s(s)
    if chars is None:
        # Unicode white space: the result is an uninterpreted function of s (a part of s: not longer; the
        # empty string stays empty).  Enough where the result is only passed on.
        kind0 = ('l' if left else '') + ('r' if right else '')
        f0 = z3.Function('str.%sstrip_ws' % {'lr': '', 'l': 'l', 'r': 'r'}[kind0], z3.StringSort(), z3.StringSort())
        r0 = f0(t)
        st.axiom(z3.Length(r0) <= z3.Length(t))
        return wrap(r0)
    if isinstance(chars, Sym) or not chars:
        raise Unsupported('strip with symbolic character set')
    chars = ''.join(sorted(set(chars)))      # (the set of characters is what matters)
    kind = ('l' if left else '') + ('r' if right else '')
    f = z3.Function('str.%sstrip_%s' % ({'lr': '', 'l': 'l', 'r': 'r'}[kind],
                                        ''.join('u%04x' % ord(c) for c in chars)), z3.StringSort(),
                    z3.StringSort())
    r = f(t)
    key = ('__strip__', kind, chars, t.get_id())
    if key not in st.ghost:
        st.ghost[key] = t
        cls = _char_class_re(chars)
        a = _fresh(interp, 'strip.l') if left else z3.StringVal('')
        b = _fresh(interp, 'strip.r') if right else z3.StringVal('')
        # the definition of the function at this argument: holds in every context (not scoped)
        st.axiom(t == _cat([a, r, b]))
        # "consists of characters of `chars` only" is the additive measure all_in_<chars> (no regular
        # expression: membership of a variable in a starred class is where the solvers get lost)
        if left:
            st.axiom(all_term(interp, a, all_in_name(chars)))
            st.axiom(z3.And(*[z3.Not(z3.PrefixOf(z3.StringVal(c), r)) for c in chars]))
        if right:
            st.axiom(all_term(interp, b, all_in_name(chars)))
            st.axiom(z3.And(*[z3.Not(z3.SuffixOf(z3.StringVal(c), r)) for c in chars]))
        _add_decomp(interp, t, [x for x in (a, r, b) if not (z3.is_string_value(x) and x.as_string() == '')],
                    universal=True)
        note_concat(interp, t, [a, r, b])
    return wrap(r)


def _upred(interp, name, s):
    """uninterpreted character-class predicate (isalnum, isspace, ...): consistent, otherwise unknown"""
    t = _s(s)
    st = interp.st
    if name in ALL_PREDS:
        a = all_term(interp, t, name)
        return wrap(z3.And(z3.Length(t) > 0, a) if ALL_PREDS[name] else a)
    f = z3.Function('str.' + name, z3.StringSort(), z3.BoolSort())
    st.axiom(z3.Not(f(z3.StringVal(''))))
    return wrap(f(t))


def call_method(interp, recv, name, args, kwargs):
    st = interp.st
    args = [interp.resolve(a) if isinstance(a, (SOpt, SChoice)) else a for a in args]
    t = _s(recv)
    if name in ('startswith', 'endswith'):
        f = z3.PrefixOf if name == 'startswith' else z3.SuffixOf
        x = args[0]
        if len(args) > 1:
            raise Unsupported('%s with start/end' % name)
        tn = norm(interp, t)
        if isinstance(x, tuple):
            return wrap(z3.Or(*[f(_sn(interp, y), tn) for y in x])) if x else False
        if isinstance(x, str) and len(x) == 1 and not st.no_fork:
            r = z3.simplify(f(z3.StringVal(x), tn))
            if z3.is_true(r) or z3.is_false(r):
                return z3.is_true(r)
            # the first / last character as a piece of its own: ties the answer to the counting measure
            if not st.fork(wrap(z3.Length(t) >= 1)):
                return False
            if name == 'startswith':
                c, _rest = decompose(interp, t, [1, None], 'char')
            else:
                _rest, c = decompose(interp, t, [None, 1], 'char')
            for ch, fn in _count_fns(interp).items():
                _count_facts(interp, fn, ch, c)
            return wrap(c == z3.StringVal(x))
        return wrap(f(_sn(interp, x), tn))
    if name in ('find', 'index', 'rfind', 'rindex'):
        if len(args) > 3:
            raise _pyraise(TypeError('%s() takes at most 3 arguments' % name))
        start = args[1] if len(args) > 1 else None
        end = args[2] if len(args) > 2 else None
        if end is not None or (name.startswith('r') and start is not None):
            # s.find(sub, a, b) searches the slice s[a:b] (an occurrence must lie inside it)
            if start is None or (isinstance(start, int) and start == 0):
                base = 0
            else:
                base = wrap(z3.simplify(_norm_index(start, z3.Length(t), interp)))
            mid = getitem(interp, recv, slice(start, end, None))
            r = _find(interp, mid, args[0], None, name.startswith('r'), name.endswith('index'))
            if isinstance(r, int) and r == -1:
                return -1
            return r if (isinstance(base, int) and base == 0) else wrap(_s(r) + _s(base))
        return _find(interp, recv, args[0], start, name.startswith('r'), name.endswith('index'))
    if name in ('split', 'rsplit'):
        sep = args[0] if args else kwargs.get('sep')
        maxsplit = args[1] if len(args) > 1 else kwargs.get('maxsplit', -1)
        if isinstance(sep, str) and len(sep) == 1 and isinstance(maxsplit, int) and maxsplit == -1:
            return split_all(interp, recv, sep)
        if sep is None or maxsplit != 1:
            raise Unsupported('str.%s without separator or with maxsplit != 1' % name)
        found, a, b = _split_once(interp, recv, sep, reverse=(name == 'rsplit'))
        return [a, b] if found else [a]
    if name in ('partition', 'rpartition'):
        found, a, b = _split_once(interp, recv, args[0], reverse=(name == 'rpartition'))
        if found:
            return (a, args[0], b)
        return (a, '', '') if name == 'partition' else ('', '', a)
    if name in ('strip', 'lstrip', 'rstrip'):
        chars = args[0] if args else None
        return _strip(interp, recv, chars, name != 'rstrip', name != 'lstrip')
    if name == 'count':
        sub = args[0]
        if isinstance(sub, str) and len(sub) == 1 and len(args) <= 3:
            if len(args) > 1:
                # s.count(c, a, b) counts in the slice s[a:b]
                t = _s(getitem(interp, recv, slice(args[1], args[2] if len(args) > 2 else None, None)))
            return wrap(count_term(interp, t, sub))
        raise Unsupported('count of a non-single-character')
    if name in ('isspace', 'isalnum', 'isdigit', 'isalpha', 'isidentifier', 'isupper', 'islower', 'isnumeric',
                'isdecimal', 'isprintable', 'isascii'):
        return _upred(interp, name, recv)
    if name in ('upper', 'lower', 'casefold', 'title', 'capitalize', 'swapcase', 'expandtabs'):
        f = z3.Function('str.' + name, z3.StringSort(), z3.StringSort())
        return wrap(f(t))
    if name == 'join':
        from . import models
        return models.m_str_join(interp, recv, args, kwargs)
    if name == 'format' or name == '__mod__':
        return SStr(_fresh(interp, 'fmt'))
    if name == 'replace':
        old, new = args[0], args[1]
        count = args[2] if len(args) > 2 else -1
        if count == 1:
            return wrap(z3.Replace(t, _s(old), _s(new)))
        if isinstance(old, str) and isinstance(new, str):
            if hasattr(z3, 'ReplaceAll'):
                return wrap(z3.ReplaceAll(t, _s(old), _s(new)))
        raise Unsupported('str.replace (all occurrences) with symbolic pattern')
    if name == 'encode':
        raise Unsupported('str.encode on symbolic string')
    if name == '__len__':
        return wrap(z3.Length(t))
    if name == '__add__':
        return concat(interp, recv, args[0])
    if name == '__contains__':
        return wrap(contains_term(interp, t, _s(args[0])))
    if name in ('splitlines',):
        raise Unsupported('str.splitlines on symbolic string (give the function a contract / model)')
    if name in ('removeprefix', 'removesuffix'):
        x = _s(args[0])
        if name == 'removeprefix':
            if st.fork(wrap(z3.PrefixOf(x, t))):
                a, b = decompose(interp, t, [z3.Length(x), None], 'rmprefix')
                return wrap(b)
            return recv
        if st.fork(wrap(z3.SuffixOf(x, t))):
            a, b = decompose(interp, t, [None, z3.Length(x)], 'rmsuffix')
            return wrap(a)
        return recv
    raise Unsupported('str.%s on symbolic string' % name)


def str_of_int(interp, n):
    t = n.t
    return wrap(z3.If(t >= 0, z3.IntToStr(t), z3.Concat(z3.StringVal('-'), z3.IntToStr(-t))))


def int_of_str(interp, s):
    """int(s): valid decimal literal (optionally signed) or ValueError; other accepted forms
    (white space, underscores, non-ASCII digits) are abstracted by an uninterpreted validity
    predicate and value function."""
    st = interp.st
    t = _s(s)
    valid = z3.Function('int.valid', z3.StringSort(), z3.BoolSort())
    val = z3.Function('int.value', z3.StringSort(), z3.IntSort())
    digits = z3.Plus(z3.Range('0', '9'))
    plain = z3.InRe(t, digits)
    st.assume(z3.Implies(plain, z3.And(valid(t), val(t) == z3.StrToInt(t))))
    neg = z3.InRe(t, z3.Concat(z3.Re(z3.StringVal('-')), digits))
    if not st.fork(wrap(valid(t))):
        raise _pyraise(ValueError('invalid literal for int()'))
    return wrap(val(t))


# ------------------------------------------------------------------------------ join measure / split

def _join_fn(sep):
    name = 'join_' + ''.join('u%04x' % ord(c) for c in sep)
    return z3.Function(name, z3.ArraySort(z3.IntSort(), z3.StringSort()), z3.IntSort(), z3.StringSort())


def _join_def(interp, J, sep, arr, n):
    """instance at (arr, n) of the recursive definition of  sep.join(first n elements of arr)"""
    st = interp.st
    key = ('__join_def__', sep, arr.get_id(), z3.simplify(n).sexpr())
    if key in st.ghost:
        return
    st.ghost[key] = (arr, n)
    sv = z3.StringVal(sep)
    st.axiom(z3.Implies(n <= 0, J(arr, n) == z3.StringVal('')))
    st.axiom(z3.Implies(n == 1, J(arr, n) == z3.Select(arr, 0)))
    st.axiom(z3.Implies(n >= 2, J(arr, n) == z3.Concat(J(arr, n - 1), sv, z3.Select(arr, n - 1))))


def join_term(interp, xs, sep):
    """sep.join(xs) for a symbolic list of strings: a measure J(array, length), defined by recursion on the
    length; the instances that tie it to the way the list was built (append, removal of the last element,
    str.split) are added where those operations happen."""
    from .mlist import MList
    st = interp.st
    if not isinstance(sep, str):
        raise Unsupported('str.join with symbolic separator over a symbolic-length sequence')
    if not isinstance(xs, MList) or xs.shape != ('str',):
        if isinstance(xs, MList) and xs.shape is None:
            return ''
        raise Unsupported('str.join over symbolic-length sequence that is not a list of strings (MListOf(Str))')
    J = _join_fn(sep)
    arr, n = xs.arrs[()], xs.length
    t = J(arr, n)
    _join_def(interp, J, sep, arr, n)
    sv = z3.StringVal(sep)
    # follow the recorded history of the list: each step is an instance of the definition plus the frame
    # property (elements beyond the length do not matter)
    h = xs.hist
    cur = t
    depth = 0
    while h is not None and depth < 4:
        kind = h[0]
        if kind == 'append':
            _, arr0, n0, v, prev = h
            old = J(arr0, n0)
            vt = _s(v)
            st.axiom(cur == z3.If(n0 <= 0, vt, z3.Concat(old, sv, vt)))
            if st.len_must_hold(n0 >= 1) and not _decomps(interp, cur):
                _add_decomp(interp, cur, _flat_concat(norm(interp, z3.Concat(old, sv, vt))))
            cur = old
        elif kind == 'poplast':
            _, arr0, n0, prev = h          # state before: (arr0, n0); now (arr0, n0 - 1)
            before = J(arr0, n0)
            last = z3.Select(arr0, n0 - 1)
            st.axiom(z3.Implies(n0 >= 2, before == z3.Concat(cur, sv, last)))
            st.axiom(z3.Implies(n0 == 1, before == last))
            if st.len_must_hold(n0 >= 2) and not _decomps(interp, before):
                _add_decomp(interp, before, _flat_concat(norm(interp, z3.Concat(cur, sv, last))))
            cur = before
        elif kind == 'is':
            # the list was created with a known joined value (str.split)
            _, whole = h[:2]
            prev = None
            if not cur.eq(whole):
                st.axiom(cur == whole)
                if not _decomps(interp, cur):
                    _add_decomp(interp, cur, _flat_concat(norm(interp, whole)))
        else:
            break
        h = prev
        depth += 1
    return t


def join_slist(interp, sep, xs):
    return wrap(join_term(interp, xs, sep))


def split_all(interp, s, ch):
    """s.split(ch) for a single character ch: the list L with ch.join(L) == s, len(L) == count(ch, s) + 1 and
    no element containing ch.  Given through: the length, the join measure, the last element (aligned with
    the known pieces of s) and the join of the others."""
    from .mlist import MList, from_concrete
    st = interp.st
    t = _s(s)
    loc = _locate_single(interp, t, ch, True)
    if loc is None:
        raise Unsupported('str.split in a context where no case split is possible')
    if loc[0] == 'absent':
        xs = from_concrete(interp, [wrap(t)], 'split')
        xs.hist = ('is', t, None)
        return xs
    head, last = loc[1], loc[2]
    xs = MList(interp, st.fresh_name('split'), ('str',))
    n = st.fresh_int('split.len')
    st.assume(n == count_term(interp, t, ch) + 1)
    st.assume(n >= 2)
    xs.length = n
    arr = xs.arrs[()]
    J = _join_fn(ch)
    st.assume(z3.Select(arr, n - 1) == last)
    st.assume(J(arr, n) == t)
    st.assume(J(arr, n - 1) == head)
    # no element contains the separator
    j = z3.Int('j!split')
    f = count_fn(interp, ch)
    st.assume(z3.ForAll([j], z3.Implies(z3.And(j >= 0, j < n), f(z3.Select(arr, j)) == 0)))
    xs.hist = ('is', t, None)
    return xs
