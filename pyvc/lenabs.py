"""Length abstraction of the path condition.

Questions about offsets into strings ("is this cut position inside that piece?") are linear
integer arithmetic over the lengths of the string variables.  Asking the string solver is slow and
often `unknown`; here every fact of the context is abstracted to what it says about lengths
(s == p.q  gives  |s| == |p| + |q|, ...), which is implied by the fact (an over-approximation of the
context), and the question is decided in pure LIA.  Sound for "must hold" (the abstraction of the
context is weaker than the context, the abstraction of the goal is stronger than the goal) and
for "infeasible"; never used to conclude "feasible" or "does not hold".
"""
try:
    import z3
except ImportError:
    z3 = None

TIMEOUT_MS = 2000


class LenAbs:
    def __init__(self):
        self.solver = z3.Solver()
        self.solver.set('timeout', TIMEOUT_MS)
        self.lens = {}
        self.opaque = {}
        self.keep = []
        self.memo = {}        # (term id, polarity) -> abstraction
        self.memo_int = {}    # term id -> abstraction of an integer term
        self.memo_len = {}
        self.known_true = {}  # term id -> list of scope-id sets under which it was found to hold
        self.known_false = {} # (term id, scope ids) -> number of facts at the time
        self.nfacts = 0
        self.n = 0

    # ---- terms
    def len_of(self, s):
        if z3.is_string_value(s):
            return z3.simplify(z3.Length(s))
        if z3.is_app(s) and s.decl().kind() == z3.Z3_OP_SEQ_CONCAT:
            return z3.Sum([self.len_of(c) for c in s.children()])
        if z3.is_app(s) and s.decl().kind() == z3.Z3_OP_ITE:
            c, a, b = s.children()
            ce = self.exact(c)
            if ce is not None:
                return z3.If(ce, self.len_of(a), self.len_of(b))
        i = s.get_id()
        v = self.lens.get(i)
        if v is None:
            self.n += 1
            v = z3.Int('len!%d' % self.n)
            self.lens[i] = v
            self.keep.append(s)
            self.solver.add(v >= 0)
        return v

    def int_term(self, t):
        i = t.get_id()
        r = self.memo_int.get(i)
        if r is None:
            r = self._int_term(t)
            self.memo_int[i] = r
            self.keep.append(t)
        return r

    def _int_term(self, t):
        if z3.is_int_value(t):
            return t
        if not z3.is_app(t):
            return self._opaque(t)
        k = t.decl().kind()
        if k == z3.Z3_OP_SEQ_LENGTH:
            a = t.arg(0)
            if z3.is_string(a):
                return self.len_of(a)
            return self._opaque(t)
        if k == z3.Z3_OP_UNINTERPRETED and t.num_args() == 0:
            return t
        if k in (z3.Z3_OP_ADD, z3.Z3_OP_SUB, z3.Z3_OP_MUL, z3.Z3_OP_UMINUS, z3.Z3_OP_IDIV, z3.Z3_OP_MOD,
                 z3.Z3_OP_DIV):
            cs = [self.int_term(c) for c in t.children()]
            if k == z3.Z3_OP_ADD:
                return z3.Sum(cs)
            if k == z3.Z3_OP_SUB:
                r = cs[0]
                for c in cs[1:]:
                    r = r - c
                return r
            if k == z3.Z3_OP_MUL:
                r = cs[0]
                for c in cs[1:]:
                    r = r * c
                return r
            if k == z3.Z3_OP_UMINUS:
                return -cs[0]
            return self._opaque(t)
        if k == z3.Z3_OP_ITE:
            c, a, b = t.children()
            ce = self.exact(c)
            if ce is not None:
                return z3.If(ce, self.int_term(a), self.int_term(b))
            return self._opaque(t)
        return self._opaque(t)

    def _opaque(self, t):
        i = t.get_id()
        v = self.opaque.get(i)
        if v is None:
            self.n += 1
            v = z3.Int('opq!%d' % self.n)
            self.opaque[i] = v
            self.keep.append(t)
        return v

    # ---- formulas
    def exact(self, t):
        """the abstraction of t if it loses nothing (pure integer / boolean structure), else None"""
        o, u = self.over(t), self.under(t)
        if o is not None and u is not None and o.eq(u):
            return o
        return None

    def over(self, t):
        """formula implied by t"""
        return self._abs(t, True)

    def under(self, t):
        """formula that implies t"""
        return self._abs(t, False)

    def _abs(self, t, pos):
        key = (t.get_id(), pos)
        r = self.memo.get(key)
        if r is None:
            r = self._abs1(t, pos)
            self.memo[key] = r
            self.keep.append(t)
        return r

    def _abs1(self, t, pos):
        no_info = z3.BoolVal(True) if pos else z3.BoolVal(False)
        if z3.is_quantifier(t) or not z3.is_app(t):
            return no_info
        if z3.is_true(t) or z3.is_false(t):
            return t
        k = t.decl().kind()
        cs = t.children()
        if k == z3.Z3_OP_AND:
            return z3.And(*[self._abs(c, pos) for c in cs]) if cs else z3.BoolVal(True)
        if k == z3.Z3_OP_OR:
            return z3.Or(*[self._abs(c, pos) for c in cs]) if cs else z3.BoolVal(False)
        if k == z3.Z3_OP_NOT:
            return z3.Not(self._abs(cs[0], not pos))
        if k == z3.Z3_OP_IMPLIES:
            return z3.Or(z3.Not(self._abs(cs[0], not pos)), self._abs(cs[1], pos))
        if k == z3.Z3_OP_ITE and z3.is_bool(cs[1]):
            return z3.Or(z3.And(self._abs(cs[0], pos), self._abs(cs[1], pos)),
                         z3.And(z3.Not(self._abs(cs[0], not pos)), self._abs(cs[2], pos)))
        if k == z3.Z3_OP_UNINTERPRETED and t.num_args() == 0:
            return t
        if k in (z3.Z3_OP_EQ, z3.Z3_OP_DISTINCT) and len(cs) == 2:
            a, b = cs
            neg = (k == z3.Z3_OP_DISTINCT)
            if z3.is_int(a):
                r = self.int_term(a) == self.int_term(b)
                return z3.Not(r) if neg else r
            if z3.is_bool(a):
                if neg:
                    return no_info
                return z3.And(z3.Or(z3.Not(self._abs(a, not pos)), self._abs(b, pos)),
                              z3.Or(z3.Not(self._abs(b, not pos)), self._abs(a, pos)))
            if z3.is_string(a):
                if a.eq(b):
                    return z3.BoolVal(not neg)
                for x, y in ((a, b), (b, a)):
                    if z3.is_string_value(y) and y.as_string() == '':
                        r = self.len_of(x) == 0       # exact
                        return z3.Not(r) if neg else r
                if neg:
                    return no_info
                return (self.len_of(a) == self.len_of(b)) if pos else no_info
            return no_info
        if k in (z3.Z3_OP_LE, z3.Z3_OP_LT, z3.Z3_OP_GE, z3.Z3_OP_GT) and z3.is_int(cs[0]):
            a, b = self.int_term(cs[0]), self.int_term(cs[1])
            return {z3.Z3_OP_LE: a <= b, z3.Z3_OP_LT: a < b, z3.Z3_OP_GE: a >= b, z3.Z3_OP_GT: a > b}[k]
        if k == z3.Z3_OP_SEQ_CONTAINS and z3.is_string(cs[0]):
            return (self.len_of(cs[1]) <= self.len_of(cs[0])) if pos else no_info
        if k in (z3.Z3_OP_SEQ_PREFIX, z3.Z3_OP_SEQ_SUFFIX) and z3.is_string(cs[0]):
            return (self.len_of(cs[0]) <= self.len_of(cs[1])) if pos else no_info
        return no_info

    # ---- context
    def add(self, t):
        a = z3.simplify(self.over(t))
        if not z3.is_true(a):
            self.solver.add(a)
            self.nfacts += 1

    def must_hold(self, t, scopes=()):
        """True only if the context entails t (decided on lengths alone)"""
        i = t.get_id()
        sc = frozenset(s.get_id() for s in scopes)
        for known in self.known_true.get(i, ()):
            if known <= sc:
                return True        # the context only grows: what held still holds
        if self.known_false.get((i, sc)) == self.nfacts:
            return False
        g = self.under(t)
        if z3.is_false(z3.simplify(g)):
            r = False
        else:
            extra = [self.over(s) for s in scopes]
            r = self.solver.check(*(extra + [z3.Not(g)])) == z3.unsat
        self.keep.append(t)
        self.keep.extend(scopes)
        if r:
            self.known_true.setdefault(i, []).append(sc)
        else:
            self.known_false[(i, sc)] = self.nfacts
        return r

    def infeasible(self, t, scopes=()):
        """True only if the context together with t is unsatisfiable (decided on lengths alone)"""
        extra = [self.over(s) for s in scopes]
        return self.solver.check(*(extra + [self.over(t)])) == z3.unsat
