"""CPython cross-check of the interpreter (DESIGN 2.4): with concrete inputs the symbolic interpreter is
an ordinary interpreter.  For every function under contract whose parameter shapes have a concrete
reconstruction, random concrete inputs (seeded) are run through the interpreter and through CPython;
result / exception class must agree.

  python3-vt -m pyvc.crosscheck C13 [--runs 30]
"""
import argparse
import copy
import os
import random
import sys
import threading
import traceback
import types

from . import VERIF

if VERIF not in sys.path:
    sys.path.insert(0, VERIF)


def _same(a, b, depth=0):
    if depth > 4:
        return True
    if type(a) is not type(b):
        return type(a).__name__ == type(b).__name__ and type(a).__name__.startswith('Stub_')
    if type(a).__name__ in ('_Anything',) or type(a).__name__.startswith('Stub_'):
        return True
    if isinstance(a, (int, str, bool, float, type(None), bytes)):
        return a == b
    if isinstance(a, (list, tuple)):
        return len(a) == len(b) and all(_same(x, y, depth + 1) for x, y in zip(a, b))
    if isinstance(a, dict):
        return set(a) == set(b) and all(_same(a[k], b[k], depth + 1) for k in a)
    da, db = getattr(a, '__dict__', None), getattr(b, '__dict__', None)
    if isinstance(da, dict) and isinstance(db, dict):
        return set(da) == set(db) and all(_same(da[k], db[k], depth + 1) for k in da)
    return True


def run(prop, runs, seed):
    from . import check, frontend
    from .api import RandomCtx, NoConcrete, Ty
    from .interp import Interp, PyRaise, GenObj
    from .path import PathState, Unsupported, PathAbort
    mods = check.load_modules()
    reg = check.build_registry(mods)
    total = 0
    compared = 0
    skipped = {}
    failures = []
    for q, c in reg.contracts.items():
        if prop not in c.props or c.trusted or c.func is None:
            continue
        for k in range(runs):
            rnd = random.Random('%s/%s/%d' % (seed, q, k))
            cx1, cx2 = RandomCtx(rnd), None
            try:
                args1 = {n: (t.concrete(cx1, n) if isinstance(t, Ty) else t) for n, t in c.params.items()}
                cx2 = RandomCtx(rnd)
                cx2.model = cx1.model          # the same (lazily filled) valuation for both runs
                args2 = {n: (t.concrete(cx2, n) if isinstance(t, Ty) else t) for n, t in c.params.items()}
            except NoConcrete as e:
                skipped[q] = str(e)
                break
            except Exception as e:
                skipped[q] = 'cannot build inputs: %r' % (e,)
                break
            total += 1
            code = c.func.__code__
            names = list(code.co_varnames[:code.co_argcount + code.co_kwonlyargcount])
            try:
                pos1 = [args1[n] for n in names[:code.co_argcount]]
                pos2 = [args2[n] for n in names[:code.co_argcount]]
            except KeyError as e:
                skipped[q] = 'parameter without shape: %s' % e
                break
            try:
                r1 = c.func(*pos1)
                if isinstance(r1, types.GeneratorType):
                    r1 = list(r1)
                o1 = ('return', r1)
            except Exception as e:
                o1 = ('raise', type(e))
            st = PathState([], {})
            interp = Interp(st, reg)
            # the function itself and everything it calls is interpreted (contracts are not used)
            saved = reg.by_func
            reg.by_func = {}
            try:
                r2 = interp.call_real_function(c.func, pos2, {}, c.owner)
                if isinstance(r2, GenObj):
                    r2 = list(interp.iterate(r2))
                o2 = ('return', r2)
            except PyRaise as e:
                o2 = ('raise', type(e.exc))
            except (Unsupported, PathAbort) as e:
                skipped[q] = 'interpreter: %s' % e
                reg.by_func = saved
                break
            except Exception:
                failures.append((q, dict(cx1.model), 'interpreter crashed: ' + traceback.format_exc()[-600:]))
                reg.by_func = saved
                break
            finally:
                reg.by_func = saved
            compared += 1
            if o1[0] != o2[0] or (o1[0] == 'raise' and o1[1] is not o2[1]) or \
                    (o1[0] == 'return' and not _same(o1[1], o2[1])):
                failures.append((q, dict(cx1.model), 'native %r vs interpreted %r' % (o1, o2)))
    return {'functions': total, 'compared': compared, 'skipped': skipped, 'failures': failures}


def main():
    ap = argparse.ArgumentParser()
    ap.add_argument('prop')
    ap.add_argument('--runs', type=int, default=20)
    args = ap.parse_args()
    seed = int(os.environ.get('VERIF_SEED', '0') or 0)
    out = {}

    def body():
        out['r'] = run(args.prop, args.runs, seed)

    sys.setrecursionlimit(20000)
    threading.stack_size(256 * 1024 * 1024)
    t = threading.Thread(target=body)
    t.start()
    t.join()
    r = out['r']
    print('interpreter cross-check %s: %d runs compared, %d failures, %d functions skipped'
          % (args.prop, r['compared'], len(r['failures']), len(r['skipped'])))
    for q, why in sorted(r['skipped'].items()):
        print('  skipped', q, '--', why[:150])
    for f in r['failures'][:20]:
        print('  FAILURE', f)
    return 1 if r['failures'] else 0


if __name__ == '__main__':
    sys.exit(main())
