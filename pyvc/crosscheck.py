"""CPython cross-check of the interpreter (DESIGN 2.4): with concrete inputs the symbolic interpreter is
an ordinary interpreter.  For every function under contract whose parameter shapes have a concrete
reconstruction, random concrete inputs (seeded) are run through the interpreter and through CPython;
result / exception class must agree.

  python3-vt -m pyvc.crosscheck C13 [--runs 30]
"""
import argparse
import copy
import os
import random
import sys
import threading
import traceback
import types

from . import VERIF

if VERIF not in sys.path:
    sys.path.insert(0, VERIF)


def _plain(v, depth=0):
    """plain data: what the comparison is meaningful for"""
    import enum
    if isinstance(v, (int, str, bool, float, type(None), bytes, enum.Enum)):
        return True
    if depth < 4 and isinstance(v, (list, tuple)):
        return all(_plain(x, depth + 1) for x in v)
    if depth < 4 and isinstance(v, dict):
        return all(_plain(k, depth + 1) and _plain(x, depth + 1) for k, x in v.items())
    return False


def _same(a, b, depth=0):
    """Comparison of the two results.  Plain data is compared exactly; for other objects the classes and, as far
    as they are plain data, the attributes are compared (functions, stubs and objects of the engine are not)."""
    if isinstance(a, str) and isinstance(b, str) and (
            'Traceback (most recent call last)' in a or 'Traceback (most recent call last)' in b or a == '' or b == ''):
        return True        # texts of tracebacks differ between the interpreter and CPython (or are modelled empty)
    if hasattr(a, '__next__') and hasattr(b, '__next__'):
        # two iterators (e.g. the native `enumerate` and the interpreter's lazy enumerate): the same items
        try:
            return _same(list(a), list(b), depth + 1)
        except Exception:
            return False
    if _plain(a) and _plain(b):
        return type(a) is type(b) and a == b
    if _plain(a) != _plain(b):
        return False
    if isinstance(a, (list, tuple)) and isinstance(b, (list, tuple)):
        return len(a) == len(b) and all(_same(x, y, depth + 1) for x, y in zip(a, b))
    na, nb = type(a).__name__, type(b).__name__
    if na.startswith('Stub_') or nb.startswith('Stub_') or na in ('_Anything',) or nb in ('_Anything',):
        return True
    callables = ('function', 'method', 'Closure', 'BoundMethod', 'builtin_function_or_method', 'partial')
    if na in callables or nb in callables:
        return (na in callables) == (nb in callables)
    if {na, nb} == {'generator', 'GenObj'}:
        return True        # a generator that has not been started: CPython's object and the interpreter's (an engine object)
    if na != nb:
        return False
    if depth > 3:
        return True
    da, db = getattr(a, '__dict__', None), getattr(b, '__dict__', None)
    if isinstance(da, dict) and isinstance(db, dict):
        return set(da) == set(db) and all(_same(da[k], db[k], depth + 1) for k in da)
    return True


class _Blocked(Exception):
    """a primitive with effects outside the process was reached during the native run"""


def _block_effects():
    """The native side of the cross-check must not touch the world: processes, the file system (outside the
    scratch cwd it runs in), the working directory.  Blocked primitives raise _Blocked; such runs are skipped."""
    import os
    import shutil
    import subprocess
    import pathlib
    import tempfile

    def blocked(*a, **k):
        raise _Blocked()

    for mod, names in ((subprocess, ('call', 'run', 'Popen', 'check_call', 'check_output')),
                       (shutil, ('rmtree', 'copy', 'copy2', 'copytree', 'move', 'copyfile')),
                       (os, ('chdir', 'remove', 'unlink', 'rmdir', 'mkdir', 'makedirs', 'rename', 'replace', 'system',
                             'chmod', 'symlink', 'link', 'removedirs', 'utime', 'truncate', 'open')),
                       (tempfile, ('mkdtemp', 'mkstemp'))):
        for n in names:
            if hasattr(mod, n):
                setattr(mod, n, blocked)
    for n in ('mkdir', 'touch', 'unlink', 'rmdir', 'rename', 'replace', 'chmod', 'symlink_to', 'write_text',
              'write_bytes', 'open', 'hardlink_to'):
        if hasattr(pathlib.Path, n):
            setattr(pathlib.Path, n, blocked)
    import builtins
    real_open = builtins.open

    def guarded_open(file, mode='r', *a, **k):
        if any(c in mode for c in 'wax+'):
            raise _Blocked()
        return real_open(file, mode, *a, **k)

    builtins.open = guarded_open
    import io
    io.open = guarded_open


def run(prop, runs, seed):
    import os
    import tempfile
    # NOTE: blocks effectful primitives for the rest of this process: run it in a process of its own
    # (python3-vt -m pyvc.crosscheck ...; pyvc.check starts it as a subprocess)
    scratch = tempfile.mkdtemp(prefix='pyvc-crosscheck-')
    here = os.getcwd()
    real_chdir, real_rmdir = os.chdir, os.rmdir
    real_chdir(scratch)
    try:
        _block_effects()
        return _run(prop, runs, seed)
    finally:
        real_chdir(here)
        try:
            real_rmdir(scratch)
        except Exception:
            pass


def _run(prop, runs, seed):
    from . import check, frontend
    from .api import RandomCtx, NoConcrete, Ty
    from .interp import Interp, PyRaise, GenObj
    from .path import PathState, Unsupported, PathAbort
    from .values import Sym
    mods = check.load_modules()
    reg = check.build_registry(mods)
    total = 0
    compared = 0
    skipped = {}
    failures = []
    for q, c in reg.contracts.items():
        if prop not in c.props or c.trusted or c.func is None:
            continue
        if getattr(getattr(c, 'module', None), 'crosscheck', True) is False:
            skipped[q] = 'module opted out (functions with effects on the world)'
            continue
        for k in range(runs):
            rnd = random.Random('%s/%s/%d' % (seed, q, k))
            cx1, cx2 = RandomCtx(rnd), None
            try:
                args1 = {n: (t.concrete(cx1, n) if isinstance(t, Ty) else t) for n, t in c.params.items()}
                cx2 = RandomCtx(rnd)
                cx2.model = cx1.model          # the same (lazily filled) valuation for both runs
                args2 = {n: (t.concrete(cx2, n) if isinstance(t, Ty) else t) for n, t in c.params.items()}
            except NoConcrete as e:
                skipped[q] = str(e)
                break
            except Exception as e:
                skipped[q] = 'cannot build inputs: %r' % (e,)
                break
            total += 1
            if c.requires is not None:
                # only inputs inside the contract's precondition (evaluated natively; ghosts: not available)
                try:
                    rn = c.requires.__code__.co_varnames[:c.requires.__code__.co_argcount]
                    if all(n in args1 for n in rn) and not c.requires(*[args1[n] for n in rn]):
                        continue
                except Exception:
                    continue
            code = c.func.__code__
            names = list(code.co_varnames[:code.co_argcount + code.co_kwonlyargcount])
            try:
                pos1 = [args1[n] for n in names[:code.co_argcount]]
                pos2 = [args2[n] for n in names[:code.co_argcount]]
            except KeyError as e:
                skipped[q] = 'parameter without shape: %s' % e
                break
            try:
                r1 = c.func(*pos1)
                if isinstance(r1, types.GeneratorType):
                    r1 = list(r1)
                o1 = ('return', r1)
            except _Blocked:
                skipped[q] = 'reaches a primitive with effects outside the process'
                break
            except Exception as e:
                if isinstance(e.__context__, _Blocked) or isinstance(e.__cause__, _Blocked):
                    skipped[q] = 'reaches a primitive with effects outside the process'
                    break
                o1 = ('raise', type(e))
            st = PathState([], {})
            interp = Interp(st, reg)
            # the function itself and everything it calls is interpreted (contracts are not used)
            saved = reg.by_func
            reg.by_func = {}
            try:
                r2 = interp.call_real_function(c.func, pos2, {}, c.owner)
                if isinstance(r2, GenObj):
                    r2 = list(interp.iterate(r2))
                o2 = ('return', r2)
            except PyRaise as e:
                o2 = ('raise', type(e.exc))
            except (Unsupported, PathAbort) as e:
                skipped[q] = 'interpreter: %s' % e
                reg.by_func = saved
                break
            except Exception:
                failures.append((q, dict(cx1.model), 'interpreter crashed: ' + traceback.format_exc()[-600:]))
                reg.by_func = saved
                break
            finally:
                reg.by_func = saved
            world = [m for m in st.used_models if m.split(':')[0].split('.')[0] in
                     ('os', 'posix', 'posixpath', 'shutil', 'pathlib', 'subprocess', 'tempfile', 'io', 'stat', 'glob',
                      'filecmp', 're', 'time', 'datetime', 'shlex', 'xml')
                     or m.startswith('builtins:open') or m.startswith('builtins:eval')]
            from .values import contains_sym as _cs
            if world or (o2[0] == 'return' and _cs(o2[1], 4)):
                skipped[q] = 'interpreted through an assumed contract of the platform (%s)' % ', '.join(sorted(world)[:3])
                break
            if (o1[0] == 'raise' and o1[1] in (AttributeError, TypeError, NotImplementedError)) or \
                    (o2[0] == 'raise' and o2[1] in (AttributeError, TypeError, NotImplementedError)):
                continue      # the random input is outside what the shapes' stubs can answer
            compared += 1
            if o1[0] != o2[0] or (o1[0] == 'raise' and o1[1] is not o2[1]) or \
                    (o1[0] == 'return' and not _same(o1[1], o2[1])):
                failures.append((q, dict(cx1.model), 'native %r vs interpreted %r' % (o1, o2)))
    return {'functions': total, 'compared': compared, 'skipped': skipped, 'failures': failures}


def main():
    ap = argparse.ArgumentParser()
    ap.add_argument('prop')
    ap.add_argument('--runs', type=int, default=20)
    ap.add_argument('--json', action='store_true')
    args = ap.parse_args()
    seed = int(os.environ.get('VERIF_SEED', '0') or 0)
    out = {}

    def body():
        out['r'] = run(args.prop, args.runs, seed)

    sys.setrecursionlimit(20000)
    threading.stack_size(256 * 1024 * 1024)
    t = threading.Thread(target=body)
    t.start()
    t.join()
    r = out['r']
    if args.json:
        import json
        print(json.dumps({'compared': r['compared'], 'failures': [repr(f)[:600] for f in r['failures']],
                          'skipped': r['skipped']}))
        return 1 if r['failures'] else 0
    print('interpreter cross-check %s: %d runs compared, %d failures, %d functions skipped'
          % (args.prop, r['compared'], len(r['failures']), len(r['skipped'])))
    for q, why in sorted(r['skipped'].items()):
        print('  skipped', q, '--', why[:150])
    for f in r['failures'][:20]:
        print('  FAILURE', f)
    return 1 if r['failures'] else 0


if __name__ == '__main__':
    sys.exit(main())
