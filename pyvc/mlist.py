"""Mutable lists of symbolic length (results accumulated in loops, out-parameters).

An MList is a length term plus one z3 array per scalar component of its elements (elements are
ints, bools, strings or tuples of these).  append / insert(0, .) / pop / del xs[0] / extend /
xs[i] = v are functional updates of the arrays; at loop heads the list is havocked in place
(fresh arrays, fresh length) so that aliases keep seeing the same object."""
try:
    import z3
except ImportError:
    z3 = None

import ast

from .path import Unsupported
from .values import SInt, SBool, SStr, SOpt, SChoice, SList, Sym, to_z3, wrap
from . import models

_SORT = {'int': lambda: z3.IntSort(), 'bool': lambda: z3.BoolSort(), 'str': lambda: z3.StringSort()}


def _kind(v):
    if isinstance(v, (SBool, bool)):
        return 'bool'
    if isinstance(v, (SInt, int)):
        return 'int'
    if isinstance(v, (SStr, str)):
        return 'str'
    return None


def shape_of_value(v):
    """Shape of a list element.  Besides scalars and tuples of scalars:
       ('opt', s)              an optional value (SOpt / None) of shape s
       ('ref', iface, uid, n)  an opaque object that is a function of n integer index terms (an element of a
                               symbolic sequence of interface objects, a structured result of a pure method):
                               stored as its index, rebuilt from it
       ('codec', iface)        an opaque object whose interface says how it is determined by scalars
                               (`mlist_codec = (kinds, encode(interp, obj), decode(interp, scalars))`)
       ('inst', cls, fields)   an instance of a plain record class: its attributes, each of a shape"""
    from .values import Opaque
    if isinstance(v, tuple):
        return ('tuple', tuple(shape_of_value(x) for x in v))
    k = _kind(v)
    if k is not None:
        return (k,)
    if isinstance(v, SOpt):
        return ('opt', shape_of_value(v.val))
    if isinstance(v, Opaque):
        if v._pv_index:
            return ('ref', v._pv_iface, v._pv_uid, len(v._pv_index))
        if getattr(v._pv_iface, 'mlist_codec', None) is not None:
            return ('codec', v._pv_iface)
        raise Unsupported('opaque element of a symbolic mutable list must be indexed or have a codec: %r' % (v,))
    d = getattr(v, '__dict__', None)
    if isinstance(d, dict) and not isinstance(v, (Sym, type)) and v is not None:
        return ('inst', type(v), tuple((k2, shape_of_value(x)) for k2, x in d.items()))
    raise Unsupported('element of a symbolic mutable list must be int/bool/str, a tuple, an indexed opaque object '
                      'or a record of these: %r' % (v,))


_DEFAULT = {'int': 0, 'bool': False, 'str': ''}


def _paths(shape, path=()):
    k = shape[0]
    if k == 'tuple':
        for i, s in enumerate(shape[1]):
            for p in _paths(s, path + (i,)):
                yield p
    elif k == 'opt':
        yield path + ('?',), 'bool'
        for p in _paths(shape[1], path + ('!',)):
            yield p
    elif k == 'ref':
        for j in range(shape[3]):
            yield path + (('#', j),), 'int'
    elif k == 'codec':
        for j, kind in enumerate(shape[1].mlist_codec[0]):
            yield path + (('$', j),), kind
    elif k == 'inst':
        for name, s in shape[2]:
            for p in _paths(s, path + (name,)):
                yield p
    else:
        yield path, k


def _encode(interp, shape, v, path=(), out=None, absent=False):
    """{leaf path: scalar} of value v of the given shape (absent: the inside of a None -- default scalars)"""
    from .values import Opaque
    if out is None:
        out = {}
    k = shape[0]
    if isinstance(v, SChoice):
        v = interp.resolve(v)
    if k == 'tuple':
        for i, s in enumerate(shape[1]):
            _encode(interp, s, None if absent else v[i], path + (i,), out, absent)
    elif k == 'opt':
        if absent or v is None:
            out[path + ('?',)] = True
            _encode(interp, shape[1], None, path + ('!',), out, True)
        elif isinstance(v, SOpt):
            out[path + ('?',)] = wrap(v.is_none)
            _encode(interp, shape[1], v.val, path + ('!',), out, False)
        else:
            out[path + ('?',)] = False
            _encode(interp, shape[1], v, path + ('!',), out, False)
    elif k == 'ref':
        if not absent and not (isinstance(v, Opaque) and v._pv_uid == shape[2] and len(v._pv_index) == shape[3]):
            raise Unsupported('symbolic list of %s objects cannot hold %r' % (shape[2], v))
        for j in range(shape[3]):
            out[path + (('#', j),)] = 0 if absent else wrap(v._pv_index[j])
    elif k == 'codec':
        kinds, enc, _dec = shape[1].mlist_codec
        vals = [_DEFAULT[kd] for kd in kinds] if absent else enc(interp, v)
        for j, x in enumerate(vals):
            out[path + (('$', j),)] = x
    elif k == 'inst':
        if not absent and type(v) is not shape[1]:
            raise Unsupported('symbolic list of %s cannot hold %r' % (shape[1].__name__, v))
        for name, s in shape[2]:
            _encode(interp, s, None if absent else v.__dict__[name], path + (name,), out, absent)
    else:
        if absent:
            out[path] = _DEFAULT[k]
        else:
            if isinstance(v, SOpt):
                v = interp.resolve(v)
            if _kind(v) != k:
                raise Unsupported('symbolic list element: expected %s, got %r' % (k, v))
            out[path] = v
    return out


def _decode(interp, shape, get, path=()):
    """value of the given shape from its leaves: get(path) -> scalar"""
    from .api import new_opaque
    k = shape[0]
    if k == 'tuple':
        return tuple(_decode(interp, s, get, path + (i,)) for i, s in enumerate(shape[1]))
    if k == 'opt':
        isn = get(path + ('?',))
        if isn is True:
            return None
        inner = _decode(interp, shape[1], get, path + ('!',))
        if isn is False:
            return inner
        return SOpt(to_z3(isn), inner)
    if k == 'ref':
        idx = tuple(to_z3(get(path + (('#', j),))) for j in range(shape[3]))
        return new_opaque(interp, shape[1], shape[2], index=idx)
    if k == 'codec':
        kinds, _enc, dec = shape[1].mlist_codec
        return dec(interp, [get(path + (('$', j),)) for j in range(len(kinds))])
    if k == 'inst':
        obj = object.__new__(shape[1])
        for name, s in shape[2]:
            object.__setattr__(obj, name, _decode(interp, s, get, path + (name,)))
        return obj
    return get(path)


def _leaf(v, path):
    for i in path:
        v = v[i]
    return v


class MList(SList):
    __slots__ = ('shape', 'arrs')

    def __init__(self, interp, uid, shape, length=None, fresh=True):
        SList.__init__(self, length if length is not None else z3.IntVal(0), None, uid)
        self.shape = shape
        self.arrs = {}
        self.immutable = False
        self.elem = self._elem
        if shape is not None:
            self._fresh_arrays(interp, uid)

    def _fresh_arrays(self, interp, base):
        for path, kind in _paths(self.shape):
            name = interp.st.fresh_name('%s%s' % (base, ''.join(
                '.%s' % (i if not isinstance(i, tuple) else '%s%s' % i) for i in path)))
            self.arrs[path] = z3.Array(name, z3.IntSort(), _SORT[kind]())

    def _elem(self, interp, idx):
        if self.shape is None:
            raise Unsupported('element of an empty symbolic list of unknown element shape')

        return _decode(interp, self.shape, lambda path: wrap(z3.Select(self.arrs[path], idx)))

    def _ensure_shape(self, interp, v):
        if self.shape is None:
            self.shape = shape_of_value(v)
            self._fresh_arrays(interp, self.uid)
            return
        if self.shape[0] in ('int', 'bool', 'str', 'tuple') and not any(
                k in repr(self.shape) for k in ("'opt'", "'ref'", "'codec'", "'inst'")):
            sh = shape_of_value(v)
            if self.shape != sh:
                raise Unsupported('symbolic list holds elements of different shapes: %r / %r' % (self.shape, sh))

    # ---- mutation -------------------------------------------------------------
    def havoc(self, interp, tag):
        self.cache = {}
        n = interp.st.fresh_int('%s.len@%s' % (self.uid, tag))
        interp.st.assume(n >= 0)
        self.length = n
        if self.shape is not None:
            self.arrs = {}
            self._fresh_arrays(interp, '%s@%s' % (self.uid, tag))

    def append(self, interp, v):
        if isinstance(v, (SOpt, SChoice)):
            v = interp.resolve(v)
        self._ensure_shape(interp, v)
        self.cache = {}
        enc = _encode(interp, self.shape, v)
        for path, kind in _paths(self.shape):
            self.arrs[path] = z3.Store(self.arrs[path], self.length, to_z3(enc[path]))
        self.length = z3.simplify(self.length + 1)

    def insert(self, interp, pos, v):
        if not (isinstance(pos, int) and pos == 0):
            raise Unsupported('insert at a position other than 0 in a symbolic list')
        self._ensure_shape(interp, v)
        self.cache = {}
        k = z3.Int('k!shift')
        enc = _encode(interp, self.shape, v)
        for path, kind in _paths(self.shape):
            a = self.arrs[path]
            self.arrs[path] = z3.Lambda([k], z3.If(k == 0, to_z3(enc[path]), z3.Select(a, k - 1)))
        self.length = z3.simplify(self.length + 1)

    def pop(self, interp, pos=-1):
        st = interp.st
        if not st.fork(wrap(self.length > 0)):
            from .interp import PyRaise
            raise PyRaise(IndexError('pop from empty list'))
        if isinstance(pos, int) and pos == -1:
            v = self._elem(interp, z3.simplify(self.length - 1))
            self.length = z3.simplify(self.length - 1)
            self.cache = {}
            return v
        if isinstance(pos, int) and pos == 0:
            v = self._elem(interp, z3.IntVal(0))
            self.delete_first(interp)
            return v
        raise Unsupported('pop at a symbolic position')

    def delete_first(self, interp):
        k = z3.Int('k!shift')
        self.cache = {}
        for path, kind in _paths(self.shape):
            a = self.arrs[path]
            self.arrs[path] = z3.Lambda([k], z3.Select(a, k + 1))
        self.length = z3.simplify(self.length - 1)

    def extend(self, interp, other):
        if isinstance(other, (list, tuple)):
            for x in other:
                self.append(interp, x)
            return
        if isinstance(other, SList):
            if other.length is self.length and other is self:
                raise Unsupported('extend with itself')
            if self.shape is None:
                if isinstance(other, MList) and other.shape is not None:
                    self.shape = other.shape
                    self._fresh_arrays(interp, self.uid)
                else:
                    raise Unsupported('extend of an empty list of unknown shape')
            k = z3.Int('k!ext')
            n = self.length
            sample = models.slist_elem(interp, other, k - n)
            enc = _encode(interp, self.shape, sample)
            for path, kind in _paths(self.shape):
                a = self.arrs[path]
                self.arrs[path] = z3.Lambda([k], z3.If(k < n, z3.Select(a, k), to_z3(enc[path])))
            self.length = z3.simplify(n + other.length)
            self.cache = {}
            return
        for x in interp.iterate(other):
            self.append(interp, x)

    def setitem(self, interp, idx, v):
        st = interp.st
        t = to_z3(idx)
        if not st.fork(wrap(z3.And(t >= 0, t < self.length))):
            if st.fork(wrap(z3.And(t < 0, t >= -self.length))):
                t = self.length + t
            else:
                from .interp import PyRaise
                raise PyRaise(IndexError('list assignment index out of range'))
        self._ensure_shape(interp, v)
        self.cache = {}
        enc = _encode(interp, self.shape, v)
        for path, kind in _paths(self.shape):
            self.arrs[path] = z3.Store(self.arrs[path], t, to_z3(enc[path]))

    def copy(self, interp):
        c = MList(interp, interp.st.fresh_name(self.uid + '.copy'), None, self.length)
        c.shape = self.shape
        c.arrs = dict(self.arrs)
        return c


def method(interp, xs, name, args, kwargs):
    if name == 'append':
        return xs.append(interp, args[0])
    if name == 'insert':
        return xs.insert(interp, args[0], args[1])
    if name == 'pop':
        return xs.pop(interp, *args)
    if name == 'extend':
        return xs.extend(interp, args[0])
    if name == 'copy':
        return xs.copy(interp)
    if name == 'clear':
        xs.length = z3.IntVal(0)
        xs.cache = {}
        return None
    return None


def from_concrete(interp, values, uid='list'):
    m = MList(interp, interp.st.fresh_name(uid), None)
    for v in values:
        m.append(interp, v)
    return m
