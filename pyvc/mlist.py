"""Mutable lists of symbolic length (results accumulated in loops, out-parameters).

An MList is a length term plus one z3 array per scalar component of its elements (elements are
ints, bools, strings or tuples of these).  append / insert(0, .) / pop / del xs[0] / extend /
xs[i] = v are functional updates of the arrays; at loop heads the list is havocked in place
(fresh arrays, fresh length) so that aliases keep seeing the same object."""
try:
    import z3
except ImportError:
    z3 = None

import ast

from .path import Unsupported
from .values import SInt, SBool, SStr, SOpt, SChoice, SList, Sym, to_z3, wrap
from . import models

_SORT = {'int': lambda: z3.IntSort(), 'bool': lambda: z3.BoolSort(), 'str': lambda: z3.StringSort(),
         'obj': lambda: z3.IntSort()}      # 'obj': arbitrary Python objects, represented by integer handles


def handle_of(interp, obj):
    """The handle (integer term) that stands for a Python object inside symbolic lists of objects.  Distinct
    objects have distinct handles; the same object always the same one."""
    st = interp.st
    tab = st.ghost.setdefault('__handles__', {})
    ent = tab.get(id(obj))
    if ent is None:
        h = st.fresh_int('handle')
        for (_o, other) in tab.values():
            st.axiom(h != other)
        ent = (obj, h)
        tab[id(obj)] = ent
    return ent[1]


def _term(interp, v, kind):
    if kind == 'obj':
        if isinstance(v, SInt):       # already a handle (an element read from another list of objects)
            return v.t
        return handle_of(interp, v)
    return to_z3(v)


def _kind(v):
    if isinstance(v, (SBool, bool)):
        return 'bool'
    if isinstance(v, (SInt, int)):
        return 'int'
    if isinstance(v, (SStr, str)):
        return 'str'
    return None


def shape_of_value(v):
    if isinstance(v, tuple):
        return ('tuple', tuple(shape_of_value(x) for x in v))
    k = _kind(v)
    if k is None:
        if isinstance(v, (Sym, list, dict, set)):
            raise Unsupported('element of a symbolic mutable list must be int/bool/str, a tuple of these, or an '
                              'object: %r' % (v,))
        return ('obj',)
    return (k,)


def _paths(shape, path=()):
    if shape[0] == 'tuple':
        for i, s in enumerate(shape[1]):
            for p in _paths(s, path + (i,)):
                yield p
    else:
        yield path, shape[0]


def _leaf(v, path):
    for i in path:
        v = v[i]
    return v


class MList(SList):
    __slots__ = ('shape', 'arrs', 'hist')

    def __init__(self, interp, uid, shape, length=None, fresh=True):
        SList.__init__(self, length if length is not None else z3.IntVal(0), None, uid)
        self.shape = shape
        self.arrs = {}
        self.immutable = False
        self.hist = None      # how the list was built, for measures over it (strings.join_term)
        self.elem = self._elem
        if shape is not None:
            self._fresh_arrays(interp, uid)

    def _fresh_arrays(self, interp, base):
        for path, kind in _paths(self.shape):
            name = interp.st.fresh_name('%s%s' % (base, ''.join('.%d' % i for i in path)))
            self.arrs[path] = z3.Array(name, z3.IntSort(), _SORT[kind]())

    def _elem(self, interp, idx):
        if self.shape is None:
            raise Unsupported('element of an empty symbolic list of unknown element shape')

        def load(shape, path):
            if shape[0] == 'tuple':
                return tuple(load(s, path + (i,)) for i, s in enumerate(shape[1]))
            return wrap(z3.Select(self.arrs[path], idx))

        return load(self.shape, ())

    def _ensure_shape(self, interp, v):
        sh = shape_of_value(v)
        if self.shape == ('obj',) and sh == ('int',) and isinstance(v, SInt):
            return      # a handle
        if self.shape is None:
            self.shape = sh
            self._fresh_arrays(interp, self.uid)
        elif self.shape != sh:
            raise Unsupported('symbolic list holds elements of different shapes: %r / %r' % (self.shape, sh))

    # ---- mutation -------------------------------------------------------------
    def havoc(self, interp, tag):
        self.cache = {}
        self.hist = None
        n = interp.st.fresh_int('%s.len@%s' % (self.uid, tag))
        interp.st.assume(n >= 0)
        self.length = n
        if self.shape is not None:
            self.arrs = {}
            self._fresh_arrays(interp, '%s@%s' % (self.uid, tag))

    def append(self, interp, v):
        if isinstance(v, (SOpt, SChoice)):
            v = interp.resolve(v)
        self._ensure_shape(interp, v)
        self.cache = {}
        if self.shape == ('str',):
            self.hist = ('append', self.arrs[()], self.length, v, self.hist)
        for path, kind in _paths(self.shape):
            self.arrs[path] = z3.Store(self.arrs[path], self.length, _term(interp, _leaf(v, path), kind))
        self.length = z3.simplify(self.length + 1)

    def insert(self, interp, pos, v):
        if not (isinstance(pos, int) and pos == 0):
            raise Unsupported('insert at a position other than 0 in a symbolic list')
        self.hist = None
        self._ensure_shape(interp, v)
        self.cache = {}
        k = z3.Int('k!shift')
        for path, kind in _paths(self.shape):
            a = self.arrs[path]
            self.arrs[path] = z3.Lambda([k], z3.If(k == 0, _term(interp, _leaf(v, path), kind), z3.Select(a, k - 1)))
        self.length = z3.simplify(self.length + 1)

    def pop(self, interp, pos=-1):
        st = interp.st
        if not st.fork(wrap(self.length > 0)):
            from .interp import PyRaise
            raise PyRaise(IndexError('pop from empty list'))
        if isinstance(pos, int) and pos == -1:
            v = self._elem(interp, z3.simplify(self.length - 1))
            if self.shape == ('str',):
                self.hist = ('poplast', self.arrs[()], self.length, self.hist)
            self.length = z3.simplify(self.length - 1)
            self.cache = {}
            return v
        if isinstance(pos, int) and pos == 0:
            v = self._elem(interp, z3.IntVal(0))
            self.delete_first(interp)
            return v
        raise Unsupported('pop at a symbolic position')

    def delete_first(self, interp):
        self.hist = None
        k = z3.Int('k!shift')
        self.cache = {}
        for path, kind in _paths(self.shape):
            a = self.arrs[path]
            self.arrs[path] = z3.Lambda([k], z3.Select(a, k + 1))
        self.length = z3.simplify(self.length - 1)

    def extend(self, interp, other):
        if isinstance(other, (list, tuple)):
            for x in other:
                self.append(interp, x)
            return
        if isinstance(other, SList):
            self.hist = None
            if other.length is self.length and other is self:
                raise Unsupported('extend with itself')
            if self.shape is None:
                if isinstance(other, MList) and other.shape is not None:
                    self.shape = other.shape
                    self._fresh_arrays(interp, self.uid)
                else:
                    raise Unsupported('extend of an empty list of unknown shape')
            k = z3.Int('k!ext')
            n = self.length
            sample = models.slist_elem(interp, other, k - n)
            for path, kind in _paths(self.shape):
                a = self.arrs[path]
                self.arrs[path] = z3.Lambda([k], z3.If(k < n, z3.Select(a, k), _term(interp, _leaf(sample, path), kind)))
            self.length = z3.simplify(n + other.length)
            self.cache = {}
            return
        for x in interp.iterate(other):
            self.append(interp, x)

    def setitem(self, interp, idx, v):
        st = interp.st
        t = to_z3(idx)
        if not st.fork(wrap(z3.And(t >= 0, t < self.length))):
            if st.fork(wrap(z3.And(t < 0, t >= -self.length))):
                t = self.length + t
            else:
                from .interp import PyRaise
                raise PyRaise(IndexError('list assignment index out of range'))
        self._ensure_shape(interp, v)
        self.cache = {}
        self.hist = None
        for path, kind in _paths(self.shape):
            self.arrs[path] = z3.Store(self.arrs[path], t, _term(interp, _leaf(v, path), kind))

    def copy(self, interp):
        c = MList(interp, interp.st.fresh_name(self.uid + '.copy'), None, self.length)
        c.shape = self.shape
        c.arrs = dict(self.arrs)
        c.hist = self.hist
        return c


def method(interp, xs, name, args, kwargs):
    if interp.loop_guards and name in ('append', 'insert', 'pop', 'extend', 'clear'):
        interp.note_heap_write(xs, None)
    if name == 'append':
        return xs.append(interp, args[0])
    if name == 'insert':
        return xs.insert(interp, args[0], args[1])
    if name == 'pop':
        return xs.pop(interp, *args)
    if name == 'extend':
        return xs.extend(interp, args[0])
    if name == 'copy':
        return xs.copy(interp)
    if name == 'clear':
        xs.length = z3.IntVal(0)
        xs.cache = {}
        xs.hist = None
        return None
    return None


def from_concrete(interp, values, uid='list'):
    m = MList(interp, interp.st.fresh_name(uid), None)
    for v in values:
        m.append(interp, v)
    return m
