"""Mutable lists of symbolic length (results accumulated in loops, out-parameters).

An MList is a length term plus one z3 array per scalar component of its elements (elements are
ints, bools, strings or tuples of these).  append / insert(0, .) / pop / del xs[0] / extend /
xs[i] = v are functional updates of the arrays; at loop heads the list is havocked in place
(fresh arrays, fresh length) so that aliases keep seeing the same object.

Element k lives at array index `base + k`: insert(0, .) and del xs[0] / popleft move `base` instead of
shifting the arrays, so that all updates are plain stores (no lambda terms in the obligations)."""
try:
    import z3
except ImportError:
    z3 = None

import ast

from .path import Unsupported
from .values import SInt, SBool, SStr, SOpt, SChoice, SList, Sym, Opaque, to_z3, wrap
from . import models

_SORT = {'int': lambda: z3.IntSort(), 'bool': lambda: z3.BoolSort(), 'str': lambda: z3.StringSort()}


def _kind(v):
    if isinstance(v, (SBool, bool)):
        return 'bool'
    if isinstance(v, (SInt, int)):
        return 'int'
    if isinstance(v, (SStr, str)):
        return 'str'
    return None


def record_shape(iface):
    """Elements that are objects of an interface all of whose attributes are scalars are stored BY VALUE (one
    array per attribute); an element read back is an object of the interface with these attribute values
    (object identity is not preserved)."""
    from . import api
    attrs = {}
    for k in reversed(iface.__mro__):
        attrs.update(k.__dict__.get('attrs') or {})
    fields = []
    for name in sorted(attrs):
        ty = attrs[name]
        if isinstance(ty, api._Int):
            fields.append((name, 'int', ty.lo, ty.hi))
        elif isinstance(ty, api._Bool):
            fields.append((name, 'bool', None, None))
        elif isinstance(ty, api._Str):
            fields.append((name, 'str', None, None))
        else:
            raise Unsupported('symbolic mutable list of %s objects: attribute %r is not a scalar' % (iface.__name__, name))
    if not fields:
        raise Unsupported('symbolic mutable list of %s objects: the interface has no scalar attributes' % iface.__name__)
    return ('rec', iface, tuple(fields))


def shape_of_value(v):
    if isinstance(v, tuple):
        return ('tuple', tuple(shape_of_value(x) for x in v))
    if isinstance(v, Opaque):
        return record_shape(v._pv_iface)
    k = _kind(v)
    if k is None:
        raise Unsupported('element of a symbolic mutable list must be int/bool/str or a tuple of these: %r' % (v,))
    return (k,)


def _paths(shape, path=()):
    if shape[0] == 'tuple':
        for i, s in enumerate(shape[1]):
            for p in _paths(s, path + (i,)):
                yield p
    elif shape[0] == 'rec':
        for f in shape[2]:
            yield path + (f[0],), f[1]
    else:
        yield path, shape[0]


def _leaf(interp, v, path):
    for i in path:
        v = v[i] if isinstance(i, int) else interp.getattr(v, i)
    return v


class MList(SList):
    __slots__ = ('shape', 'arrs', 'base', 'version', 'is_deque')

    def __init__(self, interp, uid, shape, length=None, fresh=True):
        SList.__init__(self, length if length is not None else z3.IntVal(0), None, uid)
        self.shape = shape
        self.arrs = {}
        self.base = z3.IntVal(0)
        self.version = 0
        self.is_deque = False
        self.immutable = False
        self.elem = self._elem
        if shape is not None:
            self._fresh_arrays(interp, uid)

    def _fresh_arrays(self, interp, base):
        for path, kind in _paths(self.shape):
            name = interp.st.fresh_name('%s%s' % (base, ''.join('.%s' % (i,) for i in path)))
            self.arrs[path] = z3.Array(name, z3.IntSort(), _SORT[kind]())

    def _elem(self, interp, idx):
        if self.shape is None:
            raise Unsupported('element of an empty symbolic list of unknown element shape')

        def load(shape, path):
            if shape[0] == 'tuple':
                return tuple(load(s, path + (i,)) for i, s in enumerate(shape[1]))
            if shape[0] == 'rec':
                from .api import new_opaque
                preset = {}
                for (name, kind, lo, hi) in shape[2]:
                    t = z3.Select(self.arrs[path + (name,)], at)
                    # well-typedness of the stored objects (only objects of the interface are ever stored)
                    if lo is not None:
                        interp.st.assume(t >= lo)
                    if hi is not None:
                        interp.st.assume(t <= hi)
                    preset[name] = wrap(t)
                return new_opaque(interp, shape[1], '%s@v%d%s[]' % (self.uid, self.version, ''.join('.%s' % i for i in path)),
                                  index=(at,), preset=preset)
            return wrap(z3.Select(self.arrs[path], at))

        at = z3.simplify(self.base + idx)
        return load(self.shape, ())

    def _ensure_shape(self, interp, v):
        sh = shape_of_value(v)
        if self.shape is None:
            self.shape = sh
            self._fresh_arrays(interp, self.uid)
        elif self.shape != sh:
            raise Unsupported('symbolic list holds elements of different shapes: %r / %r' % (self.shape, sh))

    # ---- mutation -------------------------------------------------------------
    def havoc(self, interp, tag):
        self.cache = {}
        self.aux = {}          # measures (pyvc.texts) describe the old contents
        self.version += 1
        n = interp.st.fresh_int('%s.len@%s' % (self.uid, tag))
        interp.st.assume(n >= 0)
        self.length = n
        self.base = z3.IntVal(0)
        if self.shape is not None:
            self.arrs = {}
            self._fresh_arrays(interp, '%s@%s' % (self.uid, tag))

    def append(self, interp, v):
        if isinstance(v, (SOpt, SChoice)):
            v = interp.resolve(v)
        self._ensure_shape(interp, v)
        self.cache = {}
        n = self.length
        self.version += 1
        at = z3.simplify(self.base + self.length)
        for path, kind in _paths(self.shape):
            self.arrs[path] = z3.Store(self.arrs[path], at, to_z3(_leaf(interp, v, path)))
        self.length = z3.simplify(self.length + 1)
        from . import texts
        texts.on_append(interp, self, n, v)       # the prefix-join measure follows the append

    def insert(self, interp, pos, v):
        self.aux = {}
        if not (isinstance(pos, int) and pos == 0):
            raise Unsupported('insert at a position other than 0 in a symbolic list')
        self._ensure_shape(interp, v)
        self.cache = {}
        self.version += 1
        self.base = z3.simplify(self.base - 1)
        for path, kind in _paths(self.shape):
            self.arrs[path] = z3.Store(self.arrs[path], self.base, to_z3(_leaf(interp, v, path)))
        self.length = z3.simplify(self.length + 1)
        self._rebase(interp)

    def _rebase(self, interp):
        """After the front of the list has moved (insert(0, .), del xs[0]): continue with fresh arrays in which
        element k lives at index k again.  The link to the previous arrays is given by two axioms whose
        triggers have no arithmetic (`new[j]` resp. `old[j]`), so that a witness index found for one of the
        two lists is carried over to the other one by E-matching (statements with existential quantifiers over
        the items of both lists)."""
        b = z3.simplify(self.base)
        if z3.is_int_value(b) and b.as_long() == 0:
            return
        st = interp.st
        j = z3.Int('j!rebase')
        new = {}
        for path, kind in _paths(self.shape):
            old = self.arrs[path]
            suffix = ''.join('.%s' % (i,) for i in path)
            if not z3.is_const(old):
                named = z3.Array(st.fresh_name('%s@v%d%s' % (self.uid, self.version, suffix)), z3.IntSort(), _SORT[kind]())
                st._add(named == old)
                old = named
            arr = z3.Array(st.fresh_name('%s@r%d%s' % (self.uid, self.version, suffix)), z3.IntSort(), _SORT[kind]())
            st._add(z3.ForAll([j], z3.Select(arr, j) == z3.Select(old, j + b), patterns=[z3.Select(arr, j)]))
            st._add(z3.ForAll([j], z3.Select(arr, j - b) == z3.Select(old, j), patterns=[z3.Select(old, j)]))
            new[path] = arr
        self.arrs = new
        self.base = z3.IntVal(0)

    def pop(self, interp, pos=-1):
        st = interp.st
        if not st.fork(wrap(self.length > 0)):
            from .interp import PyRaise
            raise PyRaise(IndexError('pop from empty list'))
        if isinstance(pos, int) and pos == -1:
            v = self._elem(interp, z3.simplify(self.length - 1))
            self.length = z3.simplify(self.length - 1)
            self.cache = {}
            self.version += 1
            return v
        if isinstance(pos, int) and pos == 0:
            v = self._elem(interp, z3.IntVal(0))
            self.delete_first(interp)
            return v
        raise Unsupported('pop at a symbolic position')

    def delete_first(self, interp):
        self.aux = {}
        self.cache = {}
        self.version += 1
        self.base = z3.simplify(self.base + 1)
        self.length = z3.simplify(self.length - 1)
        self._rebase(interp)

    def extend(self, interp, other):
        self.aux = {}
        if isinstance(other, (list, tuple)):
            for x in other:
                self.append(interp, x)
            return
        if isinstance(other, SList):
            if other.length is self.length and other is self:
                raise Unsupported('extend with itself')
            if self.shape is None:
                if isinstance(other, MList) and other.shape is not None:
                    self.shape = other.shape
                else:
                    # shape of a generic element of the other sequence
                    probe = interp.st.fresh_int('k!shape')
                    with interp.st.scope(z3.And(probe >= 0, probe < other.length)):
                        self.shape = shape_of_value(models.slist_elem(interp, other, probe))
                self._fresh_arrays(interp, self.uid)
            k = z3.Int('k!ext')
            n = self.length
            end = z3.simplify(self.base + n)
            sample = models.slist_elem(interp, other, k - end)
            for path, kind in _paths(self.shape):
                a = self.arrs[path]
                self.arrs[path] = z3.Lambda([k], z3.If(k < end, z3.Select(a, k), to_z3(_leaf(interp, sample, path))))
            self.length = z3.simplify(n + other.length)
            self.cache = {}
            self.version += 1
            return
        for x in interp.iterate(other):
            self.append(interp, x)

    def setitem(self, interp, idx, v):
        self.aux = {}
        st = interp.st
        t = to_z3(idx)
        if not st.fork(wrap(z3.And(t >= 0, t < self.length))):
            if st.fork(wrap(z3.And(t < 0, t >= -self.length))):
                t = self.length + t
            else:
                from .interp import PyRaise
                raise PyRaise(IndexError('list assignment index out of range'))
        self._ensure_shape(interp, v)
        self.cache = {}
        self.version += 1
        at = z3.simplify(self.base + t)
        for path, kind in _paths(self.shape):
            self.arrs[path] = z3.Store(self.arrs[path], at, to_z3(_leaf(interp, v, path)))

    def copy(self, interp):
        c = MList(interp, interp.st.fresh_name(self.uid + '.copy'), None, self.length)
        c.shape = self.shape
        c.arrs = dict(self.arrs)
        c.aux = dict(self.aux)
        c.base = self.base
        c.is_deque = self.is_deque
        return c


def method(interp, xs, name, args, kwargs):
    if name == 'append':
        return xs.append(interp, args[0])
    if name == 'insert':
        return xs.insert(interp, args[0], args[1])
    if name == 'pop':
        return xs.pop(interp, *args)
    if name == 'popleft' and xs.is_deque:
        return xs.pop(interp, 0)
    if name == 'appendleft' and xs.is_deque:
        return xs.insert(interp, 0, args[0])
    if name == 'extend':
        return xs.extend(interp, args[0])
    if name == 'copy':
        return xs.copy(interp)
    if name == 'clear':
        xs.length = z3.IntVal(0)
        xs.cache = {}
        xs.aux = {}
        xs.version += 1
        return None
    return None


def from_concrete(interp, values, uid='list'):
    m = MList(interp, interp.st.fresh_name(uid), None)
    for v in values:
        m.append(interp, v)
    return m
