"""Mutable lists of symbolic length (results accumulated in loops, out-parameters).

An MList is a length term plus one z3 array per scalar component of its elements (elements are
ints, bools, strings or tuples of these).  append / insert(0, .) / pop / del xs[0] / extend /
xs[i] = v are functional updates of the arrays; at loop heads the list is havocked in place
(fresh arrays, fresh length) so that aliases keep seeing the same object.

Element k lives at array index `base + k`: insert(0, .) and del xs[0] / popleft move `base` instead of
shifting the arrays, so that all updates are plain stores (no lambda terms in the obligations)."""
try:
    import z3
except ImportError:
    z3 = None

import ast

from .path import Unsupported
from .values import SInt, SBool, SStr, SOpt, SChoice, SList, Sym, Opaque, to_z3, wrap
from . import models

_SORT = {'int': lambda: z3.IntSort(), 'bool': lambda: z3.BoolSort(), 'str': lambda: z3.StringSort(),
         'obj': lambda: z3.IntSort()}      # 'obj': arbitrary Python objects, represented by integer handles


def handle_of(interp, obj):
    """The handle (integer term) that stands for a Python object inside symbolic lists of objects.  Distinct
    objects have distinct handles; the same object always the same one."""
    st = interp.st
    tab = st.ghost.setdefault('__handles__', {})
    ent = tab.get(id(obj))
    if ent is None:
        h = st.fresh_int('handle')
        for (_o, other) in tab.values():
            st.assume_unscoped(h != other)
        ent = (obj, h)
        tab[id(obj)] = ent
    return ent[1]


def _kind(v):
    if isinstance(v, (SBool, bool)):
        return 'bool'
    if isinstance(v, (SInt, int)):
        return 'int'
    if isinstance(v, (SStr, str)):
        return 'str'
    return None


def record_shape(iface):
    """Elements that are objects of an interface all of whose attributes are scalars are stored BY VALUE (one
    array per attribute); an element read back is an object of the interface with these attribute values
    (object identity is not preserved)."""
    from . import api
    attrs = {}
    for k in reversed(iface.__mro__):
        attrs.update(k.__dict__.get('attrs') or {})
    fields = []
    for name in sorted(attrs):
        ty = attrs[name]
        if isinstance(ty, api._Int):
            fields.append((name, 'int', ty.lo, ty.hi))
        elif isinstance(ty, api._Bool):
            fields.append((name, 'bool', None, None))
        elif isinstance(ty, api._Str):
            fields.append((name, 'str', None, None))
        else:
            raise Unsupported('symbolic mutable list of %s objects: attribute %r is not a scalar' % (iface.__name__, name))
    if not fields:
        raise Unsupported('symbolic mutable list of %s objects: the interface has no scalar attributes' % iface.__name__)
    return ('rec', iface, tuple(fields))


def shape_of_value(v):
    """Shape of a list element.  Besides scalars and tuples of scalars:
       ('obj',)                an arbitrary Python object (`MListOf(Any_)`): stored as its integer handle
                               (`handle_of`); an element read back is the handle -- compare with
                               `contracts.common.is_item(xs[j], obj)`
       ('opt', s)              an optional value (SOpt / None) of shape s
       ('ref', iface, uid, n)  an opaque object that is a function of n integer index terms (an element of a
                               symbolic sequence of interface objects, a structured result of a pure method):
                               stored as its index, rebuilt from it
       ('codec', iface)        an opaque object whose interface says how it is determined by scalars
                               (`mlist_codec = (kinds, encode(interp, obj), decode(interp, scalars))`)
       ('inst', cls, fields)   an instance of a plain record class: its attributes, each of a shape"""
    from .values import Opaque
    if isinstance(v, tuple):
        return ('tuple', tuple(shape_of_value(x) for x in v))
    k = _kind(v)
    if k is not None:
        return (k,)
    if isinstance(v, SOpt):
        return ('opt', shape_of_value(v.val))
    if isinstance(v, Opaque):
        if v._pv_index:
            return ('ref', v._pv_iface, v._pv_uid, len(v._pv_index))
        if getattr(v._pv_iface, 'mlist_codec', None) is not None:
            return ('codec', v._pv_iface)
        # an object of an interface all of whose attributes are scalars: stored by value
        return record_shape(v._pv_iface)
    d = getattr(v, '__dict__', None)
    if isinstance(d, dict) and not isinstance(v, (Sym, type)) and v is not None:
        return ('inst', type(v), tuple((k2, shape_of_value(x)) for k2, x in d.items()))
    raise Unsupported('element of a symbolic mutable list must be int/bool/str, a tuple, an indexed opaque object '
                      'or a record of these: %r' % (v,))



_DEFAULT = {'int': 0, 'bool': False, 'str': ''}


def _paths(shape, path=()):
    k = shape[0]
    if k == 'tuple':
        for i, s in enumerate(shape[1]):
            for p in _paths(s, path + (i,)):
                yield p
    elif k == 'opt':
        yield path + ('?',), 'bool'
        for p in _paths(shape[1], path + ('!',)):
            yield p
    elif k == 'ref':
        for j in range(shape[3]):
            yield path + (('#', j),), 'int'
    elif k == 'codec':
        for j, kind in enumerate(shape[1].mlist_codec[0]):
            yield path + (('$', j),), kind
    elif k == 'inst':
        for name, s in shape[2]:
            for p in _paths(s, path + (name,)):
                yield p
    elif k == 'rec':
        for f in shape[2]:
            yield path + (f[0],), f[1]
    else:
        yield path, k


def _encode(interp, shape, v, path=(), out=None, absent=False):
    """{leaf path: scalar} of value v of the given shape (absent: the inside of a None -- default scalars)"""
    from .values import Opaque
    if out is None:
        out = {}
    k = shape[0]
    if isinstance(v, SChoice):
        v = interp.resolve(v)
    if k == 'tuple':
        for i, s in enumerate(shape[1]):
            _encode(interp, s, None if absent else v[i], path + (i,), out, absent)
    elif k == 'opt':
        if absent or v is None:
            out[path + ('?',)] = True
            _encode(interp, shape[1], None, path + ('!',), out, True)
        elif isinstance(v, SOpt):
            out[path + ('?',)] = wrap(v.is_none)
            _encode(interp, shape[1], v.val, path + ('!',), out, False)
        else:
            out[path + ('?',)] = False
            _encode(interp, shape[1], v, path + ('!',), out, False)
    elif k == 'ref':
        if not absent and not (isinstance(v, Opaque) and v._pv_uid == shape[2] and len(v._pv_index) == shape[3]):
            raise Unsupported('symbolic list of %s objects cannot hold %r' % (shape[2], v))
        for j in range(shape[3]):
            out[path + (('#', j),)] = 0 if absent else wrap(v._pv_index[j])
    elif k == 'codec':
        kinds, enc, _dec = shape[1].mlist_codec
        vals = [_DEFAULT[kd] for kd in kinds] if absent else enc(interp, v)
        for j, x in enumerate(vals):
            out[path + (('$', j),)] = x
    elif k == 'rec':
        for (name, kind, lo, hi) in shape[2]:
            out[path + (name,)] = _DEFAULT[kind] if absent else interp.getattr(v, name)
    elif k == 'inst':
        if not absent and type(v) is not shape[1]:
            raise Unsupported('symbolic list of %s cannot hold %r' % (shape[1].__name__, v))
        for name, s in shape[2]:
            _encode(interp, s, None if absent else v.__dict__[name], path + (name,), out, absent)
    elif k == 'obj':
        # an arbitrary Python object, stored as its handle (an element read from such a list IS a handle)
        out[path] = 0 if absent else v if isinstance(v, SInt) else wrap(handle_of(interp, v))
    else:
        if absent:
            out[path] = _DEFAULT[k]
        else:
            if isinstance(v, SOpt):
                v = interp.resolve(v)
            if _kind(v) != k:
                raise Unsupported('symbolic list element: expected %s, got %r' % (k, v))
            out[path] = v
    return out


def _decode(interp, shape, get, path=(), at=None, owner=None):
    """value of the given shape from its leaves: get(path) -> scalar (at / owner: position term and list, for
    elements that are interface objects stored by value)"""
    from .api import new_opaque
    k = shape[0]
    if k == 'tuple':
        return tuple(_decode(interp, s, get, path + (i,), at, owner) for i, s in enumerate(shape[1]))
    if k == 'opt':
        isn = get(path + ('?',))
        if isn is True:
            return None
        inner = _decode(interp, shape[1], get, path + ('!',), at, owner)
        if isn is False:
            return inner
        return SOpt(to_z3(isn), inner)
    if k == 'ref':
        idx = tuple(to_z3(get(path + (('#', j),))) for j in range(shape[3]))
        return new_opaque(interp, shape[1], shape[2], index=idx)
    if k == 'codec':
        kinds, _enc, dec = shape[1].mlist_codec
        return dec(interp, [get(path + (('$', j),)) for j in range(len(kinds))])
    if k == 'rec':
        preset = {}
        for (name, kind, lo, hi) in shape[2]:
            x = get(path + (name,))
            # well-typedness of the stored objects (only objects of the interface are ever stored)
            if lo is not None and not isinstance(x, (int, bool)):
                interp.st.assume(to_z3(x) >= lo)
            if hi is not None and not isinstance(x, (int, bool)):
                interp.st.assume(to_z3(x) <= hi)
            preset[name] = x
        uid = '%s@v%d%s[]' % (owner.uid if owner is not None else 'rec', owner.version if owner is not None else 0,
                              ''.join('.%s' % (i,) for i in path))
        return new_opaque(interp, shape[1], uid, index=(at,) if at is not None else (), preset=preset)
    if k == 'inst':
        obj = object.__new__(shape[1])
        for name, s in shape[2]:
            object.__setattr__(obj, name, _decode(interp, s, get, path + (name,), at, owner))
        return obj
    return get(path)


class MList(SList):
    __slots__ = ('shape', 'arrs', 'base', 'version', 'is_deque',
                 'base_empty', 'base_len', 'tail', 'base_measures', 'mversion')

    def __init__(self, interp, uid, shape, length=None, fresh=True):
        SList.__init__(self, length if length is not None else z3.IntVal(0), None, uid)
        self.shape = shape
        self.arrs = {}
        self.base = z3.IntVal(0)
        self.version = 0
        self.is_deque = False
        self.immutable = False
        self.elem = self._elem
        # measures (left folds, see pyvc.api.Measure): the list is `base list` followed by the items of `tail`;
        # the base list is the empty list (created empty) or an arbitrary list whose measure values are unknown
        self.base_empty = length is None
        self.base_len = self.length
        self.tail = []
        self.base_measures = {}
        self.mversion = 0
        if shape is not None:
            self._fresh_arrays(interp, uid)

    def _fresh_arrays(self, interp, base):
        for path, kind in _paths(self.shape):
            name = interp.st.fresh_name('%s%s' % (base, ''.join(
                '.%s' % (i if not isinstance(i, tuple) else '%s%s' % i) for i in path)))
            self.arrs[path] = z3.Array(name, z3.IntSort(), _SORT[kind]())

    def _elem(self, interp, idx):
        if self.shape is None:
            raise Unsupported('element of an empty symbolic list of unknown element shape')

        at = z3.simplify(self.base + idx)
        return _decode(interp, self.shape, lambda path: wrap(z3.Select(self.arrs[path], at)), (), at, self)

    def _ensure_shape(self, interp, v):
        if self.shape is None:
            self.shape = shape_of_value(v)
            self._fresh_arrays(interp, self.uid)
            return
        # declared composite shapes (opt / ref / codec / inst / rec) accept what _encode accepts; plain
        # scalar / tuple shapes are compared with the shape of the value
        if self.shape[0] in ('int', 'bool', 'str', 'tuple') and not any(
                k in repr(self.shape) for k in ("'opt'", "'ref'", "'codec'", "'inst'", "'rec'")):
            sh = shape_of_value(v)
            if self.shape != sh:
                raise Unsupported('symbolic list holds elements of different shapes: %r / %r' % (self.shape, sh))

    # ---- mutation -------------------------------------------------------------
    def new_base(self):
        """the contents changed in a way measures do not follow: their values become unknown"""
        self.base_empty = False
        self.base_len = self.length
        self.tail = []
        self.base_measures = {}
        self.mversion += 1

    def havoc(self, interp, tag):
        self.cache = {}
        self.aux = {}          # measures (pyvc.texts) describe the old contents
        self.version += 1
        n = interp.st.fresh_int('%s.len@%s' % (self.uid, tag))
        interp.st.assume(n >= 0)
        self.length = n
        self.base = z3.IntVal(0)
        self.new_base()
        if self.shape is not None:
            self.arrs = {}
            self._fresh_arrays(interp, '%s@%s' % (self.uid, tag))

    def append(self, interp, v):
        if isinstance(v, (SOpt, SChoice)):
            v = interp.resolve(v)
        self._ensure_shape(interp, v)
        self.cache = {}
        n = self.length
        self.version += 1
        at = z3.simplify(self.base + self.length)
        _enc = _encode(interp, self.shape, v)
        for path, kind in _paths(self.shape):
            self.arrs[path] = z3.Store(self.arrs[path], at, to_z3(_enc[path]))
        self.length = z3.simplify(self.length + 1)
        self.tail.append(v)

    def insert(self, interp, pos, v):
        self.aux = {}
        if not (isinstance(pos, int) and pos == 0):
            raise Unsupported('insert at a position other than 0 in a symbolic list')
        self._ensure_shape(interp, v)
        self.cache = {}
        self.version += 1
        self.base = z3.simplify(self.base - 1)
        _enc = _encode(interp, self.shape, v)
        for path, kind in _paths(self.shape):
            self.arrs[path] = z3.Store(self.arrs[path], self.base, to_z3(_enc[path]))
        self.length = z3.simplify(self.length + 1)
        self.new_base()
        self._rebase(interp)

    def _rebase(self, interp):
        """After the front of the list has moved (insert(0, .), del xs[0]): continue with fresh arrays in which
        element k lives at index k again.  The link to the previous arrays is given by two axioms whose
        triggers have no arithmetic (`new[j]` resp. `old[j]`), so that a witness index found for one of the
        two lists is carried over to the other one by E-matching (statements with existential quantifiers over
        the items of both lists)."""
        b = z3.simplify(self.base)
        if z3.is_int_value(b) and b.as_long() == 0:
            return
        st = interp.st
        j = z3.Int('j!rebase')
        new = {}
        for path, kind in _paths(self.shape):
            old = self.arrs[path]
            suffix = ''.join('.%s' % (i,) for i in path)
            if not z3.is_const(old):
                named = z3.Array(st.fresh_name('%s@v%d%s' % (self.uid, self.version, suffix)), z3.IntSort(), _SORT[kind]())
                st._add(named == old)
                old = named
            arr = z3.Array(st.fresh_name('%s@r%d%s' % (self.uid, self.version, suffix)), z3.IntSort(), _SORT[kind]())
            st._add(z3.ForAll([j], z3.Select(arr, j) == z3.Select(old, j + b), patterns=[z3.Select(arr, j)]))
            st._add(z3.ForAll([j], z3.Select(arr, j - b) == z3.Select(old, j), patterns=[z3.Select(old, j)]))
            new[path] = arr
        self.arrs = new
        self.base = z3.IntVal(0)

    def pop(self, interp, pos=-1):
        st = interp.st
        if not st.fork(wrap(self.length > 0)):
            from .interp import PyRaise
            raise PyRaise(IndexError('pop from empty list'))
        if isinstance(pos, int) and pos == -1:
            v = self._elem(interp, z3.simplify(self.length - 1))
            # (join measures of the base list are carried over the removal of its last item, see _joins_without_last)
            joins = dict(self.base_measures) if (not self.tail and not self.base_empty
                                                 and self.shape == ('str',)) else {}
            self.length = z3.simplify(self.length - 1)
            self.cache = {}
            self.version += 1
            self.new_base()
            _joins_without_last(interp, self, joins, v)
            return v
        if isinstance(pos, int) and pos == 0:
            v = self._elem(interp, z3.IntVal(0))
            self.delete_first(interp)
            return v
        raise Unsupported('pop at a symbolic position')

    def delete_first(self, interp):
        self.aux = {}
        self.cache = {}
        self.version += 1
        self.base = z3.simplify(self.base + 1)
        self.length = z3.simplify(self.length - 1)
        self.new_base()
        self._rebase(interp)

    def extend(self, interp, other):
        self.aux = {}
        if isinstance(other, (list, tuple)):
            for x in other:
                self.append(interp, x)
            return
        if isinstance(other, SList):
            if other.length is self.length and other is self:
                raise Unsupported('extend with itself')
            if self.shape is None:
                if isinstance(other, MList) and other.shape is not None:
                    self.shape = other.shape
                else:
                    # shape of a generic element of the other sequence
                    probe = interp.st.fresh_int('k!shape')
                    with interp.st.scope(z3.And(probe >= 0, probe < other.length)):
                        self.shape = shape_of_value(models.slist_elem(interp, other, probe))
                self._fresh_arrays(interp, self.uid)
            k = z3.Int('k!ext')
            n = self.length
            end = z3.simplify(self.base + n)
            sample = models.slist_elem(interp, other, k - end)
            _enc = _encode(interp, self.shape, sample)
            for path, kind in _paths(self.shape):
                a = self.arrs[path]
                self.arrs[path] = z3.Lambda([k], z3.If(k < end, z3.Select(a, k), to_z3(_enc[path])))
            self.length = z3.simplify(n + other.length)
            self.cache = {}
            self.version += 1
            self.new_base()
            return
        for x in interp.iterate(other):
            self.append(interp, x)

    def setitem(self, interp, idx, v):
        self.aux = {}
        st = interp.st
        t = to_z3(idx)
        if not st.fork(wrap(z3.And(t >= 0, t < self.length))):
            if st.fork(wrap(z3.And(t < 0, t >= -self.length))):
                t = self.length + t
            else:
                from .interp import PyRaise
                raise PyRaise(IndexError('list assignment index out of range'))
        self._ensure_shape(interp, v)
        self.cache = {}
        self.version += 1
        at = z3.simplify(self.base + t)
        _enc = _encode(interp, self.shape, v)
        for path, kind in _paths(self.shape):
            self.arrs[path] = z3.Store(self.arrs[path], at, to_z3(_enc[path]))
        self.new_base()

    def copy(self, interp):
        c = MList(interp, interp.st.fresh_name(self.uid + '.copy'), None, self.length)
        c.shape = self.shape
        c.arrs = dict(self.arrs)
        c.aux = dict(self.aux)
        c.base = self.base
        c.is_deque = self.is_deque
        c.base_empty, c.base_len, c.tail = self.base_empty, self.base_len, list(self.tail)
        c.base_measures = self.base_measures      # shared: same base list, same (lazily created) values
        c.mversion = self.mversion
        return c


def method(interp, xs, name, args, kwargs):
    if name == 'append':
        return xs.append(interp, args[0])
    if name == 'insert':
        return xs.insert(interp, args[0], args[1])
    if name == 'pop':
        return xs.pop(interp, *args)
    if name == 'popleft' and xs.is_deque:
        return xs.pop(interp, 0)
    if name == 'appendleft' and xs.is_deque:
        return xs.insert(interp, 0, args[0])
    if name == 'extend':
        return xs.extend(interp, args[0])
    if name == 'copy':
        return xs.copy(interp)
    if name == 'clear':
        xs.length = z3.IntVal(0)
        xs.cache = {}
        xs.aux = {}
        xs.version += 1
        xs.new_base()
        xs.base_empty = True
        return None
    return None


def from_concrete(interp, values, uid='list'):
    m = MList(interp, interp.st.fresh_name(uid), None)
    for v in values:
        m.append(interp, v)
    return m


# ------------------------------------------------------------------------------ measures (left folds)

def _param_key(params):
    out = []
    for a in params:
        if isinstance(a, (Sym, int, str, bool)) and not isinstance(a, (SOpt, SChoice, SList)):
            out.append(z3.simplify(to_z3(a)).sexpr())
        else:
            out.append('id%d' % id(a))
    return tuple(out)


def apply_measure(interp, m, args):
    """h(xs, *params) for a pyvc.api.Measure h:  h([]) == init,  h(xs + [x]) == step(h(xs), x, *params).
    On a list built by the code the fold is computed; on a symbolic mutable list it is computed from the
    (unknown, but fixed) value on the list as it was at the last havoc and the items appended since."""
    if not args:
        raise Unsupported('measure %s called without a list' % m.name)
    xs = args[0]
    params = list(args[1:])
    if isinstance(xs, (SOpt, SChoice)):
        xs = interp.resolve(xs)
    if isinstance(xs, (list, tuple)):
        acc = m.init
        for x in xs:
            acc = interp.call(m.step, [acc, x] + params, {})
        return acc
    if isinstance(xs, MList):
        if xs.base_empty:
            acc = m.init
        else:
            key = (m.name, _param_key(params))
            if key not in xs.base_measures:
                v = m.shape.make(interp, '%s(%s#%d)' % (m.name, xs.uid, xs.mversion))
                xs.base_measures[key] = v
                # the fold of the empty list is `init`
                e = interp.truth(interp.eq(v, m.init))
                interp.st._add(z3.Implies(xs.base_len == 0, to_z3(e)))      # valid in every merge scope
            acc = xs.base_measures[key]
        for x in xs.tail:
            acc = interp.call(m.step, [acc, x] + params, {})
        return acc
    raise Unsupported('measure %s of %r (only lists built by the code and MListOf lists)' % (m.name, type(xs).__name__))


_JOIN_SEPS = {}       # key of a join measure -> the separator term (to carry the measure over `del xs[-1]`)


def _joins_without_last(interp, xs, joins, last):
    """xs has just lost its last item `last` (it had no tail: it was its base list).  For every join measure J
    known of the old list the new base list gets the measure J' with  J == J' + sep + last  (J' == '' and
    J == last when the new list is empty): sep.join(ys + [y]) == sep.join(ys) + sep + y for non-empty ys."""
    st = interp.st
    for key, j in joins.items():
        if key[0] != 'str.join' or key not in _JOIN_SEPS:
            continue
        sep_t = _JOIN_SEPS[key]
        j2 = st.fresh_str('join(%s#%d)' % (xs.uid, xs.mversion))
        if st.must_hold_lengths(xs.base_len > 0):
            # J == J' . sep . last  as a decomposition of J that later cuts of J are aligned with
            from . import strings
            parts = [j2, sep_t, to_z3(last)]
            st._add(j == z3.Concat(*parts))
            if strings._is_piece(j):
                strings._decomps(interp, j).append(strings._dec(interp, parts))
            strings.note_concat(interp, j, parts)
        else:
            st._add(z3.Implies(xs.base_len == 0, z3.And(j2 == z3.StringVal(''), j == to_z3(last))))
            st._add(z3.Implies(xs.base_len > 0, j == z3.Concat(j2, sep_t, to_z3(last))))
        xs.base_measures[key] = j2


def split_all(interp, t, sep):
    """t.split(sep) for a single-character separator as a mutable list of strings (used with string alignment
    on): count(sep) + 1 items, none of which contains sep; sep.join of it is t (its join measure); the last item
    is what follows the last separator."""
    from . import strings
    st = interp.st
    f = strings.count_fn(interp, sep)
    strings._count_facts(interp, f, sep, t)
    n = st.fresh_int('split.len')
    st.assume(n == f(t) + 1)
    xs = MList(interp, st.fresh_name('split'), ('str',), length=n)
    sep_t = z3.StringVal(sep)
    key = ('str.join', _param_key([sep]))
    _JOIN_SEPS[key] = sep_t
    xs.base_measures[key] = t
    arr = xs.arrs[()]
    j = z3.Int('j!split')
    st._add(z3.ForAll([j], z3.Implies(z3.And(j >= 0, j < n),
                                      z3.And(f(z3.Select(arr, j)) == 0,
                                             z3.Not(z3.Contains(z3.Select(arr, j), sep_t)))),
                      patterns=[z3.Select(arr, j)]))
    last = z3.Select(arr, n - 1)
    pre = st.fresh_str('split.before-last')
    st._add(z3.Implies(n == 1, t == last))
    st._add(z3.Implies(n > 1, t == z3.Concat(pre, sep_t, last)))
    st._add(z3.And(f(last) == 0, z3.Not(z3.Contains(last, sep_t))))
    # (a consequence of the three facts above, stated for the solvers: the last item is empty exactly when
    # nothing follows the last separator)
    st._add((last == z3.StringVal('')) == z3.Or(t == z3.StringVal(''), z3.SuffixOf(sep_t, t)))
    return xs


def join(interp, sep, xs):
    """sep.join(xs) for a symbolic mutable list of strings: a left fold like a measure"""
    st = interp.st
    if xs.shape is not None and xs.shape != ('str',):
        from .interp import PyRaise
        raise PyRaise(TypeError('sequence item: expected str instance'))
    sep_t = to_z3(sep)
    if xs.base_empty:
        acc = z3.StringVal('')
        empty = z3.BoolVal(True)
    else:
        key = ('str.join', _param_key([sep]))
        _JOIN_SEPS.setdefault(key, sep_t)
        if key not in xs.base_measures:
            j = st.fresh_str('join(%s#%d)' % (xs.uid, xs.mversion))
            st._add(z3.Implies(xs.base_len == 0, j == z3.StringVal('')))
            xs.base_measures[key] = j
        acc = xs.base_measures[key]
        empty = xs.base_len == 0
        if xs.tail and st.must_hold_lengths(xs.base_len >= 1):
            empty = z3.BoolVal(False)      # (known by arithmetic: no case distinction in the term)
    from . import strings
    for x in xs.tail:
        if isinstance(sep, str) and sep == '':
            # no separator: the measure of an empty list is '' and '' + x == x, no case distinction needed
            acc = to_z3(strings.concat(interp, wrap(acc), x))
            empty = z3.BoolVal(False)
            continue
        with_sep = strings.concat(interp, strings.concat(interp, wrap(acc), sep), x)
        acc = z3.simplify(z3.If(empty, to_z3(x), to_z3(with_sep)))
        empty = z3.BoolVal(False)
    return wrap(acc)
