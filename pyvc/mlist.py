"""Mutable lists of symbolic length (results accumulated in loops, out-parameters).

An MList is a length term plus one z3 array per scalar component of its elements (elements are
ints, bools, strings or tuples of these).  append / insert(0, .) / pop / del xs[0] / extend /
xs[i] = v are functional updates of the arrays; at loop heads the list is havocked in place
(fresh arrays, fresh length) so that aliases keep seeing the same object."""
try:
    import z3
except ImportError:
    z3 = None

import ast

from .path import Unsupported
from .values import SInt, SBool, SStr, SOpt, SChoice, SList, Sym, to_z3, wrap
from . import models

_SORT = {'int': lambda: z3.IntSort(), 'bool': lambda: z3.BoolSort(), 'str': lambda: z3.StringSort()}


def _kind(v):
    if isinstance(v, (SBool, bool)):
        return 'bool'
    if isinstance(v, (SInt, int)):
        return 'int'
    if isinstance(v, (SStr, str)):
        return 'str'
    return None


def shape_of_value(v):
    if isinstance(v, tuple) and type(v) is tuple:
        return ('tuple', tuple(shape_of_value(x) for x in v))
    k = _kind(v)
    if k is None:
        d = getattr(v, '__dict__', None)
        if isinstance(d, dict) and not isinstance(v, (Sym, type)) and type(v).__module__ != 'builtins':
            # a plain data object: an instance whose attributes are scalars (or such objects)
            return ('inst', type(v), tuple((a, shape_of_value(d[a])) for a in sorted(d)))
        raise Unsupported('element of a symbolic mutable list must be int/bool/str, a tuple of these or a plain '
                          'data object: %r' % (v,))
    return (k,)


def _paths(shape, path=()):
    if shape[0] == 'tuple':
        for i, s in enumerate(shape[1]):
            for p in _paths(s, path + (i,)):
                yield p
    elif shape[0] == 'inst':
        for a, s in shape[2]:
            for p in _paths(s, path + (a,)):
                yield p
    else:
        yield path, shape[0]


def _leaf(v, path):
    for i in path:
        v = v[i] if isinstance(i, int) else v.__dict__[i]
    return v


class MList(SList):
    __slots__ = ('shape', 'arrs', 'base_empty', 'base_len', 'tail', 'base_measures', 'version')

    def __init__(self, interp, uid, shape, length=None, fresh=True):
        SList.__init__(self, length if length is not None else z3.IntVal(0), None, uid)
        self.shape = shape
        self.arrs = {}
        self.immutable = False
        self.elem = self._elem
        # measures (left folds, see pyvc.api.Measure): the list is `base` followed by the items of `tail`;
        # the base is the empty list (created empty) or an arbitrary list whose measure values are unknown
        self.base_empty = length is None
        self.base_len = self.length
        self.tail = []
        self.base_measures = {}
        self.version = 0
        if shape is not None:
            self._fresh_arrays(interp, uid)

    def _fresh_arrays(self, interp, base):
        for path, kind in _paths(self.shape):
            name = interp.st.fresh_name('%s%s' % (base, ''.join('.%s' % (i,) for i in path)))
            self.arrs[path] = z3.Array(name, z3.IntSort(), _SORT[kind]())

    def _elem(self, interp, idx):
        if self.shape is None:
            raise Unsupported('element of an empty symbolic list of unknown element shape')

        def load(shape, path):
            if shape[0] == 'tuple':
                return tuple(load(s, path + (i,)) for i, s in enumerate(shape[1]))
            if shape[0] == 'inst':
                o = object.__new__(shape[1])
                for a, s in shape[2]:
                    object.__setattr__(o, a, load(s, path + (a,)))
                return o
            return wrap(z3.Select(self.arrs[path], idx))

        return load(self.shape, ())

    def _ensure_shape(self, interp, v):
        sh = shape_of_value(v)
        if self.shape is None:
            self.shape = sh
            self._fresh_arrays(interp, self.uid)
        elif self.shape != sh:
            raise Unsupported('symbolic list holds elements of different shapes: %r / %r' % (self.shape, sh))

    # ---- mutation -------------------------------------------------------------
    def new_base(self):
        """the contents changed in a way measures do not follow: their values become unknown"""
        self.base_empty = False
        self.base_len = self.length
        self.tail = []
        self.base_measures = {}
        self.version += 1

    def havoc(self, interp, tag):
        self.cache = {}
        n = interp.st.fresh_int('%s.len@%s' % (self.uid, tag))
        interp.st.assume(n >= 0)
        self.length = n
        self.new_base()
        if self.shape is not None:
            self.arrs = {}
            self._fresh_arrays(interp, '%s@%s' % (self.uid, tag))

    def append(self, interp, v):
        if isinstance(v, (SOpt, SChoice)):
            v = interp.resolve(v)
        self._ensure_shape(interp, v)
        self.cache = {}
        for path, kind in _paths(self.shape):
            self.arrs[path] = z3.Store(self.arrs[path], self.length, to_z3(_leaf(v, path)))
        self.length = z3.simplify(self.length + 1)
        self.tail.append(v)

    def insert(self, interp, pos, v):
        if not (isinstance(pos, int) and pos == 0):
            raise Unsupported('insert at a position other than 0 in a symbolic list')
        self._ensure_shape(interp, v)
        self.cache = {}
        k = z3.Int('k!shift')
        for path, kind in _paths(self.shape):
            a = self.arrs[path]
            self.arrs[path] = z3.Lambda([k], z3.If(k == 0, to_z3(_leaf(v, path)), z3.Select(a, k - 1)))
        self.length = z3.simplify(self.length + 1)
        self.new_base()

    def pop(self, interp, pos=-1):
        st = interp.st
        if not st.fork(wrap(self.length > 0)):
            from .interp import PyRaise
            raise PyRaise(IndexError('pop from empty list'))
        if isinstance(pos, int) and pos == -1:
            v = self._elem(interp, z3.simplify(self.length - 1))
            self.length = z3.simplify(self.length - 1)
            self.cache = {}
            self.new_base()
            return v
        if isinstance(pos, int) and pos == 0:
            v = self._elem(interp, z3.IntVal(0))
            self.delete_first(interp)
            return v
        raise Unsupported('pop at a symbolic position')

    def delete_first(self, interp):
        k = z3.Int('k!shift')
        self.cache = {}
        for path, kind in _paths(self.shape):
            a = self.arrs[path]
            self.arrs[path] = z3.Lambda([k], z3.Select(a, k + 1))
        self.length = z3.simplify(self.length - 1)
        self.new_base()

    def extend(self, interp, other):
        if isinstance(other, (list, tuple)):
            for x in other:
                self.append(interp, x)
            return
        if isinstance(other, SList):
            if other.length is self.length and other is self:
                raise Unsupported('extend with itself')
            if self.shape is None:
                if isinstance(other, MList) and other.shape is not None:
                    self.shape = other.shape
                    self._fresh_arrays(interp, self.uid)
                else:
                    raise Unsupported('extend of an empty list of unknown shape')
            k = z3.Int('k!ext')
            n = self.length
            sample = models.slist_elem(interp, other, k - n)
            for path, kind in _paths(self.shape):
                a = self.arrs[path]
                self.arrs[path] = z3.Lambda([k], z3.If(k < n, z3.Select(a, k), to_z3(_leaf(sample, path))))
            self.length = z3.simplify(n + other.length)
            self.cache = {}
            self.new_base()
            return
        for x in interp.iterate(other):
            self.append(interp, x)

    def setitem(self, interp, idx, v):
        st = interp.st
        t = to_z3(idx)
        if not st.fork(wrap(z3.And(t >= 0, t < self.length))):
            if st.fork(wrap(z3.And(t < 0, t >= -self.length))):
                t = self.length + t
            else:
                from .interp import PyRaise
                raise PyRaise(IndexError('list assignment index out of range'))
        self._ensure_shape(interp, v)
        self.cache = {}
        for path, kind in _paths(self.shape):
            self.arrs[path] = z3.Store(self.arrs[path], t, to_z3(_leaf(v, path)))
        self.new_base()

    def copy(self, interp):
        c = MList(interp, interp.st.fresh_name(self.uid + '.copy'), None, self.length)
        c.shape = self.shape
        c.arrs = dict(self.arrs)
        c.base_empty, c.base_len, c.tail = self.base_empty, self.base_len, list(self.tail)
        c.base_measures = self.base_measures      # shared: same base, same (lazily created) values
        return c


def method(interp, xs, name, args, kwargs):
    if name == 'append':
        return xs.append(interp, args[0])
    if name == 'insert':
        return xs.insert(interp, args[0], args[1])
    if name == 'pop':
        return xs.pop(interp, *args)
    if name == 'extend':
        return xs.extend(interp, args[0])
    if name == 'copy':
        return xs.copy(interp)
    if name == 'clear':
        xs.length = z3.IntVal(0)
        xs.cache = {}
        xs.new_base()
        xs.base_empty = True
        return None
    return None


def from_concrete(interp, values, uid='list'):
    m = MList(interp, interp.st.fresh_name(uid), None)
    for v in values:
        m.append(interp, v)
    return m


# ------------------------------------------------------------------------------ measures (left folds)

def _param_key(params):
    out = []
    for a in params:
        if isinstance(a, (Sym, int, str, bool)) and not isinstance(a, (SOpt, SChoice, SList)):
            out.append(z3.simplify(to_z3(a)).sexpr())
        else:
            out.append('id%d' % id(a))
    return tuple(out)


def apply_measure(interp, m, args):
    """h(xs, *params) for a pyvc.api.Measure h:  h([]) == init,  h(xs + [x]) == step(h(xs), x, *params).
    On a list built by the code the fold is computed; on a symbolic mutable list it is computed from the
    (unknown, but fixed) value on the list as it was at the last havoc and the items appended since."""
    if not args:
        raise Unsupported('measure %s called without a list' % m.name)
    xs = args[0]
    params = list(args[1:])
    if isinstance(xs, (SOpt, SChoice)):
        xs = interp.resolve(xs)
    if isinstance(xs, (list, tuple)):
        acc = m.init
        for x in xs:
            acc = interp.call(m.step, [acc, x] + params, {})
        return acc
    if isinstance(xs, MList):
        if xs.base_empty:
            acc = m.init
        else:
            key = (m.name, _param_key(params))
            if key not in xs.base_measures:
                v = m.shape.make(interp, '%s(%s#%d)' % (m.name, xs.uid, xs.version))
                xs.base_measures[key] = v
                # the fold of the empty list is `init`
                e = interp.truth(interp.eq(v, m.init))
                interp.st._add(z3.Implies(xs.base_len == 0, to_z3(e)))      # valid in every merge scope
            acc = xs.base_measures[key]
        for x in xs.tail:
            acc = interp.call(m.step, [acc, x] + params, {})
        return acc
    raise Unsupported('measure %s of %r (only lists built by the code and MListOf lists)' % (m.name, type(xs).__name__))


def join(interp, sep, xs):
    """sep.join(xs) for a symbolic mutable list of strings: a left fold like a measure"""
    st = interp.st
    if xs.shape is not None and xs.shape != ('str',):
        from .interp import PyRaise
        raise PyRaise(TypeError('sequence item: expected str instance'))
    sep_t = to_z3(sep)
    if xs.base_empty:
        acc = z3.StringVal('')
        empty = z3.BoolVal(True)
    else:
        key = ('str.join', _param_key([sep]))
        if key not in xs.base_measures:
            j = st.fresh_str('join(%s#%d)' % (xs.uid, xs.version))
            st._add(z3.Implies(xs.base_len == 0, j == z3.StringVal('')))
            xs.base_measures[key] = j
        acc = xs.base_measures[key]
        empty = xs.base_len == 0
    from . import strings
    for x in xs.tail:
        with_sep = strings.concat(interp, strings.concat(interp, wrap(acc), sep), x)
        acc = z3.simplify(z3.If(empty, to_z3(x), to_z3(with_sep)))
        empty = z3.BoolVal(False)
    return wrap(acc)
