"""Symbolic interpreter of Python ASTs (the functions of /repo and the contract clauses)."""
import ast
import builtins
import enum
import functools
import inspect
import operator
import re
import sys
import threading
import types

try:
    import z3
except ImportError:      # replays run under the repository's interpreter, without z3
    z3 = None

from . import frontend
from .frontend import FuncInfo, funcinfo_of, funcinfo_of_code, is_interpretable_file
from .path import PathAbort, RetryPath, Unsupported, PathState
from .values import (Sym, SInt, SBool, SStr, SOpt, SChoice, SList, Opaque, OpaqueVal,
                     is_sym, contains_sym, to_z3, wrap)


class PyRaise(Exception):
    """A Python exception raised by interpreted code."""

    def __init__(self, exc, cause=None):
        Exception.__init__(self, repr(exc))
        self.exc = exc


class ArbitraryException(Exception):
    """Stands for 'any exception that is an Exception but none of the classes the code names'."""


class _GenAbort(BaseException):
    pass


class BoundMethod:
    __slots__ = ('func', 'self_', 'defcls')

    def __init__(self, func, self_, defcls=None):
        self.func = func
        self.self_ = self_
        self.defcls = defcls

    def __repr__(self):
        return '<BoundMethod %s of %r>' % (getattr(self.func, '__qualname__', self.func), type(self.self_).__name__)

    def __eq__(self, other):
        return isinstance(other, BoundMethod) and self.func is other.func and self.self_ is other.self_

    def __hash__(self):
        return hash((id(self.func), id(self.self_)))

    @property
    def __self__(self):
        return self.self_

    @property
    def __func__(self):
        return self.func


class EngineFn:
    """A callable implemented by the engine (takes and returns engine values)."""
    __slots__ = ('fn',)

    def __init__(self, fn):
        self.fn = fn


class SymMethod:
    __slots__ = ('recv', 'name')

    def __init__(self, recv, name):
        self.recv = recv
        self.name = name


class Closure:
    """A function created by interpreted code (nested def / lambda)."""

    def __init__(self, info, enclosing, defaults, kwdefaults, name, defcls_hint=None):
        self.info = info
        self.enclosing = enclosing
        self.defaults = defaults
        self.kwdefaults = kwdefaults
        self.__name__ = name
        self.__qualname__ = info.qualname
        self.defcls_hint = defcls_hint

    def __repr__(self):
        return '<Closure %s>' % self.info.qualname


class Frame:
    __slots__ = ('info', 'locals', 'enclosing', 'gen', 'first_arg', 'defcls', 'loop_counter', 'call_counter',
                 'reduce_counter', 'reduce_site', 'join_counter', 'model_site', 'loop_index', 'map_counter',
                 'undeclared_loop_names', 'assumed', 'proving')

    def __init__(self, info, locals_, enclosing, first_arg=None, defcls=None):
        self.info = info
        self.locals = locals_
        self.enclosing = enclosing      # list of dicts, innermost last
        self.undeclared_loop_names = set()      # names assigned in a loop that its specification does not declare
        self.gen = None
        self.first_arg = first_arg
        self.defcls = defcls
        self.loop_counter = 0
        self.call_counter = 0
        self.reduce_counter = 0
        self.reduce_site = None
        self.join_counter = 0
        self.model_site = None
        self.loop_index = {}
        self.map_counter = 0

        self.assumed = False    # the truth of this frame's result is about to be assumed (see Interp.call_assumed)
        self.proving = None     # (obligation name, meta): the truth of this frame's result is to be proved

class PartialObj:
    """functools.partial of an interpreted callable / with symbolic arguments"""

    def __init__(self, func, args, keywords):
        self.func, self.args, self.keywords = func, tuple(args), dict(keywords)


class SuperProxy:
    def __init__(self, cls, obj):
        self.cls = cls
        self.obj = obj


class CtxMgr:
    """Context manager made from an @contextmanager generator function."""

    def __init__(self, gen):
        self.gen = gen


class GenObj:
    """Interpreted generator, run in its own thread (strict hand-off, never concurrent)."""

    def __init__(self, interp, runner, name):
        self.interp = interp
        self.runner = runner
        self.name = name
        self.state = 'new'
        self.to_gen = threading.Semaphore(0)
        self.to_caller = threading.Semaphore(0)
        self._in = None
        self._out = None
        self.thread = None
        interp.st.generators.append(self)

    def _thread_main(self):
        self.to_gen.acquire()
        msg = self._in
        try:
            if msg[0] == 'abort':
                raise _GenAbort()
            if msg[0] == 'throw':
                raise PyRaise(msg[1])
            v = self.runner(self)
            self._out = ('return', v)
        except PyRaise as e:
            self._out = ('raise', e)
        except _GenAbort:
            self._out = ('aborted',)
        except BaseException as e:
            self._out = ('engine', e)
        self.state = 'done'
        self.to_caller.release()

    def _resume(self, msg):
        if self.state == 'done':
            if msg[0] == 'throw':
                raise PyRaise(msg[1])
            raise PyRaise(StopIteration())
        if self.state == 'running':
            raise PyRaise(ValueError('generator already executing'))
        if self.state == 'new':
            self.thread = threading.Thread(target=self._thread_main, daemon=True)
            self.thread.start()
        self._in = msg
        self.state = 'running'
        self.to_gen.release()
        self.to_caller.acquire()
        out = self._out
        if out[0] == 'yield':
            self.state = 'suspended'
            return out[1]
        self.state = 'done'
        if out[0] == 'return':
            ex = StopIteration()
            ex.value = out[1]
            raise PyRaise(ex)
        if out[0] == 'raise':
            raise out[1]
        if out[0] == 'engine':
            raise out[1]
        if out[0] == 'aborted':
            raise _GenAbort()
        raise AssertionError(out)

    def send(self, v=None):
        return self._resume(('next', v))

    def throw(self, exc):
        return self._resume(('throw', exc))

    def close(self):
        if self.state == 'suspended':
            try:
                self._resume(('throw', GeneratorExit()))
            except PyRaise as e:
                if isinstance(e.exc, (GeneratorExit, StopIteration)):
                    return
                raise
            raise PyRaise(RuntimeError('generator ignored GeneratorExit'))
        self.state = 'done' if self.state == 'new' else self.state

    def abort(self):
        """Engine-level: unwind a suspended generator without running interpreted code."""
        if self.state == 'suspended':
            try:
                self._resume(('abort',))
            except _GenAbort:
                pass
        self.state = 'done'

    # called from the generator thread
    def do_yield(self, v):
        self._out = ('yield', v)
        self.to_caller.release()
        self.to_gen.acquire()
        msg = self._in
        if msg[0] == 'next':
            return msg[1]
        if msg[0] == 'throw':
            raise PyRaise(msg[1])
        raise _GenAbort()


_BINOPS = {
    ast.Add: operator.add, ast.Sub: operator.sub, ast.Mult: operator.mul, ast.FloorDiv: operator.floordiv,
    ast.Mod: operator.mod, ast.Div: operator.truediv, ast.Pow: operator.pow, ast.BitOr: operator.or_,
    ast.BitAnd: operator.and_, ast.BitXor: operator.xor, ast.LShift: operator.lshift, ast.RShift: operator.rshift,
    ast.MatMult: operator.matmul,
}
_DUNDER = {
    ast.Add: ('__add__', '__radd__'), ast.Sub: ('__sub__', '__rsub__'), ast.Mult: ('__mul__', '__rmul__'),
    ast.Mod: ('__mod__', '__rmod__'), ast.BitOr: ('__or__', '__ror__'), ast.BitAnd: ('__and__', '__rand__'),
    ast.Div: ('__truediv__', '__rtruediv__'), ast.FloorDiv: ('__floordiv__', '__rfloordiv__'),
}
_BINOP_DUNDERS = _DUNDER
_CMPOPS = {
    ast.Eq: operator.eq, ast.NotEq: operator.ne, ast.Lt: operator.lt, ast.LtE: operator.le,
    ast.Gt: operator.gt, ast.GtE: operator.ge,
}

_NATIVE_CONTAINER_TYPES = (list, dict, tuple, set, frozenset)

_SAFE_NATIVE_METHODS = {
    (list, 'append'), (list, 'extend'), (list, 'insert'), (list, 'pop'), (list, 'clear'), (list, 'copy'),
    (list, 'reverse'), (list, '__len__'), (list, '__iter__'), (list, '__getitem__'),
    (dict, 'get'), (dict, 'items'), (dict, 'keys'), (dict, 'values'), (dict, 'copy'), (dict, 'pop'),
    (dict, 'setdefault'), (dict, 'update'), (dict, 'clear'), (dict, '__contains__'),
    (tuple, '__len__'), (tuple, '__getitem__'),
}


class Interp:
    def __init__(self, st: PathState, registry):
        self.st = st
        self.reg = registry
        self.depth = 0
        self.max_depth = 400
        self.fn_name = '?'
        self.frame_stack = []
        self.cover_file = None
        from . import strings as _strings
        st.on_fact = lambda t: _strings.learn(self, t)
        self.loop_index_stack = []     # index terms of the enclosing symbolic loops (arbitrary iteration)
        self.loop_frame_stack = []     # arbitrary iterations being executed: declared object fields, new objects
        self.collect = None            # (code object, YSeq): the generator function under verification

    def current_function_name(self):
        return self.fn_name

    # ======================================================================= frames
    def lookup(self, name, frame):
        info = frame.info
        if name in frame.locals:
            return frame.locals[name]
        if name in info.local_names:
            if name in getattr(frame, 'undeclared_loop_names', ()):
                raise Unsupported('the loop carries a value in %r, which its specification does not declare '
                                  '(the function has changed since the invariant was written)' % name)
            raise PyRaise(UnboundLocalError("local variable '%s' referenced before assignment" % name))
        for d in reversed(frame.enclosing):
            if name in d:
                return d[name]
        g = info.globals
        if name in g:
            return g[name]
        b = g.get('__builtins__', builtins)
        if isinstance(b, dict):
            if name in b:
                return b[name]
        elif hasattr(b, name):
            return getattr(b, name)
        if hasattr(builtins, name):
            return getattr(builtins, name)
        raise PyRaise(NameError("name '%s' is not defined" % name))

    def store_name(self, name, value, frame):
        info = frame.info
        if name in info.nonlocal_names:
            for d in reversed(frame.enclosing):
                if name in d:
                    d[name] = value
                    return
            raise Unsupported('nonlocal %s not found' % name)
        if name in info.global_names:
            raise Unsupported('assignment to global %s' % name)
        if type(value) is list and self.reg.local_shapes:
            declared = self.reg.local_shapes.get(info)
            if declared and name in declared:
                # contract-directed representation: this local list is a symbolic mutable list from the start
                from .mlist import MList, from_concrete
                if value:
                    value = from_concrete(self, value, name)
                else:
                    value = MList(self, self.st.fresh_name(name), declared[name].shape())
        frame.locals[name] = value

    @staticmethod
    def mangle(name, class_name):
        if class_name and name.startswith('__') and not name.endswith('__'):
            return '_' + class_name.lstrip('_') + name
        return name

    # ======================================================================= calling
    def bind_args(self, info, defaults, kwdefaults, args, kwargs):
        a = info.node.args
        params = [p.arg for p in a.posonlyargs + a.args]
        loc = {}
        args = list(args)
        kwargs = dict(kwargs)
        renamed = getattr(info.node, '_pv_renamed_params', None)
        if renamed:
            # the function is interpreted with the parameter names of the pinned tree (frontend: renamed locals)
            kwargs = {renamed.get(k, k): v for k, v in kwargs.items()}
        n = len(params)
        if len(args) > n and not a.vararg:
            raise PyRaise(TypeError('%s() takes %d positional arguments but %d were given'
                                    % (info.qualname, n, len(args))))
        for i, p in enumerate(params):
            if i < len(args):
                loc[p] = args[i]
                if p in kwargs:
                    raise PyRaise(TypeError("%s() got multiple values for argument '%s'" % (info.qualname, p)))
            elif p in kwargs:
                loc[p] = kwargs.pop(p)
            else:
                di = i - (n - len(defaults))
                if di >= 0:
                    loc[p] = defaults[di]
                else:
                    raise PyRaise(TypeError("%s() missing required argument '%s'" % (info.qualname, p)))
        if a.vararg:
            loc[a.vararg.arg] = tuple(args[n:])
        for i, p in enumerate(a.kwonlyargs):
            if p.arg in kwargs:
                loc[p.arg] = kwargs.pop(p.arg)
            elif kwdefaults and p.arg in kwdefaults:
                loc[p.arg] = kwdefaults[p.arg]
            else:
                raise PyRaise(TypeError("%s() missing keyword-only argument '%s'" % (info.qualname, p.arg)))
        if a.kwarg:
            loc[a.kwarg.arg] = kwargs
        elif kwargs:
            raise PyRaise(TypeError("%s() got an unexpected keyword argument '%s'"
                                    % (info.qualname, next(iter(kwargs)))))
        return loc

    def run_function(self, info, enclosing, defaults, kwdefaults, args, kwargs, defcls=None, assumed=False,
                     proving=None):
        loc = self.bind_args(info, defaults, kwdefaults, args, kwargs)
        first = args[0] if args else None
        frame = Frame(info, loc, enclosing, first, defcls)
        frame.assumed = assumed
        frame.proving = proving
        if info.is_generator and self.collect is not None and self.collect[0] is info and not self.collect[2]:
            # the generator under verification: its body runs here, yields go to the ghost sequence
            from .gens import CollectGen
            self.collect[2] = True
            frame.gen = CollectGen(self, self.collect[1])
            return self._run_body(frame)
        if info.is_generator:
            def runner(gen, frame=frame):
                frame.gen = gen
                return self._run_body(frame)

            return GenObj(self, runner, info.qualname)
        return self._run_body(frame)

    def _run_body(self, frame):
        node = frame.info.node
        self.depth += 1
        if self.depth > self.max_depth:
            self.depth -= 1
            raise Unsupported('interpretation depth exceeded in %s' % frame.info.qualname)
        self.frame_stack.append(frame)
        try:
            if isinstance(node, ast.Lambda):
                return self.eval(node.body, frame)
            r = self.exec_block(node.body, frame)
            if r is not None and r[0] == 'return':
                return r[1]
            return None
        finally:
            self.depth -= 1
            if self.frame_stack and self.frame_stack[-1] is frame:
                self.frame_stack.pop()
            elif frame in self.frame_stack:
                self.frame_stack.remove(frame)

    def call_real_function(self, func, args, kwargs, defcls=None):
        """Interpret a real function object from its source."""
        info = funcinfo_of(func)
        enclosing = []
        if func.__closure__:
            enclosing = [dict(zip(func.__code__.co_freevars, [_cell(c) for c in func.__closure__]))]
        self.st.inlined.add(_qn(func))
        defaults = func.__defaults__ or ()
        return self.run_function(info, enclosing, defaults, func.__kwdefaults__, args, kwargs, defcls)

    def call(self, f, args=(), kwargs=None):
        kwargs = kwargs or {}
        st = self.st
        if isinstance(f, (SOpt, SChoice)):
            f = self.resolve(f)
        # --- bound methods
        if isinstance(f, BoundMethod):
            return self.call_function_object(f.func, [f.self_] + list(args), kwargs, f.defcls, bound_self=f.self_)
        if isinstance(f, types.MethodType):
            return self.call_function_object(f.__func__, [f.__self__] + list(args), kwargs, None,
                                             bound_self=f.__self__)
        if isinstance(f, EngineFn):
            return f.fn(*args, **kwargs)
        if isinstance(f, SymMethod):
            from . import models
            return models.call_sym_method(self, f.recv, f.name, list(args), kwargs)
        if isinstance(f, Closure):
            return self.run_function(f.info, f.enclosing, f.defaults, f.kwdefaults, args, kwargs, f.defcls_hint)
        if isinstance(f, (functools.partial, PartialObj)):
            kw = dict(f.keywords)
            kw.update(kwargs)
            return self.call(f.func, list(f.args) + list(args), kw)
        if isinstance(f, Opaque):
            return self.reg.call_opaque(self, f, '__call__', list(args), kwargs)
        from .api import OpaqueMethod, call_opaque_method, Measure
        if isinstance(f, Measure):
            from . import mlist
            return mlist.apply_measure(self, f, list(args))
        if isinstance(f, OpaqueMethod):
            return call_opaque_method(self, f.o, f.name, f.m, list(args), kwargs)
        if isinstance(f, _CtxFactory):
            return CtxMgr(self.call(f.closure, args, kwargs))
        if isinstance(f, types.FunctionType):
            return self.call_function_object(f, list(args), kwargs, None)
        if isinstance(f, type):
            return self.construct(f, list(args), kwargs)
        if isinstance(f, (staticmethod,)):
            return self.call(f.__func__, args, kwargs)
        # --- a callable instance of a repository class: its __call__ is interpreted
        if not isinstance(f, (types.BuiltinFunctionType, types.MethodDescriptorType, types.ModuleType)):
            cm = _static_lookup(type(f), '__call__')
            if cm is not None and isinstance(cm[0], types.FunctionType) and _is_repo_function(cm[0]):
                return self.call_function_object(cm[0], [f] + list(args), kwargs, cm[1], bound_self=f)
        # --- builtins, method descriptors, other callables
        return self.call_native(f, list(args), kwargs)

    def call_assumed(self, f, args=(), kwargs=None):
        """Call a spec predicate whose result is going to be ASSUMED true (a precondition, an invariant at a
        loop head, a postcondition at a call site).  In its frame -- and in the frames of spec functions it
        calls in `return f(..) and g(..)` positions, whose results then must be true as well -- a statement
        `if c: return False` does not need a case split: the path on which c holds would be dropped by the
        assumption anyway, so `not c` is assumed on the spot."""
        return self._call_spec(f, args, kwargs or {}, True, None)

    def call_assumed_aligned(self, f, args=(), kwargs=None):
        """call_assumed for the first assumptions of a proof (the precondition of the function under
        verification): strings that the predicate cuts are aligned with the pieces they already have (by case
        split), as in code; everywhere else an assumed predicate just states facts."""
        return self._call_spec(f, args, kwargs or {}, 'aligned', None)

    def call_proving(self, f, args, name, meta, kwargs=None):
        """Call a spec predicate whose result is going to be PROVED (an obligation `name`).  In its frame (and
        in `return f(..) and g(..)` positions below it) a statement `if c: return False` becomes the obligation
        `not c` followed by the assumption `not c`, and a conjunction is proved conjunct by conjunct: the same
        proof, in smaller steps, without case splits."""
        return self._call_spec(f, args, kwargs or {}, False, (name, meta))

    def _call_spec(self, f, args, kwargs, assumed, proving):
        if assumed is True:
            self.assuming = getattr(self, 'assuming', 0) + 1
            try:
                return self._call_spec1(f, args, kwargs, True, proving)
            finally:
                self.assuming -= 1
        return self._call_spec1(f, args, kwargs, bool(assumed), proving)

    def _call_spec1(self, f, args, kwargs, assumed, proving):
        ab = getattr(self.reg, 'abstractions', {}).get(f) if isinstance(f, types.FunctionType) else None
        if ab is not None and ab[0](self):
            return ab[1](self, list(args), kwargs)
        if isinstance(f, Closure) and _is_spec_file(f.info.filename):
            return self.run_function(f.info, f.enclosing, f.defaults, f.kwdefaults, args, kwargs, f.defcls_hint,
                                     assumed=assumed, proving=proving)
        if isinstance(f, types.FunctionType) and _is_spec_file(f.__code__.co_filename) \
                and self.reg.contract_for(f) is None and self.reg.model_for(f) is None:
            info = funcinfo_of(f)
            enclosing = []
            if f.__closure__:
                enclosing = [dict(zip(f.__code__.co_freevars, [_cell(c) for c in f.__closure__]))]
            return self.run_function(info, enclosing, f.__defaults__ or (), f.__kwdefaults__, args, kwargs, None,
                                     assumed=assumed, proving=proving)
        return self.call(f, args, kwargs)

    def call_function_object(self, func, args, kwargs, defcls, bound_self=None):
        if not isinstance(func, types.FunctionType):
            # e.g. builtin method bound via BoundMethod
            return self.call_native(func, args, kwargs)
        ab = getattr(self.reg, 'abstractions', {}).get(func)
        if ab is not None and ab[0](self):
            return ab[1](self, list(args), kwargs)
        # contract?
        c = self.reg.contract_for(func)
        if c is not None and not (c.inline(self.fn_name) if callable(c.inline) else c.inline):
            # a contract stated in ANOTHER sidecar module speaks about arguments of its own shapes only:
            # for arguments of other shapes it says nothing and the real body is interpreted instead
            cur = getattr(self.reg, 'current_module', None)
            policy = getattr(cur, 'foreign_contracts', 'imports')
            owner_mod = getattr(c, 'module', None)
            if owner_mod is cur or cur is None or policy == 'apply' or \
                    (policy == 'imports' and getattr(owner_mod, 'prop', None) in getattr(cur, 'uses', ())) or \
                    (policy == 'imports' and getattr(owner_mod, 'prop', None) == getattr(cur, 'prop', None)) or \
                    (policy == 'fit' and self.reg.args_fit_contract(self, c, func, args, kwargs)):
                return self.reg.apply_contract(self, c, func, args, kwargs)
        m = self.reg.model_for(func)
        if m is not None:
            self.st.used_models.add(_qn(func))
            return m(self, args, kwargs)
        if getattr(func, '_pv_recursive', False):
            from . import models
            return models.call_recursive_spec(self, func, args, kwargs)
        code = func.__code__
        if is_interpretable_file(code.co_filename):
            return self.call_real_function(func, args, kwargs, defcls)
        if code.co_filename.endswith('contextlib.py') and hasattr(func, '__wrapped__'):
            gen = self.call_function_object(func.__wrapped__, args, kwargs, defcls)
            return CtxMgr(gen)
        return self.call_native(func, args, kwargs)

    def call_native(self, f, args, kwargs):
        from . import models
        m = self.reg.model_for(f)
        if m is None:
            m = models.lookup_model(f)
        if m is not None:
            self.st.used_models.add(_qn(f))
            return m(self, args, kwargs)
        if f is tuple.__new__ or f is object.__new__ or f is list.__new__ or f is dict.__new__:
            return self._native(f, [list(a) if isinstance(a, _GenIter) else a for a in args], kwargs)
        # native bound method of a container: data-structure operations do not inspect elements
        selfobj = getattr(f, '__self__', None)
        name = getattr(f, '__name__', None)
        if isinstance(selfobj, str) and (any(contains_sym(a) for a in args)):
            from . import strings
            return strings.call_method(self, SStr(z3.StringVal(selfobj)), name, args, kwargs)
        if name == '__init__' and isinstance(selfobj, BaseException) and type(f).__name__ == 'method-wrapper':
            # BaseException.__init__ only stores its arguments in .args
            return self._native(f, args, kwargs)
        if selfobj is not None and not isinstance(selfobj, types.ModuleType):
            if (type(selfobj), name) in _SAFE_NATIVE_METHODS:
                if type(selfobj) is dict and name == 'get' and args and isinstance(args[0], SStr) \
                        and all(isinstance(k, str) for k in selfobj.keys()):
                    # d.get(key[, default]) with a symbolic string in a dictionary with concrete string keys:
                    # the case split of d[key] (Interp.getitem), the default where no key is equal
                    try:
                        return self.getitem(selfobj, args[0])
                    except PyRaise as e:
                        if isinstance(e.exc, KeyError):
                            return args[1] if len(args) > 1 else None
                        raise
                if type(selfobj) is dict and name in ('get', 'pop', 'setdefault', '__contains__') and args \
                        and contains_sym(args[0], 0):
                    raise Unsupported('dict.%s with symbolic key' % name)
                return self._native(f, args, kwargs)
        if any(contains_sym(a) for a in args) or any(contains_sym(a) for a in kwargs.values()) or \
                (selfobj is not None and contains_sym(selfobj)):
            raise Unsupported('native call of %s with symbolic argument' % _qn(f))
        if any(isinstance(a, (Closure, BoundMethod, GenObj)) for a in args):
            raise Unsupported('native call of %s with interpreted callable' % _qn(f))
        self.st.stats.setdefault('native_calls', set()).add(_qn(f))
        return self._native(f, args, kwargs)

    def _native(self, f, args, kwargs):
        try:
            return f(*args, **kwargs)
        except (PathAbort, RetryPath, Unsupported, PyRaise):
            raise
        except Exception as e:
            raise PyRaise(e)

    def construct(self, cls, args, kwargs):
        from . import models
        m = self.reg.model_for(cls)
        if m is None:
            m = models.lookup_model(cls)
        if m is not None:
            self.st.used_models.add(_qn(cls))
            return m(self, args, kwargs)
        if issubclass(cls, enum.Enum) and len(args) == 1 and not kwargs and isinstance(args[0], SChoice):
            # Enum(value) for one of finitely many values: the member per alternative
            members = []
            for alt in args[0].alts:
                try:
                    members.append(cls(alt))
                except ValueError:
                    members = None
                    break
            if members is not None:
                return SChoice(args[0].idx, members)
            args = [self.resolve(args[0])]
        if issubclass(cls, enum.Enum) or not _is_repo_class(cls):
            if issubclass(cls, BaseException) and not _is_repo_class(cls):
                try:
                    return cls(*args, **kwargs)
                except Exception as e:
                    raise PyRaise(e)
            return self.call_native(cls, args, kwargs)
        # a class of the repository: interpret __new__ / __init__
        new = _static_lookup(cls, '__new__')
        if new is not None and isinstance(new[0], staticmethod) and _is_repo_function(new[0].__func__):
            obj = self.call_function_object(new[0].__func__, [cls] + args, kwargs, new[1])
        elif isinstance(new[0], types.FunctionType) and _is_repo_function(new[0]):
            obj = self.call_function_object(new[0], [cls] + args, kwargs, new[1])
        else:
            if getattr(cls, '__abstractmethods__', None):
                raise PyRaise(TypeError("Can't instantiate abstract class %s" % cls.__name__))
            if issubclass(cls, BaseException):
                obj = cls.__new__(cls)
                if _static_lookup(cls, '__init__')[0] is BaseException.__init__ or \
                        not _is_repo_function(_static_lookup(cls, '__init__')[0]):
                    obj.args = tuple(args)
            elif issubclass(cls, tuple):
                obj = tuple.__new__(cls, *args)
            else:
                from .api import _bare_instance
                obj = _bare_instance(cls)
        self.note_new_object(obj)
        if isinstance(obj, cls):
            init = _static_lookup(cls, '__init__')
            if init is not None and isinstance(init[0], types.FunctionType) and _is_repo_function(init[0]):
                self.call_function_object(init[0], [obj] + args, kwargs, init[1])
        return obj

    # ======================================================================= attributes
    def getattr(self, obj, name):
        if isinstance(obj, SList) and name in ('src', 'pos_of', 'source', 'perm', 'inv'):
            from .gens import YSeq
            from .seqs import FilteredSList, SortedSList
            if isinstance(obj, (FilteredSList, SortedSList)) and name == 'source':
                return obj.source
            if isinstance(obj, SortedSList) and name in ('perm', 'inv'):
                fn = obj.perm_fn if name == 'perm' else obj.inv_fn
                return EngineFn(lambda k, fn=fn: wrap(fn(to_z3(k))))
            if isinstance(obj, (YSeq, FilteredSList)) and name in ('src', 'pos_of'):
                if isinstance(obj, YSeq) and getattr(obj, 'no_maps', False):
                    raise Unsupported('ghost maps src / pos_of of a generator that yields more than once per '
                                      'iteration of a symbolic loop, or at two levels of nested loops')
                fn = obj.src_fn if name == 'src' else obj.pos_fn
                return EngineFn(lambda k, fn=fn: wrap(fn(to_z3(k))))
        if isinstance(obj, Sym):
            if isinstance(obj, SChoice) and all(isinstance(a, enum.Enum) for a in obj.alts) \
                    and name in ('name', 'value', '_name_', '_value_'):
                # plain data attribute of one of finitely many enum members: no case split needed
                return SChoice(obj.idx, [getattr(a, name) for a in obj.alts])
            if isinstance(obj, (SOpt, SChoice)):
                return self.getattr(self.resolve(obj), name)
            return SymMethod(obj, name)
        if isinstance(obj, Opaque):
            return self.reg.opaque_getattr(self, obj, name)
        from . import models as _models
        if isinstance(obj, _models.SIter):
            if name == 'pos':
                return wrap(to_z3(obj.pos)) if not isinstance(obj.pos, int) else obj.pos
            if name == 'xs':
                return obj.xs
        if isinstance(obj, (_models.SMap, _models.SIter, _models.SMapProxy)):
            return SymMethod(obj, name)

        if isinstance(obj, SuperProxy):
            mro = type(obj.obj).__mro__ if not isinstance(obj.obj, type) else obj.obj.__mro__
            i = mro.index(obj.cls)
            for k in mro[i + 1:]:
                if name in k.__dict__:
                    return self._bind(k.__dict__[name], obj.obj, k, name)
            raise PyRaise(AttributeError(name))
        if isinstance(obj, (GenObj, CtxMgr, Closure, BoundMethod)):
            if isinstance(obj, GenObj) and name in ('send', 'throw', 'close', '__next__'):
                return SymMethod(obj, name)
            if isinstance(obj, (Closure, BoundMethod)) and name in ('__name__', '__qualname__'):
                return getattr(obj, name, getattr(getattr(obj, 'func', None), name, '?'))
            if isinstance(obj, BoundMethod) and name == '__self__':
                return obj.self_
            if isinstance(obj, BoundMethod) and name == '__func__':
                return obj.func
            raise Unsupported('attribute %s of %r' % (name, obj))
        if isinstance(obj, type):
            for k in obj.__mro__:
                if name in k.__dict__:
                    v = k.__dict__[name]
                    if isinstance(v, staticmethod):
                        return v.__func__
                    if isinstance(v, classmethod):
                        return BoundMethod(v.__func__, obj, k)
                    if isinstance(v, types.FunctionType):
                        return v
                    break
            return self._native_getattr(obj, name)
        if isinstance(obj, (types.ModuleType,)):
            return self._native_getattr(obj, name)
        cls = type(obj)
        found = None
        for k in cls.__mro__:
            if name in k.__dict__:
                found = (k.__dict__[name], k)
                break
        if found is not None:
            v, k = found
            if isinstance(v, property):
                if v.fget is None:
                    raise PyRaise(AttributeError(name))
                return self.call_function_object(v.fget, [obj], {}, k)
            d = getattr(obj, '__dict__', None)
            if d is not None and name in d and not hasattr(type(v), '__set__'):
                return d[name]
            return self._bind(v, obj, k, name)
        d = getattr(obj, '__dict__', None)
        if d is not None and name in d:
            return d[name]
        ga = _static_lookup(cls, '__getattr__')
        if ga is not None and isinstance(ga[0], types.FunctionType) and _is_repo_function(ga[0]):
            return self.call_function_object(ga[0], [obj, name], {}, ga[1])
        return self._native_getattr(obj, name)

    def _bind(self, v, obj, k, name):
        if isinstance(v, types.FunctionType):
            return BoundMethod(v, obj, k)
        if isinstance(v, staticmethod):
            return v.__func__
        if isinstance(v, classmethod):
            return BoundMethod(v.__func__, type(obj) if not isinstance(obj, type) else obj, k)
        if isinstance(v, property):
            return self.call_function_object(v.fget, [obj], {}, k)
        if hasattr(type(v), '__get__') and not isinstance(obj, type):
            # a native descriptor found in class k (e.g. Exception.__init__ reached through super()):
            # bind THAT descriptor -- getattr(obj, name) would start again at the most derived class
            try:
                return v.__get__(obj, type(obj))
            except Exception as e:
                raise PyRaise(e)
        return self._native_getattr(obj, name)

    def _native_getattr(self, obj, name):
        try:
            return getattr(obj, name)
        except Exception as e:
            raise PyRaise(e)

    def note_new_object(self, obj):
        for e in self.loop_frame_stack:
            e['born'].add(id(obj))

    def note_container_write(self, obj):
        """the contents of a container object (a dictionary over a key universe, ...) are changed: inside the
        arbitrary iteration of a loop with invariant the container must have been havocked at the loop head
        (declared in `modifies` with an in-place entry) or be new"""
        for e in self.loop_frame_stack:
            if id(obj) not in e['born'] and (id(obj), '<contents>') not in e['declared'] \
                    and (id(obj), '*') not in e['declared']:
                raise Unsupported('%s: the loop body changes the contents of a %s that is not declared in modifies'
                                  % (e['loop'], type(obj).__name__))

    def setattr(self, obj, name, value):
        if isinstance(obj, (SOpt, SChoice)):
            obj = self.resolve(obj)
        for e in self.loop_frame_stack:
            # the arbitrary iteration of a loop with invariant: a store to a field of an object that existed
            # before the iteration must be declared in the loop's `modifies` (it was havocked at the loop head)
            if id(obj) not in e['born'] and (id(obj), name) not in e['declared'] \
                    and (id(obj), '*') not in e['declared'] and not isinstance(obj, type):
                raise Unsupported('%s: the loop body stores to field %r of a %s that is not declared in modifies '
                                  '(declare it as \'<local>.<attr>...\')' % (e['loop'], name, type(obj).__name__))
        if isinstance(obj, Opaque):
            return self.reg.opaque_setattr(self, obj, name, value)
        if isinstance(obj, Sym):
            raise PyRaise(AttributeError(name))
        cls = type(obj)
        for k in cls.__mro__:
            if name in k.__dict__:
                v = k.__dict__[name]
                if isinstance(v, property):
                    if v.fset is None:
                        raise PyRaise(AttributeError("can't set attribute '%s'" % name))
                    self.call_function_object(v.fset, [obj, value], {}, k)
                    return
                break
        try:
            object.__setattr__(obj, name, value) if not isinstance(obj, type) else setattr(obj, name, value)
        except Exception as e:
            raise PyRaise(e)

    # ======================================================================= symbolic helpers
    def resolve(self, v):
        """Turn SOpt / SChoice into a definite value by case split (consistent with the path)."""
        st = self.st
        while True:
            if isinstance(v, SOpt):
                if st.fork(v.is_none):
                    return None
                v = v.val
                continue
            if isinstance(v, SChoice):
                conds = [v.idx == i for i in range(len(v.alts))]
                i = st.choose(len(v.alts), conds)
                v = v.alts[i]
                continue
            return v

    def truth(self, v):
        """bool or SBool."""
        if isinstance(v, bool):
            return v
        if isinstance(v, SBool):
            return v
        if v is None:
            return False
        if isinstance(v, SInt):
            return wrap(v.t != 0)
        if isinstance(v, SStr):
            return wrap(z3.Length(v.t) > 0)
        if isinstance(v, SOpt):
            inner = v.val
            if isinstance(inner, (Sym, int, str, list, tuple, dict)) and not isinstance(inner, (SInt, SStr, SBool)):
                return self.truth(self.resolve(v))
            if isinstance(inner, (SInt, SStr, SBool, int, str, bool)):
                ti = self.truth(inner)
                return wrap(z3.And(z3.Not(v.is_none), to_z3(ti)))
            # objects are truthy unless they define __bool__/__len__
            if not isinstance(inner, (Opaque,)) and (_static_lookup(type(inner), '__bool__')
                                                     or _static_lookup(type(inner), '__len__')):
                return self.truth(self.resolve(v))
            return wrap(z3.Not(v.is_none))
        if isinstance(v, SChoice):
            return self.truth(self.resolve(v))
        if isinstance(v, SList):
            return wrap(v.length > 0)
        from . import models as _m
        if isinstance(v, _m.SMap):
            return wrap(z3.Not(v.has == z3.K(v.ksort, z3.BoolVal(False))))
        if isinstance(v, (int, str, list, tuple, dict, set, frozenset, float, bytes)):
            return bool(v)
        if isinstance(v, Opaque):
            return self.reg.opaque_truth(self, v)
        if isinstance(v, (Closure, BoundMethod, GenObj, OpaqueVal)):
            return True
        cls = type(v)
        b = _static_lookup(cls, '__bool__')
        if b is not None and isinstance(b[0], types.FunctionType) and _is_repo_function(b[0]):
            return self.truth(self.call_function_object(b[0], [v], {}, b[1]))
        ln = _static_lookup(cls, '__len__')
        if ln is not None and isinstance(ln[0], types.FunctionType) and _is_repo_function(ln[0]):
            n = self.call_function_object(ln[0], [v], {}, ln[1])
            return self.truth(n)
        try:
            return bool(v)
        except Exception as e:
            raise PyRaise(e)

    def branch(self, v):
        return self.st.fork(self.truth(v))

    # ======================================================================= operators
    def binop(self, opcls, a, b):
        if isinstance(a, (SOpt, SChoice)):
            a = self.resolve(a)
        if isinstance(b, (SOpt, SChoice)):
            b = self.resolve(b)
        if isinstance(a, Opaque) or isinstance(b, Opaque):
            # operator on an object known through an interface: the interface's __op__ / __rop__ method
            r = self._opaque_binop(opcls, a, b)
            if r is not NotImplemented:
                return r
        if isinstance(a, SBool):
            a = SInt(z3.If(a.t, 1, 0))
        if isinstance(b, SBool):
            b = SInt(z3.If(b.t, 1, 0))
        if isinstance(a, Opaque) or isinstance(b, Opaque):
            # an operator of an opaque object: the interface's method, when it describes one
            dunder = {ast.Add: 'add', ast.Sub: 'sub', ast.Mult: 'mul', ast.Mod: 'mod', ast.Div: 'truediv',
                      ast.FloorDiv: 'floordiv', ast.BitOr: 'or', ast.BitAnd: 'and'}.get(opcls)
            if dunder and isinstance(a, Opaque) and self.reg.opaque_has(self, a, '__%s__' % dunder):
                return self.reg.call_opaque(self, a, '__%s__' % dunder, [b], {})
            if dunder and isinstance(b, Opaque) and self.reg.opaque_has(self, b, '__r%s__' % dunder):
                return self.reg.call_opaque(self, b, '__r%s__' % dunder, [a], {})
            raise Unsupported('binary operator on opaque object')
        sa, sb = isinstance(a, Sym), isinstance(b, Sym)
        if (sa or sb) and not (isinstance(a, Opaque) or isinstance(b, Opaque)):
            # a user-defined operator of a repository / model class with a symbolic operand (p / name)
            r = self._user_binop(opcls, a, b)
            if r is not NotImplemented:
                return r
        if not sa and not sb:
            if opcls is ast.Mod and isinstance(a, str) and contains_sym(b):
                return SStr(self.st.fresh_str('fmt'))
            if opcls is ast.Add and isinstance(a, (list, tuple)) and type(a) is type(b):
                return a + b
            r = self._user_binop(opcls, a, b)
            if r is not NotImplemented:
                return r
            try:
                return _BINOPS[opcls](a, b)
            except Exception as e:
                raise PyRaise(e)
        from . import models
        if isinstance(a, (SInt, int)) and isinstance(b, (SInt, int)) and not isinstance(a, bool) | False:
            x, y = to_z3(a if not isinstance(a, bool) else int(a)), to_z3(b if not isinstance(b, bool) else int(b))
            if opcls is ast.Add:
                return wrap(x + y)
            if opcls is ast.Sub:
                return wrap(x - y)
            if opcls is ast.Mult:
                return wrap(x * y)
            if opcls in (ast.FloorDiv, ast.Mod):
                if self.branch(wrap(y == 0)):
                    raise PyRaise(ZeroDivisionError('integer division or modulo by zero'))
                # python floor semantics
                q = z3.If(y > 0, x / y, (-x) / (-y))
                if opcls is ast.FloorDiv:
                    return wrap(q)
                return wrap(x - y * q)
            raise Unsupported('integer operator %s on symbolic value' % opcls.__name__)
        if isinstance(a, (SStr, str)) and isinstance(b, (SStr, str)) and opcls is ast.Add:
            from . import strings
            return strings.concat(self, a, b)
        if isinstance(a, (SStr, str)) and opcls is ast.Mod:
            return SStr(self.st.fresh_str('fmt'))
        if isinstance(a, SList) or isinstance(b, SList):
            return models.slist_binop(self, opcls, a, b)
        if isinstance(a, (SStr, str)) and isinstance(b, (SInt, int)) and opcls is ast.Mult:
            raise Unsupported('string repetition with symbolic operand')
        if opcls is ast.Add and (isinstance(a, (SStr, str)) != isinstance(b, (SStr, str))):
            raise PyRaise(TypeError('unsupported operand types for +'))
        raise Unsupported('binary operator %s on %r, %r' % (opcls.__name__, type(a).__name__, type(b).__name__))

    _OPAQUE_DUNDER = {ast.Add: 'add', ast.Sub: 'sub', ast.Mult: 'mul', ast.Div: 'truediv', ast.FloorDiv: 'floordiv',
                      ast.Mod: 'mod', ast.BitOr: 'or', ast.BitAnd: 'and', ast.BitXor: 'xor', ast.Pow: 'pow',
                      ast.LShift: 'lshift', ast.RShift: 'rshift', ast.MatMult: 'matmul'}

    def _opaque_binop(self, opcls, a, b):
        nm = self._OPAQUE_DUNDER.get(opcls)
        if nm is None:
            return NotImplemented
        if isinstance(a, Opaque) and self.reg.opaque_has(self, a, '__%s__' % nm):
            return self.reg.call_opaque(self, a, '__%s__' % nm, [b], {})
        if isinstance(b, Opaque) and self.reg.opaque_has(self, b, '__r%s__' % nm):
            return self.reg.call_opaque(self, b, '__r%s__' % nm, [a], {})
        return NotImplemented

    def _user_binop(self, opcls, a, b):
        names = _DUNDER.get(opcls)
        if names is None:
            return NotImplemented
        plain = (int, str, list, tuple, dict, float, type(None), Sym)
        if not isinstance(a, plain):
            m = _static_lookup(type(a), names[0])
            if m is not None and isinstance(m[0], types.FunctionType) and _is_repo_function(m[0]):
                r = self.call_function_object(m[0], [a, b], {}, m[1])
                if r is not NotImplemented:
                    return r
        if not isinstance(b, plain):
            # reflected operator of the right operand ('name' / path)
            m = _static_lookup(type(b), names[1])
            if m is not None and isinstance(m[0], types.FunctionType) and _is_repo_function(m[0]):
                return self.call_function_object(m[0], [b, a], {}, m[1])
        return NotImplemented

    def eq(self, a, b):
        """Python ``==`` ; returns bool or SBool."""
        if a is b and not isinstance(a, float):
            return True
        if isinstance(a, (SOpt, SChoice)) or isinstance(b, (SOpt, SChoice)):
            if isinstance(a, SChoice) and isinstance(b, SChoice):
                # two selections among concrete alternatives: a term over the two indices, no case split
                pairs = []
                for i, x in enumerate(a.alts):
                    for j, y in enumerate(b.alts):
                        r = self.eq(x, y) if not (isinstance(x, Sym) or isinstance(y, Sym)) else None
                        if r is None or not isinstance(r, bool):
                            pairs = None
                            break
                        if r:
                            pairs.append(z3.And(a.idx == i, b.idx == j))
                    if pairs is None:
                        break
                if pairs is not None:
                    return wrap(z3.Or(*pairs)) if pairs else False
            if isinstance(a, SOpt) and b is None:
                return wrap(a.is_none)
            if isinstance(b, SOpt) and a is None:
                return wrap(b.is_none)
            if isinstance(a, SChoice) and not isinstance(b, Sym):
                return wrap(z3.Or(*[a.idx == i for i, alt in enumerate(a.alts) if self.eq(alt, b) is True])
                            if all(isinstance(self.eq(alt, b), bool) for alt in a.alts) else self._eq_resolved(a, b))
            if isinstance(b, SChoice) and not isinstance(a, Sym):
                return self.eq(b, a)
            if isinstance(a, SChoice) and isinstance(b, SChoice) and \
                    all(isinstance(x, enum.Enum) for x in a.alts + b.alts):
                hits = [z3.And(a.idx == i, b.idx == k) for i, x in enumerate(a.alts)
                        for k, y in enumerate(b.alts) if x == y]
                return wrap(z3.Or(*hits)) if hits else False
            return self._eq_resolved(a, b)
        from . import models as _m
        if isinstance(a, _m.SMapProxy):
            a = a.m
        if isinstance(b, _m.SMapProxy):
            b = b.m
        if isinstance(a, _m.SMap):
            return a.eq(self, b)
        if isinstance(b, _m.SMap):
            return b.eq(self, a)
        sa, sb = isinstance(a, Sym), isinstance(b, Sym)
        if sa or sb:
            if isinstance(a, SList) or isinstance(b, SList):
                from . import models
                return models.slist_eq(self, a, b)
            ka, kb = _kind(a), _kind(b)
            if ka is None or kb is None or ka != kb:
                if {ka, kb} == {'int', 'bool'}:
                    ta = to_z3(a) if ka == 'int' else z3.If(to_z3(a), 1, 0)
                    tb = to_z3(b) if kb == 'int' else z3.If(to_z3(b), 1, 0)
                    return wrap(ta == tb)
                return False
            if ka == 'str':
                from . import strings
                return wrap(strings.norm(self, to_z3(a)) == strings.norm(self, to_z3(b)))
            return wrap(to_z3(a) == to_z3(b))
        if isinstance(a, (tuple, list)) and type(a) is type(b) and (contains_sym(a, 3) or contains_sym(b, 3)):
            if len(a) != len(b):
                return False
            parts = [self.eq(x, y) for x, y in zip(a, b)]
            if any(p is False for p in parts):
                return False
            ts = [to_z3(p) for p in parts if p is not True]
            return wrap(z3.And(*ts)) if ts else True
        if isinstance(a, (Opaque, OpaqueVal)) or isinstance(b, (Opaque, OpaqueVal)):
            if isinstance(a, Opaque):
                r = self.reg.opaque_eq(self, a, b)
                if r is not NotImplemented:
                    return r
            return self.is_(a, b)
        if not isinstance(a, (int, str, float, bytes, type(None), tuple, list, dict, set, frozenset, enum.Enum, type)):
            m = _static_lookup(type(a), '__eq__')
            if m is not None and isinstance(m[0], types.FunctionType) and _is_repo_function(m[0]):
                r = self.call_function_object(m[0], [a, b], {}, m[1])
                if r is not NotImplemented:
                    return self.truth(r)
        if isinstance(a, (Closure, BoundMethod)) or isinstance(b, (Closure, BoundMethod)):
            return a == b
        try:
            return bool(a == b)
        except Exception as e:
            raise PyRaise(e)

    def _eq_resolved(self, a, b):
        return self.eq(self.resolve(a), self.resolve(b))

    def compare(self, opcls, a, b):
        if opcls is ast.Is or opcls is ast.IsNot:
            r = self.is_(a, b)
            if opcls is ast.IsNot:
                r = self.not_(r)
            return r
        if opcls is ast.Eq:
            return self.eq(a, b)
        if opcls is ast.NotEq:
            return self.not_(self.eq(a, b))
        if opcls is ast.In:
            return self.contains(b, a)
        if opcls is ast.NotIn:
            return self.not_(self.contains(b, a))
        # ordering
        if isinstance(a, (SOpt, SChoice)):
            a = self.resolve(a)
        if isinstance(b, (SOpt, SChoice)):
            b = self.resolve(b)
        if isinstance(a, Sym) or isinstance(b, Sym):
            ka, kb = _kind(a), _kind(b)
            if ka == 'bool':
                a, ka = wrap(z3.If(to_z3(a), 1, 0)), 'int'
            if kb == 'bool':
                b, kb = wrap(z3.If(to_z3(b), 1, 0)), 'int'
            if ka == 'int' and kb == 'int':
                x, y = to_z3(a), to_z3(b)
                return wrap({ast.Lt: x < y, ast.LtE: x <= y, ast.Gt: x > y, ast.GtE: x >= y}[opcls])
            if ka == 'str' and kb == 'str':
                x, y = to_z3(a), to_z3(b)
                return wrap({ast.Lt: x < y, ast.LtE: x <= y, ast.Gt: y < x, ast.GtE: y <= x}[opcls])
            if a is None or b is None or ka != kb:
                raise PyRaise(TypeError('ordering comparison not supported between these types'))
            raise Unsupported('ordering comparison on %s' % ka)
        if isinstance(a, Opaque) and isinstance(b, Opaque) and getattr(a._pv_iface, 'sort_key', None) \
                and getattr(b._pv_iface, 'sort_key', None):
            return self.compare(opcls, self.getattr(a, a._pv_iface.sort_key), self.getattr(b, b._pv_iface.sort_key))
        if isinstance(a, Opaque) or isinstance(b, Opaque):
            raise Unsupported('ordering on opaque')
        try:
            return bool(_CMPOPS[opcls](a, b))
        except Exception as e:
            raise PyRaise(e)

    def is_(self, a, b):
        if a is b and isinstance(a, Sym):
            return True       # the very same symbolic value
        if isinstance(a, SOpt):
            if b is None:
                return wrap(a.is_none)
            return self.is_(self.resolve(a), b)
        if isinstance(b, SOpt):
            return self.is_(b, a)
        if isinstance(a, SChoice):
            if isinstance(b, SChoice):
                # identical iff both select the same object: no case split needed
                hits = [z3.And(a.idx == i, b.idx == j) for i, x in enumerate(a.alts) for j, y in enumerate(b.alts)
                        if x is y]
                if not hits:
                    return False
                return wrap(z3.Or(*hits) if len(hits) > 1 else hits[0])
            hits = [a.idx == i for i, alt in enumerate(a.alts) if alt is b]
            if not hits:
                return False
            return wrap(z3.Or(*hits) if len(hits) > 1 else hits[0])
        if isinstance(b, SChoice):
            return self.is_(b, a)
        if isinstance(a, SBool) or isinstance(b, SBool):
            if isinstance(a, (SBool, bool)) and isinstance(b, (SBool, bool)):
                return wrap(to_z3(a) == to_z3(b))
            return False
        if isinstance(a, (SInt, SStr)) or isinstance(b, (SInt, SStr)):
            if b is None or a is None:
                return False
            if _kind(a) != _kind(b):
                return False
            raise Unsupported("'is' on symbolic int/str")
        if isinstance(a, Opaque) and isinstance(b, Opaque) and a is not b:
            from .api import same_object
            r = same_object(a, b)
            if r is not None:
                return r
        if a is not b and isinstance(a, Opaque) and isinstance(b, Opaque) and a._pv_uid == b._pv_uid \
                and a._pv_index and len(a._pv_index) == len(b._pv_index) \
                and all(x.sort() == y.sort() for x, y in zip(a._pv_index, b._pv_index)):
            # two views of the elements of one symbolic family (list elements, results of a pure method):
            # the same object iff the indices are equal (distinct indices: distinct objects, DESIGN 2.5)
            return wrap(z3.And(*[x == y for x, y in zip(a._pv_index, b._pv_index)]))
        return a is b

    def not_(self, v):
        t = self.truth(v)
        if isinstance(t, bool):
            return not t
        return wrap(z3.Not(t.t))

    def contains(self, container, x):
        if isinstance(container, (SOpt, SChoice)):
            container = self.resolve(container)
        from .pdict import PDict
        if isinstance(container, PDict):
            return container.contains(self, x)
        if isinstance(container, (SStr, str)) and isinstance(x, (SStr, str)) and \
                (isinstance(container, SStr) or isinstance(x, SStr)):
            from . import strings, charclass
            if strings.aligning(self) and isinstance(x, str) and len(x) == 1 and isinstance(container, SStr):
                # (with alignment: membership of a single character through the additive counting measure)
                return wrap(strings.count_term(self, container.t, x) > 0)
            if isinstance(x, str) and isinstance(container, SStr):
                charclass.contains_link_pattern(self, container.t, z3.StringVal(x))
            return wrap(z3.Contains(strings.norm(self, to_z3(container)), strings.norm(self, to_z3(x))))
        if isinstance(container, SList):
            from . import models
            return models.slist_contains(self, container, x)
        from . import models as _m
        if isinstance(container, _m.SMap):
            return container.contains(self, x)
        if isinstance(container, (_m.SMapKeys, _m.SMapProxy)):
            return container.m.contains(self, x)
        if isinstance(container, (list, tuple, set, frozenset)) or isinstance(container, (dict,)) or \
                type(container).__name__ in ('dict_keys', 'dict_values', 'mappingproxy'):
            if not contains_sym(x, 0) and not contains_sym(container, 1) and not isinstance(x, (tuple, list)):
                try:
                    return x in container
                except Exception as e:
                    raise PyRaise(e)
            items = list(container.keys()) if isinstance(container, dict) or \
                type(container).__name__ == 'mappingproxy' else list(container)
            if isinstance(x, SChoice) and not contains_sym(items, 1):
                hits = [x.idx == i for i, alt in enumerate(x.alts) if any(self.eq(alt, e) is True for e in items)]
                return wrap(z3.Or(*hits)) if hits else False
            parts = [self.eq(e, x) for e in items]
            if any(p is True for p in parts):
                return True
            ts = [to_z3(p) for p in parts if p is not False]
            return wrap(z3.Or(*ts)) if ts else False
        if isinstance(container, Opaque):
            return self.reg.call_opaque(self, container, '__contains__', [x], {})
        m = _static_lookup(type(container), '__contains__')
        if m is not None and isinstance(m[0], types.FunctionType) and _is_repo_function(m[0]):
            return self.truth(self.call_function_object(m[0], [container, x], {}, m[1]))
        if contains_sym(x, 0):
            raise Unsupported("'in' with symbolic element on %s" % type(container).__name__)
        try:
            return x in container
        except Exception as e:
            raise PyRaise(e)

    # ======================================================================= iteration
    def iterate(self, v):
        """Python iterator over the (possibly symbolic) values of iterable ``v``.
        Only for concretely bounded iterables; SList loops are handled by the loop rule."""
        if isinstance(v, (SOpt, SChoice)):
            v = self.resolve(v)
        if isinstance(v, (list, tuple, set, frozenset, dict, str, range)) or \
                type(v).__name__ in ('dict_keys', 'dict_values', 'dict_items', 'list_iterator', 'tuple_iterator',
                                     'enumerate', 'zip', 'map', 'filter', 'reversed', 'list_reverseiterator',
                                     'generator', 'chain', 'deque', 'mappingproxy', 'islice', 'range_iterator',
                                     'dict_keyiterator', 'dict_valueiterator', 'dict_itemiterator', 'set_iterator'):
            return iter(v)
        if isinstance(v, GenObj):
            return _GenIter(v)
        if isinstance(v, _GenIter) or isinstance(v, _PyIter):
            return v
        if isinstance(v, SList):
            from . import models
            return models.slist_iter(self, v)
        if isinstance(v, Opaque):
            return self.reg.opaque_iter(self, v)
        if isinstance(v, type) and issubclass(v, enum.Enum):
            return iter(v)
        it = _static_lookup(type(v), '__iter__')
        if it is not None and isinstance(it[0], types.FunctionType) and _is_repo_function(it[0]):
            return self.iterate(self.call_function_object(it[0], [v], {}, it[1]))
        gi = _static_lookup(type(v), '__getitem__')
        if gi is not None and isinstance(gi[0], types.FunctionType) and _is_repo_function(gi[0]):
            raise Unsupported('iteration via __getitem__')
        if isinstance(v, Sym):
            raise Unsupported('iteration over %r' % (v,))
        if type(v).__module__.startswith('pyvc.'):
            # a value of the engine that has no concrete iteration here: a limit of the verifier, never an
            # exception of the interpreted program
            raise Unsupported('iteration over an engine value of type %s' % type(v).__name__)
        try:
            return iter(v)
        except Exception as e:
            raise PyRaise(e)

    # ======================================================================= expressions
    def eval(self, node, frame):
        m = getattr(self, 'e_' + type(node).__name__, None)
        if m is None:
            raise Unsupported('expression %s' % type(node).__name__)
        return m(node, frame)

    def e_Constant(self, node, frame):
        return node.value

    def e_Name(self, node, frame):
        return self.lookup(self.mangle(node.id, frame.info.class_name), frame)

    def e_Attribute(self, node, frame):
        obj = self.eval(node.value, frame)
        return self.getattr(obj, self.mangle(node.attr, frame.info.class_name))

    def e_BinOp(self, node, frame):
        a = self.eval(node.left, frame)
        b = self.eval(node.right, frame)
        return self.binop(type(node.op), a, b)

    def e_UnaryOp(self, node, frame):
        v = self.eval(node.operand, frame)
        if isinstance(node.op, ast.Not):
            return self.not_(v)
        if isinstance(v, (SOpt, SChoice)):
            v = self.resolve(v)
        if isinstance(node.op, ast.USub):
            if isinstance(v, SInt):
                return wrap(-v.t)
            try:
                return -v
            except Exception as e:
                raise PyRaise(e)
        if isinstance(node.op, ast.UAdd):
            return v
        raise Unsupported('unary %s' % type(node.op).__name__)

    def e_BoolOp(self, node, frame):
        is_and = isinstance(node.op, ast.And)
        if is_and and frame.assumed and id(node) in _assumed_positions(frame.info):
            # a conjunction whose truth is about to be assumed: assume the conjuncts one after the other
            # (each is then a plain fact of the context for the next ones, not a temporary hypothesis)
            for v in node.values:
                self.st.assume(self.truth(self.eval(v, frame)))
            return True
        if is_and and frame.proving is not None and id(node) in _assumed_positions(frame.info):
            for v in node.values:
                t = self.truth(self.eval(v, frame))
                self.st.oblige(frame.proving[0], t, dict(frame.proving[1], step='conjunct at line %d' % v.lineno))
                self.st.proof_step(t)
            return True
        vals = node.values
        return self._boolop(is_and, vals, 0, frame)

    def _boolop(self, is_and, vals, i, frame):
        v = self.eval(vals[i], frame)
        if i == len(vals) - 1:
            return v
        t = self.truth(v)
        if isinstance(t, bool):
            if t == is_and:
                return self._boolop(is_and, vals, i + 1, frame)
            return v
        st = self.st
        # definitely decided under the path condition?
        ent = st.entailed_site(t.t)
        if ent == 'T':
            return self._boolop(is_and, vals, i + 1, frame) if is_and else v
        if ent == 'N':
            return v if is_and else self._boolop(is_and, vals, i + 1, frame)
        # the left value is used as a boolean only when it is an SBool (else fork for the value)
        if isinstance(v, SBool) and st.merge_site():
            site = len(st.decisions) - 1
            cont = t.t if is_and else z3.Not(t.t)
            with st.scope(cont, site):
                rest = self._boolop(is_and, vals, i + 1, frame)
                rt = self.truth(rest) if not isinstance(rest, (bool, SBool)) else rest
                if not isinstance(rest, (bool, SBool)):
                    # value (not truth) needed: cannot merge
                    raise RetryPath(st.decisions[:site] + ['F'])
            r = z3.And(t.t, to_z3(rt)) if is_and else z3.Or(t.t, to_z3(rt))
            return wrap(r)
        if st.fork(t):
            return self._boolop(is_and, vals, i + 1, frame) if is_and else v
        return v if is_and else self._boolop(is_and, vals, i + 1, frame)

    def e_Compare(self, node, frame):
        left = self.eval(node.left, frame)
        result = True
        acc = []
        for op, rn in zip(node.ops, node.comparators):
            if acc:
                # chained comparison: short-circuit on symbolic result by forking
                if not self.st.fork(self.truth(acc[-1])):
                    return False
            right = self.eval(rn, frame)
            r = self.compare(type(op), left, right)
            acc.append(r)
            left = right
        return acc[-1]

    def e_IfExp(self, node, frame):
        c = self.eval(node.test, frame)
        if self.st.no_fork:
            # inside a quantifier body a case split is not possible: a conditional expression with scalar
            # branches becomes an if-then-else term (each branch evaluated under its condition)
            t = self.truth(c)
            if not isinstance(t, bool):
                with self.st.scope(t.t):
                    a = self.eval(node.body, frame)
                with self.st.scope(z3.Not(t.t)):
                    b = self.eval(node.orelse, frame)
                ka, kb = _kind(a), _kind(b)
                if ka is not None and ka == kb and ka != 'none':
                    return wrap(z3.If(t.t, to_z3(a), to_z3(b)))
                raise Unsupported('conditional expression with non-scalar branches inside a quantifier body')
        if self.branch(c):
            return self.eval(node.body, frame)
        return self.eval(node.orelse, frame)

    def e_Lambda(self, node, frame):
        return self._make_closure(node, frame, '<lambda>')

    def _make_closure(self, node, frame, name):
        if not hasattr(node, '_pv_info'):
            node._pv_info = {}
        key = id(frame.info.globals)
        info = node._pv_info.get(key)
        if info is None:
            info = FuncInfo(node, frame.info.globals, frame.info.class_name,
                            getattr(node, '_pv_qualname', frame.info.qualname + '.<locals>.' + name),
                            frame.info.filename)
            node._pv_info[key] = info
        defaults = [self.eval(d, frame) for d in node.args.defaults]
        kwdefaults = {a.arg: self.eval(d, frame) for a, d in zip(node.args.kwonlyargs, node.args.kw_defaults)
                      if d is not None}
        return Closure(info, frame.enclosing + [frame.locals], defaults, kwdefaults, name, frame.defcls)

    def e_List(self, node, frame):
        return list(self._elts(node.elts, frame))

    def e_Tuple(self, node, frame):
        return tuple(self._elts(node.elts, frame))

    def e_Set(self, node, frame):
        vals = self._elts(node.elts, frame)
        if contains_sym(vals, 1):
            raise Unsupported('set display with symbolic element')
        return set(vals)

    def _elts(self, elts, frame):
        out = []
        for e in elts:
            if isinstance(e, ast.Starred):
                out.extend(self.iterate(self.eval(e.value, frame)))
            else:
                out.append(self.eval(e, frame))
        return out

    def e_Dict(self, node, frame):
        d = {}
        for k, v in zip(node.keys, node.values):
            if k is None:
                src = self.eval(v, frame)
                if isinstance(src, (SOpt, SChoice)):
                    src = self.resolve(src)
                if not isinstance(src, dict) and type(src).__name__ != 'mappingproxy':
                    raise Unsupported('dict unpacking of %r' % type(src).__name__)
                d.update(src)
            else:
                kk = self.eval(k, frame)
                if isinstance(kk, SChoice):
                    kk = self.resolve(kk)
                if contains_sym(kk, 0):
                    # a symbolic key: the dict becomes a symbolic map (values not tracked)
                    from . import models
                    if not isinstance(d, models.SMap):
                        from .api import Str as _StrTy, Int as _IntTy
                        kv = models.SMap._key_value(self, kk)
                        if isinstance(kv, (SStr, str)):
                            kty = _StrTy
                        elif isinstance(kv, (SInt, int)) and not isinstance(kv, bool):
                            kty = _IntTy
                        else:
                            raise Unsupported('dict display with symbolic key %r' % (kk,))
                        d = models.smap_of_dict(self, kty, None, d)
                    d.setitem(self, kk, self.eval(v, frame))
                    continue
                if isinstance(d, dict):
                    d[kk] = self.eval(v, frame)
                else:
                    d.setitem(self, kk, self.eval(v, frame))
        return d

    def e_Subscript(self, node, frame):
        obj = self.eval(node.value, frame)
        idx = self._index(node.slice, frame)
        return self.getitem(obj, idx)

    def _index(self, s, frame):
        if isinstance(s, ast.Slice):
            return slice(self.eval(s.lower, frame) if s.lower else None,
                         self.eval(s.upper, frame) if s.upper else None,
                         self.eval(s.step, frame) if s.step else None)
        return self.eval(s, frame)

    def getitem(self, obj, idx):
        from . import models
        if isinstance(obj, (SOpt, SChoice)):
            obj = self.resolve(obj)
        if isinstance(idx, (SOpt, SChoice)):
            idx = self.resolve(idx)
        from .pdict import PDict
        if isinstance(obj, PDict):
            return obj.getitem(self, idx)
        if isinstance(obj, (SStr, SList, models.SMap, models.SMapProxy)) or (isinstance(obj, str) and _slice_sym(idx)):
            return models.sym_getitem(self, obj, idx)
        if isinstance(obj, Opaque):
            return self.reg.call_opaque(self, obj, '__getitem__', [idx], {})
        if isinstance(obj, models.SMap):
            return obj.getitem(self, idx)
        if isinstance(obj, (list, tuple)) and isinstance(idx, SInt):
            # case split over the concrete positions
            n = len(obj)
            conds = [z3.Or(idx.t == i, idx.t == i - n) for i in range(n)] + [z3.Or(idx.t >= n, idx.t < -n)]
            k = self.st.choose(n + 1, conds)
            if k == n:
                raise PyRaise(IndexError('index out of range'))
            return obj[k]
        if isinstance(obj, (list, tuple)) and _slice_sym(idx):
            raise Unsupported('symbolic slice of concrete list')
        if isinstance(obj, dict) or type(obj).__name__ == 'mappingproxy':
            if isinstance(idx, SBool):
                idx = self.st.fork(idx)
            if isinstance(idx, SStr) and all(isinstance(k, str) for k in obj.keys()):
                # lookup with a symbolic string in a dictionary with concrete keys: case split over the keys
                keys = list(obj.keys())
                conds = [idx.t == z3.StringVal(k) for k in keys]
                conds.append(z3.And(*[z3.Not(c) for c in conds]) if conds else z3.BoolVal(True))
                i = self.st.choose(len(conds), conds)
                if i == len(keys):
                    raise PyRaise(KeyError('<symbolic>'))
                return obj[keys[i]]
            if isinstance(idx, Sym):
                raise Unsupported('symbolic dict key')
            try:
                return obj[idx]
            except Exception as e:
                raise PyRaise(e)
        if isinstance(obj, type):
            try:
                return obj[idx]
            except Exception as e:
                raise PyRaise(e)
        gi = _static_lookup(type(obj), '__getitem__')
        if gi is not None and isinstance(gi[0], types.FunctionType) and _is_repo_function(gi[0]):
            return self.call_function_object(gi[0], [obj, idx], {}, gi[1])
        if contains_sym(idx, 0):
            raise Unsupported('symbolic index into %s' % type(obj).__name__)
        try:
            return obj[idx]
        except Exception as e:
            raise PyRaise(e)

    def e_Call(self, node, frame):
        fn = node.func
        # zero-argument super()
        if isinstance(fn, ast.Name) and fn.id == 'super' and not node.args and 'super' not in frame.locals:
            return self._super(frame)
        f = self.eval(fn, frame)
        args = []
        for a in node.args:
            if isinstance(a, ast.Starred):
                args.extend(self.iterate(self.eval(a.value, frame)))
            else:
                args.append(self.eval(a, frame))
        kwargs = {}
        for k in node.keywords:
            if k.arg is None:
                d = self.eval(k.value, frame)
                if isinstance(d, (SOpt, SChoice)):
                    d = self.resolve(d)
                kwargs.update(d)
            else:
                kwargs[k.arg] = self.eval(k.value, frame)
        frame.call_counter += 1
        if frame.assumed and id(node) in _assumed_positions(frame.info):
            if getattr(self, 'assuming', 0):
                return self.call_assumed(f, args, kwargs)
            return self.call_assumed_aligned(f, args, kwargs)
        if frame.proving is not None and id(node) in _assumed_positions(frame.info):
            return self.call_proving(f, args, frame.proving[0], frame.proving[1], kwargs)
        return self.call(f, args, kwargs)

    def _super(self, frame):
        obj = frame.first_arg
        cls = frame.defcls
        if cls is None:
            cname = frame.info.class_name
            mro = type(obj).__mro__ if not isinstance(obj, type) else obj.__mro__
            cands = [k for k in mro if k.__name__ == cname]
            if len(cands) != 1:
                raise Unsupported('cannot resolve super() in %s' % frame.info.qualname)
            cls = cands[0]
        return SuperProxy(cls, obj)

    def e_JoinedStr(self, node, frame):
        parts = []
        symbolic = False
        for v in node.values:
            if isinstance(v, ast.Constant):
                parts.append(v.value)
            else:
                x = self.eval(v.value, frame)
                if contains_sym(x) or v.format_spec is not None and contains_sym(x):
                    if isinstance(x, SStr) and v.conversion == -1 and v.format_spec is None:
                        parts.append(x)
                    else:
                        symbolic = True
                        parts.append(None)
                else:
                    spec = self.eval(v.format_spec, frame) if v.format_spec is not None else ''
                    if v.conversion == ord('r'):
                        x = repr(x)
                    elif v.conversion == ord('s'):
                        x = str(x)
                    parts.append(self._str_of(x) if spec == '' else self._native(format, [x, spec], {}))
        if symbolic:
            return SStr(self.st.fresh_str('fstr'))
        if any(isinstance(p, SStr) for p in parts):
            return wrap(z3.Concat(*[to_z3(p) for p in parts])) if len(parts) > 1 else parts[0]
        return ''.join(parts)

    def _str_of(self, x):
        from . import models
        return models.m_str(self, [x], {})

    def e_FormattedValue(self, node, frame):
        raise Unsupported('bare FormattedValue')

    def e_ListComp(self, node, frame):
        if len(node.generators) == 1 and not node.generators[0].ifs:
            src = self.eval(node.generators[0].iter, frame)
            if isinstance(src, (SOpt, SChoice)):
                src = self.resolve(src)
            from . import models as _models
            if isinstance(src, (SList, _models.SIter, _models.SEnumerate)):
                from . import seqs
                return seqs.map_comprehension(self, node, frame, src)
            out = []
            self._comp(node.generators, 0, frame, frame.locals, lambda fr: out.append(self.eval(node.elt, fr)),
                       first_iter=src)
            return out
        if len(node.generators) == 1:
            # [f(x) for x in xs if p(x)] over a symbolic sequence: a filtered sub-sequence (as for generator
            # expressions)
            src = self.eval(node.generators[0].iter, frame)
            if isinstance(src, (SOpt, SChoice)):
                src = self.resolve(src)
            from . import models as _models
            if isinstance(src, (SList, _models.SIter, _models.SEnumerate)):
                from . import seqs
                return seqs.filter_comprehension(self, node, frame, src)
            out = []
            self._comp(node.generators, 0, frame, frame.locals, lambda fr: out.append(self.eval(node.elt, fr)),
                       first_iter=src)
            return out
        out = []
        self._comp(node.generators, 0, frame, frame.locals, lambda fr: out.append(self.eval(node.elt, fr)))
        return out

    def e_SetComp(self, node, frame):
        out = []
        self._comp(node.generators, 0, frame, frame.locals, lambda fr: out.append(self.eval(node.elt, fr)))
        if contains_sym(out, 1):
            raise Unsupported('set comprehension with symbolic elements')
        return set(out)

    def e_DictComp(self, node, frame):
        if len(node.generators) == 1 and not node.generators[0].ifs:
            from . import models as _models
            call = node.generators[0].iter
            src = self.eval(call, frame)
            if isinstance(src, (SOpt, SChoice)):
                src = self.resolve(src)
            if isinstance(src, _models.SMapItems):
                return _models.smap_dictcomp(self, node, frame, src)
            out = {}

            def add1(fr):
                k = self.eval(node.key, fr)
                if isinstance(k, SChoice):
                    k = self.resolve(k)
                if contains_sym(k, 0):
                    raise Unsupported('dict comprehension with symbolic key')
                out[k] = self.eval(node.value, fr)

            self._comp(node.generators, 0, frame, frame.locals, add1, first_iter=src)
            return out
        out = {}

        def add(fr):
            k = self.eval(node.key, fr)
            if isinstance(k, SChoice):
                k = self.resolve(k)
            if contains_sym(k, 0):
                raise Unsupported('dict comprehension with symbolic key')
            out[k] = self.eval(node.value, fr)

        self._comp(node.generators, 0, frame, frame.locals, add)
        return out

    def e_GeneratorExp(self, node, frame):
        # evaluated lazily in a generator thread
        def runner(gen):
            def emit(fr):
                gen.do_yield(self.eval(node.elt, fr))

            self._comp(node.generators, 0, frame, frame.locals, emit)
            return None

        first_iter = self.eval(node.generators[0].iter, frame)
        if isinstance(first_iter, (SOpt, SChoice)):
            first_iter = self.resolve(first_iter)
        from . import models as _models
        if isinstance(first_iter, (SList, _models.SIter, _models.SEnumerate)):
            if len(node.generators) == 1 and not node.generators[0].ifs:
                # element-wise image of a symbolic sequence (evaluated eagerly: the body must be pure)
                from . import seqs
                return _models.SIter(seqs.map_comprehension(self, node, frame, first_iter), 0)
            if len(node.generators) == 1:
                from . import seqs
                return _models.SIter(seqs.filter_comprehension(self, node, frame, first_iter), 0)
            raise Unsupported('nested generator expression over a symbolic sequence')
        node_gens = node.generators

        def runner2(gen):
            def emit(fr):
                gen.do_yield(self.eval(node.elt, fr))

            self._comp(node_gens, 0, frame, frame.locals, emit, first_iter=first_iter)
            return None

        return GenObj(self, runner2, '<genexpr>')

    def _comp(self, gens, i, frame, scope_locals, emit, first_iter=None):
        from . import models
        g = gens[i]
        # comprehension scope: a child frame whose locals shadow the target names
        if i == 0:
            child_locals = {}
            child_info = _comp_info(frame.info, gens)
            child = Frame(child_info, child_locals, frame.enclosing + [frame.locals], frame.first_arg, frame.defcls)
            child.gen = frame.gen
            it_src = first_iter if first_iter is not None else self.eval(g.iter, frame)
        else:
            child = frame
            it_src = self.eval(g.iter, frame)
        if isinstance(it_src, (SOpt, SChoice)):
            it_src = self.resolve(it_src)
        if isinstance(it_src, SList):
            return models.slist_comprehension(self, it_src, gens, i, child, emit)
        for x in self.iterate(it_src):
            self.assign(g.target, x, child)
            ok = True
            for cond in g.ifs:
                if not self.branch(self.eval(cond, child)):
                    ok = False
                    break
            if not ok:
                continue
            if i + 1 < len(gens):
                self._comp(gens, i + 1, child, child.locals, emit)
            else:
                emit(child)

    def e_Yield(self, node, frame):
        if frame.gen is None:
            raise Unsupported('yield outside generator frame')
        v = self.eval(node.value, frame) if node.value is not None else None
        return frame.gen.do_yield(v)

    def e_YieldFrom(self, node, frame):
        src = self.eval(node.value, frame)
        result = None
        it = self.iterate(src)
        while True:
            try:
                x = next(it)
            except StopIteration as s:
                result = getattr(s, 'value', None)
                break
            except PyRaise as e:
                if isinstance(e.exc, StopIteration):
                    result = getattr(e.exc, 'value', None)
                    break
                raise
            frame.gen.do_yield(x)
        return result

    def e_NamedExpr(self, node, frame):
        v = self.eval(node.value, frame)
        self.assign(node.target, v, frame)
        return v

    def e_Starred(self, node, frame):
        raise Unsupported('starred expression')

    # ======================================================================= statements
    def exec_block(self, stmts, frame):
        for s in stmts:
            r = self.exec(s, frame)
            if r is not None:
                return r
        return None

    def exec(self, node, frame):
        m = getattr(self, 's_' + type(node).__name__, None)
        if m is None:
            raise Unsupported('statement %s' % type(node).__name__)
        return m(node, frame)

    def s_Expr(self, node, frame):
        if isinstance(node.value, ast.Constant):
            return None
        self.eval(node.value, frame)
        return None

    def s_Pass(self, node, frame):
        return None

    def s_Return(self, node, frame):
        try:
            v = self.eval(node.value, frame) if node.value is not None else None
        except PyRaise:
            # `return f(...)` whose expression raises (e.g. `return self.error(...)`): the statement was reached
            self._reached(node, frame)
            raise
        self._reached(node, frame)
        return ('return', v)

    def _reached(self, node, frame):
        """reachability cover: exit statements of the function under verification reached on this path"""
        if frame.info.filename == self.cover_file:
            self.st.reached.add(node.lineno)

    def s_Break(self, node, frame):
        return ('break',)

    def s_Continue(self, node, frame):
        return ('continue',)

    def s_Global(self, node, frame):
        return None

    def s_Nonlocal(self, node, frame):
        return None

    def s_Assign(self, node, frame):
        v = self.eval(node.value, frame)
        for t in node.targets:
            self.assign(t, v, frame)
        return None

    def s_AnnAssign(self, node, frame):
        if node.value is not None:
            self.assign(node.target, self.eval(node.value, frame), frame)
        return None

    def s_AugAssign(self, node, frame):
        t = node.target
        if isinstance(t, ast.Name):
            cur = self.lookup(self.mangle(t.id, frame.info.class_name), frame)
            new = self._aug(type(node.op), cur, self.eval(node.value, frame), holder=frame.locals)
            self.store_name(self.mangle(t.id, frame.info.class_name), new, frame)
        elif isinstance(t, ast.Attribute):
            obj = self.eval(t.value, frame)
            name = self.mangle(t.attr, frame.info.class_name)
            cur = self.getattr(obj, name)
            new = self._aug(type(node.op), cur, self.eval(node.value, frame))
            self.setattr(obj, name, new)
        elif isinstance(t, ast.Subscript):
            obj = self.eval(t.value, frame)
            idx = self._index(t.slice, frame)
            cur = self.getitem(obj, idx)
            new = self._aug(type(node.op), cur, self.eval(node.value, frame))
            self.setitem(obj, idx, new)
        else:
            raise Unsupported('augmented assignment target')
        return None

    def _aug(self, opcls, cur, val, holder=None):
        if opcls is ast.Add and isinstance(cur, list):
            # list += iterable mutates in place
            if isinstance(val, (SOpt, SChoice)):
                val = self.resolve(val)
            if isinstance(val, SList):
                # a concrete list extended by a sequence of symbolic length: it becomes a (mutable) symbolic
                # list.  The name is re-bound to the new object, which is only faithful when nothing else
                # refers to the old list: checked (conservatively) through the garbage collector.
                if holder is None or not _only_referenced_from(cur, holder):
                    raise Unsupported('`+=` of a symbolic-length sequence to a concrete list that may be aliased')
                from . import seqs
                return seqs.copy(seqs.concat(self, list(cur), val))
            cur.extend(list(self.iterate(val)))
            return cur
        if opcls is ast.Add and isinstance(cur, SList):
            # list += iterable mutates in place (grow-only also for plain symbolic sequences)
            if isinstance(val, (SOpt, SChoice)):
                val = self.resolve(val)
            from . import seqs
            seqs.method(self, cur, 'extend', [val], {})
            return cur
        return self.binop(opcls, cur, val)

    def assign(self, target, value, frame):
        if isinstance(target, ast.Name):
            self.store_name(self.mangle(target.id, frame.info.class_name), value, frame)
        elif isinstance(target, ast.Attribute):
            obj = self.eval(target.value, frame)
            self.setattr(obj, self.mangle(target.attr, frame.info.class_name), value)
        elif isinstance(target, ast.Subscript):
            obj = self.eval(target.value, frame)
            idx = self._index(target.slice, frame)
            self.setitem(obj, idx, value)
        elif isinstance(target, (ast.Tuple, ast.List)):
            if isinstance(value, (SOpt, SChoice)):
                value = self.resolve(value)
            vals = list(self.iterate(value))
            star = [i for i, e in enumerate(target.elts) if isinstance(e, ast.Starred)]
            if star:
                i = star[0]
                n_after = len(target.elts) - i - 1
                if len(vals) < len(target.elts) - 1:
                    raise PyRaise(ValueError('not enough values to unpack'))
                for e, v in zip(target.elts[:i], vals[:i]):
                    self.assign(e, v, frame)
                self.assign(target.elts[i].value, vals[i:len(vals) - n_after], frame)
                for e, v in zip(target.elts[i + 1:], vals[len(vals) - n_after:]):
                    self.assign(e, v, frame)
            else:
                if len(vals) != len(target.elts):
                    raise PyRaise(ValueError('wrong number of values to unpack (expected %d, got %d)'
                                             % (len(target.elts), len(vals))))
                for e, v in zip(target.elts, vals):
                    self.assign(e, v, frame)
        else:
            raise Unsupported('assignment target %s' % type(target).__name__)

    def setitem(self, obj, idx, value):
        if isinstance(obj, (SOpt, SChoice)):
            obj = self.resolve(obj)
        if isinstance(idx, SChoice):
            idx = self.resolve(idx)
        if isinstance(obj, Opaque):
            return self.reg.call_opaque(self, obj, '__setitem__', [idx, value], {})
        from . import models
        from .pdict import PDict
        if isinstance(obj, PDict):
            return obj.setitem(self, idx, value)
        if isinstance(obj, models.SMap):
            return obj.setitem(self, idx, value)
        from .mlist import MList
        if isinstance(obj, MList):
            return obj.setitem(self, idx, value)
        if contains_sym(idx, 0):
            raise Unsupported('store with symbolic index/key')
        si = _static_lookup(type(obj), '__setitem__')
        if si is not None and isinstance(si[0], types.FunctionType) and _is_repo_function(si[0]):
            return self.call_function_object(si[0], [obj, idx, value], {}, si[1])
        try:
            obj[idx] = value
        except Exception as e:
            raise PyRaise(e)

    def s_Delete(self, node, frame):
        for t in node.targets:
            if isinstance(t, ast.Name):
                frame.locals.pop(t.id, None)
            elif isinstance(t, ast.Subscript):
                obj = self.eval(t.value, frame)
                idx = self._index(t.slice, frame)
                if isinstance(obj, (SOpt, SChoice)):
                    obj = self.resolve(obj)
                from . import models
                if isinstance(obj, models.SMap):
                    obj.delitem(self, idx)
                    continue
                from .mlist import MList
                if isinstance(obj, MList) and isinstance(idx, int) and idx == 0:
                    if not self.st.fork(wrap(obj.length > 0)):
                        raise PyRaise(IndexError('list assignment index out of range'))
                    obj.delete_first(self)
                    continue
                if isinstance(obj, MList) and isinstance(idx, int) and idx == -1:
                    obj.pop(self)
                    continue
                if contains_sym(idx, 0) or isinstance(obj, (Sym, Opaque)):
                    raise Unsupported('del with symbolic operand')
                try:
                    del obj[idx]
                except Exception as e:
                    raise PyRaise(e)
            else:
                raise Unsupported('del target')
        return None

    def s_If(self, node, frame):
        if frame.assumed and not node.orelse and len(node.body) == 1 and isinstance(node.body[0], ast.Return) \
                and isinstance(node.body[0].value, ast.Constant) and node.body[0].value.value is False:
            # `if c: return False` in a predicate that is being assumed
            self.st.assume(self.not_(self.eval(node.test, frame)))
            return None
        if frame.proving is not None and not node.orelse and len(node.body) == 1 \
                and isinstance(node.body[0], ast.Return) and isinstance(node.body[0].value, ast.Constant) \
                and node.body[0].value.value is False:
            # `if c: return False` in a predicate that is being proved: prove `not c` here, then rely on it
            nc = self.not_(self.eval(node.test, frame))
            self.st.oblige(frame.proving[0], nc, dict(frame.proving[1], step='line %d' % node.lineno))
            self.st.proof_step(nc)
            return None
        if self.branch(self.eval(node.test, frame)):
            return self.exec_block(node.body, frame)
        return self.exec_block(node.orelse, frame)

    def s_Assert(self, node, frame):
        # `assert isinstance(x, T)` is the code's own dynamic type check: taken as an assumption
        t = node.test
        if isinstance(t, ast.Call) and isinstance(t.func, ast.Name) and t.func.id == 'isinstance':
            v = self.eval(t, frame)
            tv = self.truth(v)
            self.st.stats.setdefault('assumed_isinstance_asserts', set()).add(
                '%s:%d' % (frame.info.qualname, node.lineno))
            self.st.assume(tv)
            return None
        v = self.eval(t, frame)
        if not self.branch(v):
            msg = self.eval(node.msg, frame) if node.msg is not None else None
            raise PyRaise(AssertionError(msg) if msg is not None and not contains_sym(msg) else AssertionError())
        return None

    def s_Raise(self, node, frame):
        self._reached(node, frame)
        if node.exc is None:
            cur = getattr(frame, '_cur_exc', None) or self._current_exception
            if cur is None:
                raise PyRaise(RuntimeError('No active exception to reraise'))
            raise PyRaise(cur)
        e = self.eval(node.exc, frame)
        if isinstance(e, (SOpt, SChoice)):
            e = self.resolve(e)
        if isinstance(e, type):
            e = self.construct(e, [], {})
        if isinstance(e, Opaque):
            raise PyRaise(e)
        if not isinstance(e, BaseException):
            raise PyRaise(TypeError('exceptions must derive from BaseException'))
        raise PyRaise(e)

    _current_exception = None

    def s_Try(self, node, frame):
        result = None
        try:
            try:
                result = self.exec_block(node.body, frame)
            except PyRaise as pr:
                exc = pr.exc
                handler = None
                for h in node.handlers:
                    if h.type is None:
                        handler = h
                        break
                    et = self.eval(h.type, frame)
                    if self.branch(self._exc_matches(exc, et)):      # (symbolic for an opaque exception)
                        handler = h
                        break
                if handler is None:
                    raise
                if handler.name:
                    frame.locals[handler.name] = exc
                saved = self._current_exception
                self._current_exception = exc
                try:
                    result = self.exec_block(handler.body, frame)
                finally:
                    self._current_exception = saved
                    # (python deletes the name; harmless to keep)
            else:
                if result is None and node.orelse:
                    result = self.exec_block(node.orelse, frame)
        except (_GenAbort, PathAbort, RetryPath, Unsupported):
            raise
        except BaseException:
            if node.finalbody:
                r2 = self.exec_block(node.finalbody, frame)
                if r2 is not None:
                    return r2
            raise
        if node.finalbody:
            r2 = self.exec_block(node.finalbody, frame)
            if r2 is not None:
                return r2
        return result

    def _exc_matches(self, exc, et):
        if isinstance(et, tuple):
            if isinstance(exc, Opaque):
                return self.reg.opaque_isinstance(self, exc, et)
            return any(self._exc_matches(exc, t) for t in et)
        if isinstance(exc, Opaque):
            return self.reg.opaque_isinstance(self, exc, et)
        try:
            return isinstance(exc, et)
        except TypeError as e:
            raise PyRaise(e)

    def s_With(self, node, frame):
        return self._with(node, 0, frame)

    def _with(self, node, i, frame):
        if i == len(node.items):
            return self.exec_block(node.body, frame)
        item = node.items[i]
        cm = self.eval(item.context_expr, frame)
        if isinstance(cm, (SOpt, SChoice)):
            cm = self.resolve(cm)
        if isinstance(cm, CtxMgr):
            try:
                v = cm.gen.send(None)
            except PyRaise as e:
                if isinstance(e.exc, StopIteration):
                    raise PyRaise(RuntimeError("generator didn't yield"))
                raise
            enter_val = v

            def exit_(exc):
                if exc is None:
                    try:
                        cm.gen.send(None)
                    except PyRaise as e:
                        if isinstance(e.exc, StopIteration):
                            return False
                        raise
                    raise PyRaise(RuntimeError("generator didn't stop"))
                try:
                    cm.gen.throw(exc)
                except PyRaise as e:
                    if isinstance(e.exc, StopIteration) and e.exc is not exc:
                        return True  # suppressed
                    if e.exc is exc:
                        return False
                    raise
                raise PyRaise(RuntimeError("generator didn't stop after throw()"))
        else:
            enter = self.getattr(cm, '__enter__')
            exitm = self.getattr(cm, '__exit__')
            enter_val = self.call(enter, [], {})

            def exit_(exc):
                if exc is None:
                    self.call(exitm, [None, None, None], {})
                    return False
                r = self.call(exitm, [type(exc), exc, None], {})
                return self.branch(r)
        if item.optional_vars is not None:
            self.assign(item.optional_vars, enter_val, frame)
        try:
            r = self._with(node, i + 1, frame)
        except PyRaise as pr:
            if exit_(pr.exc):
                return None
            raise
        except (_GenAbort, PathAbort, RetryPath, Unsupported):
            raise
        exit_(None)
        return r

    def s_FunctionDef(self, node, frame):
        if node.decorator_list:
            decs = [self.eval(d, frame) for d in node.decorator_list]
        else:
            decs = []
        c = self._make_closure(node, frame, node.name)
        v = c
        for d in reversed(decs):
            import contextlib
            if d is contextlib.contextmanager:
                v = _CtxFactory(v)
            else:
                v = self.call(d, [v], {})
        frame.locals[node.name] = v
        return None

    def s_Import(self, node, frame):
        for al in node.names:
            try:
                mod = __import__(al.name)
            except Exception as e:
                raise PyRaise(e)
            if al.asname:
                for part in al.name.split('.')[1:]:
                    mod = getattr(mod, part)
                frame.locals[al.asname] = mod
            else:
                frame.locals[al.name.split('.')[0]] = mod
        return None

    def s_ImportFrom(self, node, frame):
        import importlib
        import importlib.util
        modname = node.module
        if node.level:
            # relative import: resolved against the package of the module the function lives in
            g = frame.info.globals
            pkg = g.get('__package__') or (g.get('__name__', '').rpartition('.')[0])
            if not pkg:
                raise Unsupported('relative import outside a package')
            try:
                modname = importlib.util.resolve_name('.' * node.level + (node.module or ''), pkg)
            except Exception as e:
                raise PyRaise(e)
        try:
            mod = importlib.import_module(modname)
        except Exception as e:
            raise PyRaise(e)
        for al in node.names:
            try:
                v = getattr(mod, al.name)
            except AttributeError:
                try:
                    v = importlib.import_module(modname + '.' + al.name)
                except Exception as e:
                    raise PyRaise(e)
            frame.locals[al.asname or al.name] = v
        return None

    def s_While(self, node, frame):
        from . import loops
        return loops.exec_while(self, node, frame)

    def s_For(self, node, frame):
        from . import loops
        return loops.exec_for(self, node, frame)


class _CtxFactory:
    def __init__(self, closure):
        self.closure = closure


class _GenIter:
    def __init__(self, gen):
        self.gen = gen

    def __iter__(self):
        return self

    def __next__(self):
        try:
            return self.gen.send(None)
        except PyRaise as e:
            if isinstance(e.exc, StopIteration):
                s = StopIteration()
                s.value = getattr(e.exc, 'value', None)
                raise s
            raise


class _PyIter:
    pass


def _comp_info(parent_info, gens):
    key = id(gens[0])
    cache = parent_info.__dict__ if hasattr(parent_info, '__dict__') else None
    ci = _COMP_INFO.get((id(parent_info), key))
    if ci is None:
        ci = FuncInfo.__new__(FuncInfo)
        ci.node = parent_info.node
        ci.globals = parent_info.globals
        ci.class_name = parent_info.class_name
        ci.qualname = parent_info.qualname + '.<comp>'
        ci.filename = parent_info.filename
        ci.is_generator = False
        names = set()
        for g in gens:
            for n in ast.walk(g.target):
                if isinstance(n, ast.Name):
                    names.add(n.id)
        ci.local_names = names
        ci.nonlocal_names = set()
        ci.global_names = set()
        ci.source_sha = None
        _COMP_INFO[(id(parent_info), key)] = ci
    return ci


_COMP_INFO = {}


def _is_spec_file(filename):
    import os
    from . import VERIF
    return bool(filename) and os.path.abspath(filename).startswith(os.path.join(VERIF, 'contracts') + os.sep)


_ASSUMED_POS = {}


def _assumed_positions(info):
    """ids of the Call nodes of a function whose value must be true whenever the function's result is:
    the calls that are the returned expression or an operand of its top-level `and`."""
    key = id(info.node)
    r = _ASSUMED_POS.get(key)
    if r is None:
        r = set()

        def collect(e):
            if isinstance(e, ast.Call):
                r.add(id(e))
            elif isinstance(e, ast.BoolOp) and isinstance(e.op, ast.And):
                r.add(id(e))
                for v in e.values:
                    collect(v)

        node = info.node
        if isinstance(node, ast.Lambda):
            collect(node.body)
        else:
            from .loops import _walk_own
            for n in _walk_own(node):
                if isinstance(n, ast.Return) and n.value is not None:
                    collect(n.value)
                elif isinstance(n, ast.If) and not n.orelse and len(n.body) == 1 \
                        and isinstance(n.body[0], ast.Return) and isinstance(n.body[0].value, ast.Constant) \
                        and n.body[0].value.value is False and isinstance(n.test, ast.UnaryOp) \
                        and isinstance(n.test.op, ast.Not):
                    # `if not f(..): return False`: f(..) must be true whenever the function's result is
                    collect(n.test.operand)
        _ASSUMED_POS[key] = (r, info.node)
    else:
        r = r[0]
    return r if isinstance(r, set) else r[0]


def _cell(c):
    try:
        return c.cell_contents
    except ValueError:
        return None


def _qn(f):
    m = getattr(f, '__module__', None)
    q = getattr(f, '__qualname__', None) or getattr(f, '__name__', None) or repr(f)
    if m is None:
        s = getattr(f, '__self__', None)
        if s is not None:
            m = type(s).__module__ + '.' + type(s).__name__
    return '%s:%s' % (m, q)


def _kind(v):
    if isinstance(v, (SBool, bool)):
        return 'bool'
    if isinstance(v, (SInt, int)):
        return 'int'
    if isinstance(v, (SStr, str)):
        return 'str'
    if v is None:
        return 'none'
    return None


def _slice_sym(idx):
    if isinstance(idx, slice):
        return any(isinstance(x, Sym) for x in (idx.start, idx.stop, idx.step))
    return isinstance(idx, Sym)


def _only_referenced_from(obj, holder):
    """True iff no container other than the dict `holder` (a frame's locals) refers to `obj`.
    Interpreter stack frames and function cells do not count (they are temporaries of the engine)."""
    import gc
    for r in gc.get_referrers(obj):
        if r is holder:
            continue
        if isinstance(r, types.FrameType) or type(r).__name__ in ('cell',):
            continue
        if isinstance(r, (dict, list, tuple, set, frozenset)) or hasattr(r, '__dict__') or hasattr(r, '__slots__'):
            return False
    return True


def _static_lookup(cls, name):
    for k in cls.__mro__:
        if name in k.__dict__:
            return (k.__dict__[name], k)
    return None


def _is_repo_function(f):
    return isinstance(f, types.FunctionType) and is_interpretable_file(f.__code__.co_filename)


def _is_repo_class(cls):
    mod = sys.modules.get(getattr(cls, '__module__', None))
    f = getattr(mod, '__file__', None)
    return bool(f) and is_interpretable_file(f)
