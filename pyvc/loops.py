"""Loops: exact unrolling over concretely bounded iterables; inductive invariants
(from the sidecar) for symbolic-length sequences and `while` loops."""
import ast

try:
    import z3
except ImportError:      # replays run under the repository's interpreter, without z3
    z3 = None

from .path import PathAbort, Unsupported
from .values import SInt, SBool, SList, SOpt, SChoice, Sym, to_z3, wrap
from . import models

MAX_SYMBOLIC_UNROLL = 12


def loop_ordinal(info, node):
    m = getattr(info.node, '_pv_loop_ordinals', None)
    if m is None:
        loops = [n for n in _walk_own(info.node) if isinstance(n, (ast.For, ast.While))]
        loops.sort(key=lambda n: (n.lineno, n.col_offset))
        m = {id(n): i for i, n in enumerate(loops)}
        info.node._pv_loop_ordinals = m
    return m[id(node)]


def _walk_own(fnode):
    """Nodes of a function body, not descending into nested function definitions."""
    todo = list(fnode.body) if isinstance(fnode.body, list) else [fnode.body]
    while todo:
        n = todo.pop()
        yield n
        if isinstance(n, (ast.FunctionDef, ast.AsyncFunctionDef, ast.Lambda, ast.ClassDef)):
            continue
        for c in ast.iter_child_nodes(n):
            if isinstance(c, (ast.FunctionDef, ast.AsyncFunctionDef, ast.Lambda, ast.ClassDef)):
                continue
            todo.append(c)


def _is_pymodel(filename):
    return '/pymodels/' in filename.replace('\\', '/')


def join_slist(interp, sep, xs):
    """str.join over a symbolic-length sequence: interpreted from the Python model in pymodels/str_model.py
    with the loop invariant attached to the call site, keyed 'join#k' (k-th such join of the function)."""
    from .pymodels import str_model
    target = None
    for fr in reversed(interp.frame_stack):
        if not _is_pymodel(fr.info.filename):
            target = fr
            break
    if target is None:
        return NotImplemented
    k = target.join_counter
    target.join_counter = k + 1
    if (target.info.filename, target.info.qualname, 'join#%d' % k) not in interp.reg.loops_by_key:
        return NotImplemented        # no call-site invariant: the caller falls back to the algebraic model
    saved = target.model_site
    target.model_site = 'join#%d' % k
    try:
        return interp.call(str_model.join, [sep, xs], {})
    finally:
        target.model_site = saved


def find_spec(interp, frame, node):
    ordinal = loop_ordinal(frame.info, node)
    if _is_pymodel(frame.info.filename):
        # library model: the invariant belongs to the call site (the nearest repository frame)
        for fr in reversed(interp.frame_stack):
            if not _is_pymodel(fr.info.filename):
                if fr.model_site is None and fr.reduce_site is None:
                    return None, ordinal      # an ordinary loop of a Python-level model (no call-site spec)
                key = fr.model_site if fr.model_site is not None else 'reduce#%d' % fr.reduce_site
                spec = _pick(interp, interp.reg.loops_by_key.get((fr.info.filename, fr.info.qualname, key)))
                return spec, key
        return None, ordinal
    return _pick(interp, interp.reg.loops_by_key.get((frame.info.filename, frame.info.qualname, ordinal))), ordinal


def _pick(interp, specs):
    """several sidecar modules may annotate the same loop: the module under verification comes first"""
    if specs is None or not hasattr(specs, 'pick'):
        return specs
    return specs.pick(getattr(interp.reg, 'current_module', None))


_MUTATORS = {'append', 'extend', 'insert', 'pop', 'add', 'update', 'clear', 'remove', 'popleft', 'appendleft',
             'write', 'writelines', 'setdefault', 'sort', 'reverse', 'discard', 'put', 'set'}


def assigned_names(body_nodes):
    names = set()
    attrs = set()
    mutated = set()
    for top in body_nodes:
        for n in ast.walk(top):
            if isinstance(n, ast.Name) and isinstance(n.ctx, (ast.Store, ast.Del)):
                names.add(n.id)
            elif isinstance(n, ast.Attribute) and isinstance(n.ctx, (ast.Store, ast.Del)):
                attrs.add(ast.unparse(n))
            elif isinstance(n, ast.Subscript) and isinstance(n.ctx, (ast.Store, ast.Del)):
                mutated.add(ast.unparse(n.value))
            elif isinstance(n, ast.Call) and isinstance(n.func, ast.Attribute) and n.func.attr in _MUTATORS:
                mutated.add(ast.unparse(n.func.value))
            elif isinstance(n, ast.AugAssign):
                if isinstance(n.target, ast.Name):
                    names.add(n.target.id)
    return names, attrs, mutated


def _oblige_conjuncts(st, name, goal, meta):
    """one instance of the obligation per top-level conjunct of the invariant: smaller queries, and a refuted
    conjunct gets a counter-model instead of a timeout on the whole conjunction"""
    t = goal.t if isinstance(goal, SBool) else goal
    if not isinstance(t, bool) and z3.is_and(t):
        for c in t.children():
            st.oblige(name, c, meta)
    else:
        st.oblige(name, goal, meta)


def _call_pred(interp, pred, env, assumed=False, proving=None):
    """Call a sidecar predicate, passing the values of the names it asks for.  assumed: the caller is
    going to assume the result (Interp.call_assumed); proving=(name, meta): the caller is going to record the
    result as that obligation (Interp.call_proving)."""
    params = _param_names(pred)
    missing = [p for p in params if p not in env]
    if missing:
        raise Unsupported('loop/contract predicate asks for unknown name(s) %s' % missing)
    if assumed == 'aligned':
        return interp.call_assumed_aligned(pred, [env[p] for p in params], {})
    if assumed:
        return interp.call_assumed(pred, [env[p] for p in params], {})
    if proving is not None:
        n = len(interp.st.scopes)
        try:
            v = interp.call_proving(pred, [env[p] for p in params], proving[0], proving[1])
            # the value is recorded by the caller as the last step of the same proof: under the steps so far
            if len(interp.st.scopes) > n and isinstance(v, (SBool, bool)):
                hyp = interp.st.scopes[n:]
                v = wrap(z3.Implies(z3.And(*hyp) if len(hyp) > 1 else hyp[0], to_z3(v)))
            return v
        finally:
            del interp.st.scopes[n:]
    return interp.call(pred, [env[p] for p in params], {})


def _param_names(pred):
    from .interp import Closure
    if isinstance(pred, Closure):
        a = pred.info.node.args
        return [p.arg for p in a.posonlyargs + a.args]
    code = pred.__code__
    return list(code.co_varnames[:code.co_argcount])


def _env_of(interp, frame, extra):
    env = {'ghost': interp.st.ghost, 'trace': interp.st.trace}     # ghost state / events (unless shadowed by a local)
    if interp.collect is not None:
        env['yielded'] = interp.collect[1]
    if _is_pymodel(frame.info.filename):
        # library model: the call site's names are visible to the invariant
        for fr in reversed(interp.frame_stack):
            if not _is_pymodel(fr.info.filename):
                for d in fr.enclosing:
                    env.update(d)
                env.update(fr.locals)
                break
    for d in frame.enclosing:
        env.update(d)
    env.update(frame.locals)
    env.update(interp.reg.ghost_env)
    env['ghost'] = interp.st.ghost       # ghost (monitor) state of models and contracts
    # indices of the (enclosing) loops with invariants: `_i_<ordinal>`
    for o, t in getattr(frame, 'loop_index', {}).items():
        env['_i_%s' % o] = t
    env.setdefault('trace', interp.st.trace)
    env.update(extra)
    return env


def _havoc(interp, frame, spec, modified_names, tag):
    """returns the set of (id(object), attribute) pairs of the object fields declared in `modifies`"""
    declared_fields = set()
    from .api import MListOf as _MListOf
    for name in modified_names:
        ty = spec.modifies.get(name)
        if isinstance(ty, _MListOf):
            continue
        if ty is None:
            # a name the loop specification does not know (a temporary introduced by a later edit of the
            # function): treated as a loop-local temporary, i.e. UNBOUND at the loop head and after the loop.
            # Conservative: a read of a value carried over from another iteration or from before the loop
            # is a limit of the verifier (Unsupported: the specification says nothing about that value)
            # instead of seeing a stale value.
            ty = 'local'
            frame.undeclared_loop_names.add(name)
        if ty == 'in-place':
            continue
        if ty == 'local':      # a loop-local temporary: dead at loop head
            frame.locals.pop(name, None)
            continue
        if ty == 'iter':
            continue
        frame.locals[name] = ty.make(interp, '%s@%s' % (name, tag))
    from .api import MListOf
    from .mlist import MList, from_concrete
    for name, ty in spec.modifies.items():
        if isinstance(ty, MListOf) and '.' not in name and not name.startswith('ghost:'):
            # a list mutated in place by the body: havoc the OBJECT (aliases see it), do not rebind
            cur = frame.locals.get(name)
            if cur is None:
                for d in reversed(frame.enclosing):
                    if name in d:
                        cur = d[name]
                        break
            if isinstance(cur, list):
                if cur:
                    m = from_concrete(interp, cur, name)
                else:
                    m = MList(interp, interp.st.fresh_name(name), ty.shape())
                # the concrete list object cannot become symbolic in place: rebind (sound only if the
                # name is the single reference; object fields must be declared as 'obj.attr')
                frame.locals[name] = m
                cur = m
            if isinstance(cur, MList):
                if cur.shape is None:
                    cur.shape = ty.shape()
                cur.havoc(interp, tag)
            elif name not in modified_names:
                raise Unsupported('modifies %r: not a list' % name)
    for name, ty in spec.modifies.items():
        if isinstance(ty, MListOf) and '.' not in name and not name.startswith('ghost:'):
            continue
        if hasattr(ty, 'havoc_in_place'):
            # mutable (ghost) state of an object reached through a local: havocked in place, identity kept
            obj = None
            for k, part in enumerate(name.split('.')):
                obj = frame.locals.get(part) if k == 0 else interp.getattr(obj, interp.mangle(part, frame.info.class_name))
            if obj is None:
                raise Unsupported('modifies entry %r: unknown object' % name)
            ty.havoc_in_place(interp, obj, '%s@%s' % (name, tag))
            declared_fields.add((id(obj), '<contents>'))     # (containers report changes of their contents)
            if getattr(ty, 'whole', False):
                declared_fields.add((id(obj), '*'))
            continue
        if ty == 'iter':
            # an iterator over a symbolic sequence that the body advances (nested loops over it, calls that
            # consume it): its position is arbitrary, but never before the position at loop entry
            cur = frame.locals.get(name)
            if not isinstance(cur, models.SIter):
                raise Unsupported('modifies %r: not an iterator over a symbolic sequence' % name)
            p0 = to_z3(cur.pos) if not isinstance(cur.pos, int) else z3.IntVal(cur.pos)
            p1 = interp.st.fresh_int('%s.pos@%s' % (name, tag))
            interp.st.assume(z3.And(p1 >= p0, z3.Or(p1 <= cur.xs.length, p1 == p0)))
            cur.pos = wrap(p1)
            continue
        if name == 'yielded':
            if interp.collect is None:
                raise Unsupported('modifies yielded outside a generator under verification')
            ys = interp.collect[1]
            n = interp.st.fresh_int('yielded.len@%s' % tag)
            interp.st.assume(n >= 0)
            ys.length = n
            continue
        if name.startswith('ghost:'):
            # ghost state (interp.st.ghost) changed by models/contracts called in the body
            interp.st.ghost[name[6:]] = ty.make(interp, '%s@%s' % (name, tag))
            continue
        if ty == 'in-place':
            # a mutable object (symbolic map, or instance holding one) changed by calls in the body:
            # its contents are forgotten, its identity is kept
            obj = frame.locals.get(name) if '.' not in name else None
            if obj is None and '.' in name:
                base, _, attr = name.partition('.')
                obj = frame.locals.get(base)
                for a in attr.split('.'):
                    obj = interp.getattr(obj, a) if obj is not None else None
            if obj is None or not models.havoc_mutable(interp, obj, '%s@%s' % (name, tag)):
                raise Unsupported('modifies entry %r (in-place): nothing to havoc' % name)
            if isinstance(obj, (SOpt, SChoice)):
                obj = interp.resolve(obj)
            declared_fields.add((id(obj), '*'))      # every field of an object declared in-place may be stored to
            continue
        if name == 'yielded':
            continue
        if name not in modified_names and ty != 'local' and not name.startswith('@'):
            if '.' in name:
                # object field:  'self._x' / 'self._o.segments'
                parts = name.split('.')
                obj = frame.locals.get(parts[0])
                if obj is None:
                    for d in reversed(frame.enclosing):      # a variable of an enclosing function
                        if parts[0] in d:
                            obj = d[parts[0]]
                            break
                if obj is None and _is_pymodel(frame.info.filename):
                    # library model: the names of the call site
                    for fr in reversed(interp.frame_stack):
                        if not _is_pymodel(fr.info.filename):
                            obj = fr.locals.get(parts[0])
                            break
                if obj is None:
                    raise Unsupported('modifies entry %r: unknown base' % name)
                for a in parts[1:-1]:
                    obj = interp.getattr(obj, a)
                attr = parts[-1]
                if isinstance(obj, (SOpt, SChoice)):
                    obj = interp.resolve(obj)
                declared_fields.add((id(obj), attr))
                if isinstance(ty, MListOf):
                    cur = interp.getattr(obj, attr)
                    if isinstance(cur, list):
                        m = from_concrete(interp, cur, name) if cur else MList(interp, interp.st.fresh_name(name),
                                                                               ty.shape())
                        interp.setattr(obj, attr, m)
                        cur = m
                    if cur.shape is None:
                        cur.shape = ty.shape()
                    cur.havoc(interp, tag)
                    continue
                interp.setattr(obj, attr, ty.make(interp, '%s@%s' % (name, tag)))
            else:
                frame.locals[name] = ty.make(interp, '%s@%s' % (name, tag))
    return declared_fields


def _iter_positions(frame, exempt):
    """positions of the iterators over symbolic sequences that the frame can see"""
    out = {}
    for d in list(frame.enclosing) + [frame.locals]:
        for name, v in d.items():
            if isinstance(v, models.SIter) and v is not exempt:
                out[id(v)] = (name, v, v.pos)
    return out


def _check_iterators_unchanged(spec, before, frame, exempt):
    """an iterator that the loop body advanced must be declared in modifies (as 'iter'): otherwise the
    arbitrary iteration would start from the position at loop entry only"""
    for key, (name, it, pos0) in before.items():
        same = it.pos is pos0 or (not isinstance(it.pos, int) and not isinstance(pos0, int)
                                  and to_z3(it.pos).eq(to_z3(pos0))) \
            or (isinstance(it.pos, int) and isinstance(pos0, int) and it.pos == pos0)
        if not same and spec.modifies.get(name) != 'iter':
            raise Unsupported('loop %s#%s advances the iterator %r which is not declared in modifies '
                              '(%s=\'iter\')' % (spec.qname, spec.ordinal, name, name))


def _check_frame(spec, node):
    names, attrs, mutated = assigned_names(node.body + node.orelse)
    target_names = set()
    if isinstance(node, ast.For):
        for n in ast.walk(node.target):
            if isinstance(n, ast.Name):
                target_names.add(n.id)
    declared = set(spec.modifies.keys())
    for a in attrs | mutated:
        if a not in declared and ('@' + a) not in declared:
            raise Unsupported('loop %s#%s mutates %r which is not declared in modifies' % (spec.qname, spec.ordinal, a))
    return (names - target_names), target_names


# =============================================================================== while

def exec_while(interp, node, frame):
    spec, ordinal = find_spec(interp, frame, node)
    if spec is None:
        return _while_unrolled(interp, node, frame)
    st = interp.st
    fname = interp.current_function_name()
    modified, _ = _check_frame(spec, node)
    label = '%s : loop#%s' % (fname, ordinal)
    # `entry=`: a snapshot taken at loop entry, `_entry` in the invariant (as for `for` loops)
    ent = {'_entry': _call_pred(interp, spec.entry, _env_of(interp, frame, {}))} \
        if getattr(spec, 'entry', None) else {}
    # (1) invariant on entry
    inv0 = interp.truth(_call_pred(interp, spec.invariant, _env_of(interp, frame, ent),
                                   proving=(label + ' invariant[entry]', {'kind': 'loop-entry'})))
    _oblige_conjuncts(st, label + ' invariant[entry]', inv0, {'kind': 'loop-entry'})
    which = st.choose(2)
    declared_fields = _havoc(interp, frame, spec, modified, 'L%s' % ordinal)
    from . import strings as _strings
    _strings.forget_dead_pieces(interp)
    inv = interp.truth(_call_pred(interp, spec.invariant, _env_of(interp, frame, ent), assumed=True))
    st.assume(inv)
    guard = interp.eval(node.test, frame)
    if which == 0:
        # (2) arbitrary iteration
        if not interp.branch(guard):
            raise PathAbort()
        dec0 = None
        if spec.decreases is not None:
            dec0 = _call_pred(interp, spec.decreases, _env_of(interp, frame, {}))
        its = _iter_positions(frame, None)
        pre_val = None
        if spec.pre is not None:
            pre_val = _call_pred(interp, spec.pre, _env_of(interp, frame, {}))
        interp.loop_frame_stack.append({'declared': declared_fields, 'born': set(), 'loop': label})
        try:
            r = interp.exec_block(node.body, frame)
        finally:
            interp.loop_frame_stack.pop()
        _check_iterators_unchanged(spec, its, frame, None)
        if spec.step is not None and (r is None or r[0] == 'continue'):
            ok = interp.truth(_call_pred(interp, spec.step, _env_of(interp, frame, {'pre': pre_val}),
                                         proving=(label + ' step', {'kind': 'loop-step'})))
            st.oblige(label + ' step', ok, {'kind': 'loop-step'})
        if r is not None and r[0] not in ('continue',):
            if r[0] == 'break':
                return None
            return r
        inv2 = interp.truth(_call_pred(interp, spec.invariant, _env_of(interp, frame, ent),
                                       proving=(label + ' invariant[preserved]', {'kind': 'loop-preserve'})))
        _oblige_conjuncts(st, label + ' invariant[preserved]', inv2, {'kind': 'loop-preserve'})
        if dec0 is not None:
            dec1 = _call_pred(interp, spec.decreases, _env_of(interp, frame, {}))
            st.oblige(label + ' variant[decreases]',
                      wrap(z3.And(to_z3(dec0) >= 0, to_z3(dec1) < to_z3(dec0))), {'kind': 'loop-variant'})
        raise PathAbort()
    # (3) exit
    if interp.branch(guard):
        raise PathAbort()
    if node.orelse:
        return interp.exec_block(node.orelse, frame)
    return None


def _while_unrolled(interp, node, frame):
    st = interp.st
    symbolic_iterations = 0
    while True:
        c = interp.truth(interp.eval(node.test, frame))
        if not isinstance(c, bool):
            symbolic_iterations += 1
            if symbolic_iterations > MAX_SYMBOLIC_UNROLL:
                raise Unsupported('while loop in %s needs an invariant (line %d)' % (frame.info.qualname, node.lineno))
        if not st.fork(c):
            break
        r = interp.exec_block(node.body, frame)
        if r is not None:
            if r[0] == 'break':
                return None
            if r[0] == 'continue':
                continue
            return r
    if node.orelse:
        return interp.exec_block(node.orelse, frame)
    return None


# =============================================================================== for

def exec_for(interp, node, frame):
    src = interp.eval(node.iter, frame)
    if isinstance(src, (SOpt, SChoice)):
        src = interp.resolve(src)
    src = models.as_siter(interp, src)
    if isinstance(src, (SList, models.SIter, models.SEnumerate)):
        return _for_symbolic(interp, node, frame, src)
    spec, ordinal = find_spec(interp, frame, node)
    if spec is not None and getattr(spec, 'force', False):
        raise Unsupported('loop spec on a concretely bounded loop')
    it = interp.iterate(src)
    while True:
        try:
            x = next(it)
        except StopIteration:
            break
        except (Unsupported, PathAbort):
            raise
        except Exception as e:
            from .interp import PyRaise
            if isinstance(e, PyRaise) or type(e).__module__.startswith('pyvc'):
                raise
            raise PyRaise(e)         # a native iterator (e.g. Path.iterdir of a concrete path) raised
        interp.assign(node.target, x, frame)
        r = interp.exec_block(node.body, frame)
        if r is not None:
            if r[0] == 'break':
                return None
            if r[0] == 'continue':
                continue
            return r
    if node.orelse:
        return interp.exec_block(node.orelse, frame)
    return None


def _for_symbolic(interp, node, frame, src):
    st = interp.st
    spec, ordinal = find_spec(interp, frame, node)
    if spec is None:
        raise Unsupported('for loop over symbolic-length sequence in %s (line %d) needs an invariant'
                          % (frame.info.qualname, node.lineno))
    fname = interp.current_function_name()
    label = '%s : loop#%s' % (fname, ordinal)
    if '.<locals>.' in frame.info.qualname and not _is_pymodel(frame.info.filename):
        # a loop of a nested function: ordinals count per function
        label = '%s : %s loop#%s' % (fname, frame.info.qualname.rpartition('.<locals>.')[2], ordinal)
    modified, _targets = _check_frame(spec, node)
    enum_start = None
    it_cell = None
    if isinstance(src, models.SEnumerate):
        enum_start = src.start
        src = src.src
    if isinstance(src, models.SIter):
        it_cell = src
        xs = src.xs
        start = to_z3(src.pos) if not isinstance(src.pos, int) else z3.IntVal(src.pos)
    else:
        xs = src
        start = z3.IntVal(0)
    n = xs.length

    entry = _call_pred(interp, spec.entry, _env_of(interp, frame, {})) if getattr(spec, 'entry', None) else None

    def env(i):
        e = {'_i': wrap(i), '_xs': xs, '_n': wrap(n), '_start': wrap(start), '_entry': entry}
        if interp.loop_index_stack:
            e['_o'] = wrap(interp.loop_index_stack[-1])      # index of the enclosing symbolic loop
        return _env_of(interp, frame, e)

    inv0 = interp.truth(_call_pred(interp, spec.invariant, env(start),
                                   proving=(label + ' invariant[entry]', {'kind': 'loop-entry'})))
    _oblige_conjuncts(st, label + ' invariant[entry]', inv0, {'kind': 'loop-entry'})
    which = st.choose(2)
    tag = 'L%s' % ordinal
    declared_fields = _havoc(interp, frame, spec, modified, tag)
    from . import strings as _strings
    _strings.forget_dead_pieces(interp)
    if which == 0:
        i = st.fresh_int('_i@' + tag)
        st.assume(z3.And(i >= start, i < n))
        if isinstance(ordinal, int):
            frame.locals['_i%d' % ordinal] = wrap(i)      # visible to invariants of inner loops
        st.assume(interp.truth(_call_pred(interp, spec.invariant, env(i), assumed=True)))
        frame.loop_index[ordinal] = wrap(i)
        x = models.slist_elem(interp, xs, i)
        if enum_start is not None:
            x = (interp.binop(ast.Add, enum_start, wrap(i - start)), x)
        if it_cell is not None:
            it_cell.pos = wrap(i + 1)
        interp.assign(node.target, x, frame)
        its = _iter_positions(frame, it_cell)
        pre_val = None
        if spec.pre is not None:
            pre_val = _call_pred(interp, spec.pre, env(i))
        interp.loop_index_stack.append(i)
        interp.loop_frame_stack.append({'declared': declared_fields, 'born': set(), 'loop': label})
        try:
            r = interp.exec_block(node.body, frame)
        finally:
            interp.loop_index_stack.pop()
            interp.loop_frame_stack.pop()
        _check_iterators_unchanged(spec, its, frame, it_cell)
        if spec.step is not None and (r is None or r[0] == 'continue'):
            e2 = env(i + 1)
            e2['pre'] = pre_val
            ok = interp.truth(_call_pred(interp, spec.step, e2, proving=(label + ' step', {'kind': 'loop-step'})))
            st.oblige(label + ' step', ok, {'kind': 'loop-step'})
        if r is not None and r[0] != 'continue':
            if it_cell is not None and it_cell.eager:
                raise Unsupported('early exit from a loop over a generator that is used through its contract '
                                  '(its items and effects are taken at the call: it must be consumed completely)')
            if r[0] == 'break':
                return None
            return r
        nxt = i + 1
        if it_cell is not None:
            # the body may itself have consumed more of the iterator (e.g. `f.writelines(lines)`)
            nxt = to_z3(it_cell.pos) if not isinstance(it_cell.pos, int) else z3.IntVal(it_cell.pos)
        inv2 = interp.truth(_call_pred(interp, spec.invariant, env(nxt),
                                       proving=(label + ' invariant[preserved]', {'kind': 'loop-preserve'})))
        _oblige_conjuncts(st, label + ' invariant[preserved]', inv2, {'kind': 'loop-preserve'})
        raise PathAbort()
    # exit: all elements consumed
    if isinstance(ordinal, int):
        frame.locals['_i%d' % ordinal] = wrap(n)
    st.assume(start <= n)
    st.assume(interp.truth(_call_pred(interp, spec.invariant, env(z3.If(start <= n, n, start)), assumed=True)))
    frame.loop_index[ordinal] = wrap(n)
    if it_cell is not None:
        it_cell.pos = wrap(n)
    if node.orelse:
        return interp.exec_block(node.orelse, frame)
    return None


def reduce_slist(interp, f, xs, initial):
    """functools.reduce over a symbolic-length sequence: interpreted from a Python model
    with a loop invariant attached to the *call site* (spec keyed on the model function)."""
    from .pymodels import functools_model
    fr, k = models._count_reduce_site(interp)
    if fr is not None:
        fr.reduce_site = k
    if initial:
        return interp.call(functools_model.reduce_with_initial, [f, xs, initial[0]], {})
    return interp.call(functools_model.reduce_no_initial, [f, xs], {})
