"""Loops: exact unrolling over concretely bounded iterables; inductive invariants
(from the sidecar) for symbolic-length sequences and `while` loops."""
import ast

try:
    import z3
except ImportError:      # replays run under the repository's interpreter, without z3
    z3 = None

from .path import PathAbort, Unsupported
from .values import SInt, SBool, SList, SOpt, SChoice, Sym, to_z3, wrap
from . import models

MAX_SYMBOLIC_UNROLL = 12


def loop_ordinal(info, node):
    m = getattr(info.node, '_pv_loop_ordinals', None)
    if m is None:
        loops = [n for n in _walk_own(info.node) if isinstance(n, (ast.For, ast.While))]
        loops.sort(key=lambda n: (n.lineno, n.col_offset))
        m = {id(n): i for i, n in enumerate(loops)}
        info.node._pv_loop_ordinals = m
    return m[id(node)]


def _walk_own(fnode):
    """Nodes of a function body, not descending into nested function definitions."""
    todo = list(fnode.body) if isinstance(fnode.body, list) else [fnode.body]
    while todo:
        n = todo.pop()
        yield n
        for c in ast.iter_child_nodes(n):
            if isinstance(c, (ast.FunctionDef, ast.AsyncFunctionDef, ast.Lambda, ast.ClassDef)):
                continue
            todo.append(c)


def find_spec(interp, frame, node):
    ordinal = loop_ordinal(frame.info, node)
    if frame.info.filename.endswith('functools_model.py'):
        # library model: the invariant belongs to the call site (the nearest repository frame)
        for fr in reversed(interp.frame_stack):
            if not fr.info.filename.endswith('functools_model.py'):
                key = 'reduce#%d' % fr.reduce_site
                spec = interp.reg.loops_by_key.get((fr.info.filename, fr.info.qualname, key))
                return spec, key
        return None, ordinal
    return interp.reg.loops_by_key.get((frame.info.filename, frame.info.qualname, ordinal)), ordinal


_MUTATORS = {'append', 'extend', 'insert', 'pop', 'add', 'update', 'clear', 'remove', 'popleft', 'appendleft',
             'write', 'writelines', 'setdefault', 'sort', 'reverse', 'discard', 'put', 'set'}


def assigned_names(body_nodes):
    names = set()
    attrs = set()
    mutated = set()
    for top in body_nodes:
        for n in ast.walk(top):
            if isinstance(n, ast.Name) and isinstance(n.ctx, (ast.Store, ast.Del)):
                names.add(n.id)
            elif isinstance(n, ast.Attribute) and isinstance(n.ctx, (ast.Store, ast.Del)):
                attrs.add(ast.unparse(n))
            elif isinstance(n, ast.Subscript) and isinstance(n.ctx, (ast.Store, ast.Del)):
                mutated.add(ast.unparse(n.value))
            elif isinstance(n, ast.Call) and isinstance(n.func, ast.Attribute) and n.func.attr in _MUTATORS:
                mutated.add(ast.unparse(n.func.value))
            elif isinstance(n, ast.AugAssign):
                if isinstance(n.target, ast.Name):
                    names.add(n.target.id)
    return names, attrs, mutated


def _call_pred(interp, pred, env, assumed=False, proving=None):
    """Call a sidecar predicate, passing the values of the names it asks for.  assumed: the caller is
    going to assume the result (Interp.call_assumed); proving=(name, meta): the caller is going to record the
    result as that obligation (Interp.call_proving)."""
    params = _param_names(pred)
    missing = [p for p in params if p not in env]
    if missing:
        raise Unsupported('loop/contract predicate asks for unknown name(s) %s' % missing)
    if assumed == 'aligned':
        return interp.call_assumed_aligned(pred, [env[p] for p in params], {})
    if assumed:
        return interp.call_assumed(pred, [env[p] for p in params], {})
    if proving is not None:
        n = len(interp.st.scopes)
        try:
            v = interp.call_proving(pred, [env[p] for p in params], proving[0], proving[1])
            # the value is recorded by the caller as the last step of the same proof: under the steps so far
            if len(interp.st.scopes) > n and isinstance(v, (SBool, bool)):
                hyp = interp.st.scopes[n:]
                v = wrap(z3.Implies(z3.And(*hyp) if len(hyp) > 1 else hyp[0], to_z3(v)))
            return v
        finally:
            del interp.st.scopes[n:]
    return interp.call(pred, [env[p] for p in params], {})


def _param_names(pred):
    from .interp import Closure
    if isinstance(pred, Closure):
        a = pred.info.node.args
        return [p.arg for p in a.posonlyargs + a.args]
    code = pred.__code__
    return list(code.co_varnames[:code.co_argcount])


def _env_of(interp, frame, extra):
    env = {}
    if interp.collect is not None:
        env['yielded'] = interp.collect[1]
    if frame.info.filename.endswith('functools_model.py'):
        # library model: the call site's names are visible to the invariant
        for fr in reversed(interp.frame_stack):
            if not fr.info.filename.endswith('functools_model.py'):
                for d in fr.enclosing:
                    env.update(d)
                env.update(fr.locals)
                break
    for d in frame.enclosing:
        env.update(d)
    env.update(frame.locals)
    env.update(interp.reg.ghost_env)
    # `trace`: the ghost events of this path (on the arbitrary-iteration path: those before the loop and those
    # of this one iteration, which is how an invariant can check the calls an iteration makes); `ghost`
    env.setdefault('trace', interp.st.trace)
    env.setdefault('ghost', interp.st.ghost)
    env.update(extra)
    return env


def _havoc(interp, frame, spec, modified_names, tag):
    from .api import MListOf as _MListOf
    for name in modified_names:
        ty = spec.modifies.get(name)
        if isinstance(ty, _MListOf):
            continue
        if ty is None:
            raise Unsupported('loop %s#%s assigns %r which is not declared in modifies'
                              % (spec.qname, spec.ordinal, name))
        if ty == 'local':      # a loop-local temporary: dead at loop head
            frame.locals.pop(name, None)
            continue
        frame.locals[name] = ty.make(interp, '%s@%s' % (name, tag))
    from .api import MListOf
    from .mlist import MList, from_concrete
    for name, ty in spec.modifies.items():
        if isinstance(ty, MListOf) and '.' not in name and not name.startswith('ghost:'):
            # a list mutated in place by the body: havoc the OBJECT (aliases see it), do not rebind
            cur = frame.locals.get(name)
            if cur is None:
                for d in reversed(frame.enclosing):
                    if name in d:
                        cur = d[name]
                        break
            if isinstance(cur, list):
                if cur:
                    m = from_concrete(interp, cur, name)
                else:
                    m = MList(interp, interp.st.fresh_name(name), ty.shape())
                # the concrete list object cannot become symbolic in place: rebind (sound only if the
                # name is the single reference; object fields must be declared as 'obj.attr')
                frame.locals[name] = m
                cur = m
            if isinstance(cur, MList):
                if cur.shape is None:
                    cur.shape = ty.shape()
                cur.havoc(interp, tag)
            elif name not in modified_names:
                raise Unsupported('modifies %r: not a list' % name)
    for name, ty in spec.modifies.items():
        if isinstance(ty, MListOf) and '.' not in name and not name.startswith('ghost:'):
            continue
        if name == 'yielded':
            if interp.collect is None:
                raise Unsupported('modifies yielded outside a generator under verification')
            ys = interp.collect[1]
            n = interp.st.fresh_int('yielded.len@%s' % tag)
            interp.st.assume(n >= 0)
            ys.length = n
            continue
        from .api import HavocBy, PDictOf
        if isinstance(ty, PDictOf):
            parts = name.split('.')
            obj = _lookup_name(frame, parts[0])
            for a in parts[1:]:
                obj = interp.getattr(obj, a)
            obj.havoc(interp, tag)
            continue
        if isinstance(ty, HavocBy):
            # an object changed in place by the body, with its own way of becoming arbitrary
            parts = name.split('.')
            obj = _lookup_name(frame, parts[0])
            for a in parts[1:]:
                obj = interp.getattr(obj, a)
            ty.fn(interp, obj)
            continue
        if name.startswith('ghost:'):
            # ghost state (interp.st.ghost) changed by models/contracts called in the body
            interp.st.ghost[name[6:]] = ty.make(interp, '%s@%s' % (name, tag))
            continue
        if name == 'yielded':
            continue
        if name not in modified_names and ty != 'local' and not name.startswith('@'):
            if '.' in name:
                # object field:  'self._x' / 'self._o.segments'
                parts = name.split('.')
                obj = frame.locals.get(parts[0])
                if obj is None:
                    raise Unsupported('modifies entry %r: unknown base' % name)
                for a in parts[1:-1]:
                    obj = interp.getattr(obj, a)
                attr = parts[-1]
                if isinstance(ty, MListOf):
                    cur = interp.getattr(obj, attr)
                    if isinstance(cur, list):
                        m = from_concrete(interp, cur, name) if cur else MList(interp, interp.st.fresh_name(name),
                                                                               ty.shape())
                        interp.setattr(obj, attr, m)
                        cur = m
                    if cur.shape is None:
                        cur.shape = ty.shape()
                    cur.havoc(interp, tag)
                    continue
                interp.setattr(obj, attr, ty.make(interp, '%s@%s' % (name, tag)))
            else:
                frame.locals[name] = ty.make(interp, '%s@%s' % (name, tag))


class LoopGuard:
    """Dynamic check of the heap part of a loop frame.  While the arbitrary iteration of a loop with an
    invariant is executed, every store to an attribute of an object that existed at the loop head, and every
    mutation of such a list / dict, must be covered by the loop's `modifies` (which is what was havocked at
    the loop head): otherwise the facts assumed after the loop about that object would be those from before
    it.  Stores are reported by Interp.note_heap_write (attribute stores, native container mutations, contract
    frames, environment models).  Objects created during the iteration are free."""

    def __init__(self, interp, frame, spec, label):
        self.label = label
        self.pre = set()
        self.keep = []
        self.allowed = set()
        roots = list(frame.locals.values())
        for d in frame.enclosing:
            roots.extend(d.values())
        roots.extend(interp.reg.ghost_env.values())
        for r in roots:
            self._reach(r, 0)
        from .api import MListOf, HavocBy
        for name, ty in spec.modifies.items():
            if name.startswith('ghost:') or name == 'yielded' or ty == 'local':
                continue
            path = name[1:] if name.startswith('@') else name
            parts = path.split('.')
            try:
                obj = _lookup_name(frame, parts[0])
                for a in parts[1:-1]:
                    obj = interp.getattr(obj, a)
            except Exception:
                continue
            if len(parts) > 1:
                self.allowed.add((id(obj), parts[-1]))
                self.keep.append(obj)
                try:
                    cur = interp.getattr(obj, parts[-1])
                except Exception:
                    cur = None
            else:
                cur = obj
            from .api import PDictOf
            from .pdict import PDict
            if isinstance(cur, PDict):
                for v in cur.values.values():
                    if v is not None:
                        self.allowed.add((id(v), '*'))
                        self.keep.append(v)
            if name.startswith('@') or isinstance(ty, (MListOf, HavocBy, PDictOf)) or isinstance(cur, (list, dict)):
                self.allowed.add((id(cur), '*'))
                self.keep.append(cur)

    def _reach(self, v, depth):
        if depth > 10 or len(self.pre) > 20000:
            return
        if isinstance(v, (int, str, bool, float, bytes, type(None), type)) or isinstance(v, Sym) and not isinstance(v, SList):
            return
        import types as _types
        if isinstance(v, (_types.FunctionType, _types.ModuleType, _types.BuiltinFunctionType, _types.MethodType)):
            return
        i = id(v)
        if i in self.pre:
            return
        self.pre.add(i)
        self.keep.append(v)
        if isinstance(v, (list, tuple, set, frozenset)):
            for x in v:
                self._reach(x, depth + 1)
        elif isinstance(v, dict):
            for x in v.values():
                self._reach(x, depth + 1)
        else:
            d = getattr(v, '__dict__', None)
            if isinstance(d, dict):
                for k, x in d.items():
                    if not (isinstance(k, str) and k.startswith('_pv_')):
                        self._reach(x, depth + 1)
                pa = d.get('_pv_attrs')
                if isinstance(pa, dict):
                    for x in pa.values():
                        self._reach(x, depth + 1)

    def check(self, interp, obj, attr):
        i = id(obj)
        if i not in self.pre:
            return
        if (i, '*') in self.allowed or (attr is not None and (i, attr) in self.allowed):
            return
        if attr is None and any(a == i for (a, _) in self.allowed):
            return
        raise Unsupported('%s: the body writes %s of a pre-existing %s object, which `modifies` does not declare'
                          % (self.label, ('attribute %r' % attr) if attr else 'the contents',
                             type(obj).__name__))


def _lookup_name(frame, name):
    if name in frame.locals:
        return frame.locals[name]
    for d in reversed(frame.enclosing):
        if name in d:
            return d[name]
    raise KeyError(name)


def _check_frame(spec, node):
    names, attrs, mutated = assigned_names(node.body + node.orelse)
    target_names = set()
    if isinstance(node, ast.For):
        for n in ast.walk(node.target):
            if isinstance(n, ast.Name):
                target_names.add(n.id)
    declared = set(spec.modifies.keys())
    for a in attrs | mutated:
        if a not in declared and ('@' + a) not in declared:
            raise Unsupported('loop %s#%s mutates %r which is not declared in modifies' % (spec.qname, spec.ordinal, a))
    return (names - target_names), target_names


# =============================================================================== while

def exec_while(interp, node, frame):
    spec, ordinal = find_spec(interp, frame, node)
    if spec is None:
        return _while_unrolled(interp, node, frame)
    st = interp.st
    fname = interp.current_function_name()
    modified, _ = _check_frame(spec, node)
    label = '%s : loop#%s' % (fname, ordinal)
    # (1) invariant on entry
    inv0 = interp.truth(_call_pred(interp, spec.invariant, _env_of(interp, frame, {}),
                                   proving=(label + ' invariant[entry]', {'kind': 'loop-entry'})))
    st.oblige(label + ' invariant[entry]', inv0, {'kind': 'loop-entry'})
    which = st.choose(2)
    _havoc(interp, frame, spec, modified, 'L%s' % ordinal)
    inv = interp.truth(_call_pred(interp, spec.invariant, _env_of(interp, frame, {}), assumed=True))
    st.assume(inv)
    guard = interp.eval(node.test, frame)
    if which == 0:
        # (2) arbitrary iteration
        if not interp.branch(guard):
            raise PathAbort()
        dec0 = None
        if spec.decreases is not None:
            dec0 = _call_pred(interp, spec.decreases, _env_of(interp, frame, {}))
        pre_val = None
        if spec.pre is not None:
            pre_val = _call_pred(interp, spec.pre, _env_of(interp, frame, {}))
        interp.loop_guards.append(LoopGuard(interp, frame, spec, label))
        try:
            r = interp.exec_block(node.body, frame)
        finally:
            interp.loop_guards.pop()
        if spec.step is not None and (r is None or r[0] == 'continue'):
            ok = interp.truth(_call_pred(interp, spec.step, _env_of(interp, frame, {'pre': pre_val}),
                                         proving=(label + ' step', {'kind': 'loop-step'})))
            st.oblige(label + ' step', ok, {'kind': 'loop-step'})
        if r is not None and r[0] not in ('continue',):
            if r[0] == 'break':
                return None
            return r
        inv2 = interp.truth(_call_pred(interp, spec.invariant, _env_of(interp, frame, {}),
                                       proving=(label + ' invariant[preserved]', {'kind': 'loop-preserve'})))
        st.oblige(label + ' invariant[preserved]', inv2, {'kind': 'loop-preserve'})
        if dec0 is not None:
            dec1 = _call_pred(interp, spec.decreases, _env_of(interp, frame, {}))
            st.oblige(label + ' variant[decreases]',
                      wrap(z3.And(to_z3(dec0) >= 0, to_z3(dec1) < to_z3(dec0))), {'kind': 'loop-variant'})
        raise PathAbort()
    # (3) exit
    if interp.branch(guard):
        raise PathAbort()
    if node.orelse:
        return interp.exec_block(node.orelse, frame)
    return None


def _while_unrolled(interp, node, frame):
    st = interp.st
    symbolic_iterations = 0
    while True:
        c = interp.truth(interp.eval(node.test, frame))
        if not isinstance(c, bool):
            symbolic_iterations += 1
            if symbolic_iterations > MAX_SYMBOLIC_UNROLL:
                raise Unsupported('while loop in %s needs an invariant (line %d)' % (frame.info.qualname, node.lineno))
        if not st.fork(c):
            break
        r = interp.exec_block(node.body, frame)
        if r is not None:
            if r[0] == 'break':
                return None
            if r[0] == 'continue':
                continue
            return r
    if node.orelse:
        return interp.exec_block(node.orelse, frame)
    return None


# =============================================================================== for

def exec_for(interp, node, frame):
    src = interp.eval(node.iter, frame)
    if isinstance(src, (SOpt, SChoice)):
        src = interp.resolve(src)
    if isinstance(src, (SList, models.SIter, models.SEnumerate)):
        return _for_symbolic(interp, node, frame, src)
    spec, ordinal = find_spec(interp, frame, node)
    if spec is not None and getattr(spec, 'force', False):
        raise Unsupported('loop spec on a concretely bounded loop')
    it = interp.iterate(src)
    while True:
        try:
            x = next(it)
        except StopIteration:
            break
        interp.assign(node.target, x, frame)
        r = interp.exec_block(node.body, frame)
        if r is not None:
            if r[0] == 'break':
                return None
            if r[0] == 'continue':
                continue
            return r
    if node.orelse:
        return interp.exec_block(node.orelse, frame)
    return None


def _for_symbolic(interp, node, frame, src):
    st = interp.st
    spec, ordinal = find_spec(interp, frame, node)
    if spec is None:
        raise Unsupported('for loop over symbolic-length sequence in %s (line %d) needs an invariant'
                          % (frame.info.qualname, node.lineno))
    fname = interp.current_function_name()
    label = '%s : loop#%s' % (fname, ordinal)
    modified, _targets = _check_frame(spec, node)
    enum_start = None
    it_cell = None
    if isinstance(src, models.SEnumerate):
        enum_start = src.start
        src = src.src
    if isinstance(src, models.SIter):
        it_cell = src
        xs = src.xs
        start = to_z3(src.pos) if not isinstance(src.pos, int) else z3.IntVal(src.pos)
    else:
        xs = src
        start = z3.IntVal(0)
    n = xs.length

    def env(i):
        return _env_of(interp, frame, {'_i': wrap(i), '_xs': xs, '_n': wrap(n), '_start': wrap(start)})

    inv0 = interp.truth(_call_pred(interp, spec.invariant, env(start),
                                   proving=(label + ' invariant[entry]', {'kind': 'loop-entry'})))
    st.oblige(label + ' invariant[entry]', inv0, {'kind': 'loop-entry'})
    which = st.choose(2)
    tag = 'L%s' % ordinal
    _havoc(interp, frame, spec, modified, tag)
    if which == 0:
        i = st.fresh_int('_i@' + tag)
        st.assume(z3.And(i >= start, i < n))
        st.assume(interp.truth(_call_pred(interp, spec.invariant, env(i), assumed=True)))
        x = models.slist_elem(interp, xs, i)
        if enum_start is not None:
            x = (interp.binop(ast.Add, enum_start, wrap(i - start)), x)
        if it_cell is not None:
            it_cell.pos = wrap(i + 1)
        interp.assign(node.target, x, frame)
        pre_val = None
        if spec.pre is not None:
            pre_val = _call_pred(interp, spec.pre, env(i))
        interp.loop_index_stack.append(i)
        interp.loop_guards.append(LoopGuard(interp, frame, spec, label))
        try:
            r = interp.exec_block(node.body, frame)
        finally:
            interp.loop_index_stack.pop()
            interp.loop_guards.pop()
        if spec.step is not None and (r is None or r[0] == 'continue'):
            e2 = env(i + 1)
            e2['pre'] = pre_val
            ok = interp.truth(_call_pred(interp, spec.step, e2, proving=(label + ' step', {'kind': 'loop-step'})))
            st.oblige(label + ' step', ok, {'kind': 'loop-step'})
        if r is not None and r[0] != 'continue':
            if r[0] == 'break':
                return None
            return r
        inv2 = interp.truth(_call_pred(interp, spec.invariant, env(i + 1),
                                       proving=(label + ' invariant[preserved]', {'kind': 'loop-preserve'})))
        st.oblige(label + ' invariant[preserved]', inv2, {'kind': 'loop-preserve'})
        raise PathAbort()
    # exit: all elements consumed
    st.assume(start <= n)
    st.assume(interp.truth(_call_pred(interp, spec.invariant, env(z3.If(start <= n, n, start)), assumed=True)))
    if it_cell is not None:
        it_cell.pos = wrap(n)
    if node.orelse:
        return interp.exec_block(node.orelse, frame)
    return None


def reduce_slist(interp, f, xs, initial):
    """functools.reduce over a symbolic-length sequence: interpreted from a Python model
    with a loop invariant attached to the *call site* (spec keyed on the model function)."""
    from .pymodels import functools_model
    fr, k = models._count_reduce_site(interp)
    if fr is not None:
        fr.reduce_site = k
    if initial:
        return interp.call(functools_model.reduce_with_initial, [f, xs, initial[0]], {})
    return interp.call(functools_model.reduce_no_initial, [f, xs], {})
