"""Cross-check of the symbolic string/builtin models against CPython (DESIGN 2.4).

For every operation and every concrete input up to a small size, the operation is executed by the
symbolic interpreter on a *symbolic* string constrained to equal the concrete input; the path
condition must (a) be consistent with the result CPython computes and (b) determine it.
Run by `pyvc.selftest` and by the thorough tier."""
import itertools
import sys
import threading

try:
    import z3
except ImportError:
    z3 = None

from .path import PathState, PathAbort, Unsupported
from .values import SStr, SInt, SBool, to_z3, wrap

ALPHABET = ['a', '\n', ' ', 'b']
# models that are deliberately weaker than CPython (uninterpreted measure, only additivity facts):
# checked for consistency only
UNDER_DETERMINED = {'count_nl'}


def _ops():
    from .pymodels import string_ops
    return [(f.__name__, f) for f in string_ops.ALL]


class _Reg:
    ghost_env = {}
    loops_by_key = {}

    def contract_for(self, f):
        return None

    def model_for(self, f):
        return None


def _flatten(v):
    if isinstance(v, (list, tuple)):
        out = []
        for x in v:
            out.extend(_flatten(x))
        return out
    return [v]


def run(max_len=3, verbose=False):
    from .interp import Interp, PyRaise
    from . import frontend
    import pyvc.modelcheck as me
    failures = []
    cases = 0
    inputs = ['']
    for n in range(1, max_len + 1):
        inputs.extend(''.join(p) for p in itertools.product(ALPHABET, repeat=n))
    for name, op in _ops():
        for text in inputs:
            cases += 1
            try:
                native = op(text)
                native_exc = None
            except Exception as e:
                native, native_exc = None, type(e)
            st = PathState([], {})
            interp = Interp(st, _Reg())
            s = SStr(st.fresh_str('s'))
            st.assume(s.t == z3.StringVal(text))
            try:
                got = interp.call(op, [s], {})
                got_exc = None
            except PyRaise as e:
                got, got_exc = None, type(e.exc)
            except Unsupported as u:
                failures.append((name, text, 'unsupported: %s' % u))
                continue
            if native_exc or got_exc:
                if native_exc is not got_exc:
                    failures.append((name, text, 'exception %r vs native %r' % (got_exc, native_exc)))
                continue
            g, n_ = _flatten(got), _flatten(native)
            if len(g) != len(n_):
                failures.append((name, text, 'shape %r vs native %r' % (got, native)))
                continue
            eqs = []
            bad = False
            for a, b in zip(g, n_):
                if isinstance(a, (SStr, SInt, SBool)):
                    eqs.append(a.t == to_z3(b))
                elif a != b:
                    bad = True
            if bad:
                failures.append((name, text, 'result %r vs native %r' % (got, native)))
                continue
            if eqs:
                goal = z3.And(*eqs)
                sol = z3.Solver()
                sol.set('timeout', 10000)
                sol.add(*st.pc)
                r1 = sol.check(goal)
                r2 = sol.check(z3.Not(goal))
                if r1 != z3.sat:
                    failures.append((name, text, 'model inconsistent with native result %r (%s)' % (native, r1)))
                elif r2 != z3.unsat and name not in UNDER_DETERMINED:
                    failures.append((name, text, 'model does not determine the native result %r (%s)' % (native, r2)))
    return cases, failures


def main():
    result = {}

    def body():
        result['r'] = run(int(sys.argv[1]) if len(sys.argv) > 1 else 3)

    threading.stack_size(256 * 1024 * 1024)
    t = threading.Thread(target=body)
    t.start()
    t.join()
    cases, failures = result['r']
    print('model cross-check against CPython: %d cases, %d failures' % (cases, len(failures)))
    for f in failures[:40]:
        print('  ', f)
    return 1 if failures else 0


if __name__ == '__main__':
    sys.exit(main())
