"""Assumed contract of `re.Pattern.match` on symbolic strings, in SMT regular-expression terms.

The pattern is NOT copied: it is read from the compiled pattern object the program uses (`p.pattern`,
`p.flags`), parsed by Python's own regex parser (`re._parser`) and transcribed node by node into a z3
regular expression.  Assumed (trusted, listed in evidence):
  * `p.match(s)` is not None  iff  some prefix of s is in the language (with a final `$`: s, or s without a
    final newline, is in it);
  * `m.end()` is the length of SOME prefix of s in the language (which one Python's backtracking search
    reports -- the first found, greedy -- is not modelled: contracts may only rely on it where the match
    length is unique, or must hold for every possible length);
  * character categories are transcribed as their ASCII parts (\\w = [A-Za-z0-9_], \\d = [0-9],
    \\s = [ \\t\\n\\r\\f\\v]): subjects containing non-ASCII letters/digits/spaces are outside the model.
Concrete subjects are matched by the real `re`.
"""
import re

try:
    import z3
except ImportError:
    z3 = None

from .api import Interface, Method, new_opaque
from .path import Unsupported
from .values import Sym, SStr, SOpt, SChoice, to_z3, wrap
from . import models

try:
    from re import _parser as sre_parse, _constants as sre
except ImportError:      # older Pythons
    import sre_parse
    import sre_constants as sre

APPROXIMATED = set()


def _chars(s):
    return z3.Union(*[z3.Re(z3.StringVal(c)) for c in s]) if len(s) > 1 else z3.Re(z3.StringVal(s))


def _all_char():
    return z3.AllChar(z3.ReSort(z3.StringSort()))


def _category(cat):
    if cat == sre.CATEGORY_WORD:
        APPROXIMATED.add('\\w')
        return z3.Union(z3.Range('a', 'z'), z3.Range('A', 'Z'), z3.Range('0', '9'), z3.Re(z3.StringVal('_')))
    if cat == sre.CATEGORY_DIGIT:
        APPROXIMATED.add('\\d')
        return z3.Range('0', '9')
    if cat == sre.CATEGORY_SPACE:
        APPROXIMATED.add('\\s')
        return _chars(' \t\n\r\f\v')
    if cat == sre.CATEGORY_NOT_WORD:
        return z3.Diff(_all_char(), _category(sre.CATEGORY_WORD))
    if cat == sre.CATEGORY_NOT_DIGIT:
        return z3.Diff(_all_char(), _category(sre.CATEGORY_DIGIT))
    if cat == sre.CATEGORY_NOT_SPACE:
        return z3.Diff(_all_char(), _category(sre.CATEGORY_SPACE))
    raise Unsupported('regex category %r' % (cat,))


def _class(items):
    negate = False
    parts = []
    for op, arg in items:
        if op == sre.NEGATE:
            negate = True
        elif op == sre.LITERAL:
            parts.append(z3.Re(z3.StringVal(chr(arg))))
        elif op == sre.RANGE:
            parts.append(z3.Range(chr(arg[0]), chr(arg[1])))
        elif op == sre.CATEGORY:
            parts.append(_category(arg))
        else:
            raise Unsupported('regex class item %r' % (op,))
    r = z3.Union(*parts) if len(parts) > 1 else parts[0]
    return z3.Diff(_all_char(), r) if negate else r


def _seq(items):
    """z3 regex of a sequence of parsed items (no anchors inside)"""
    out = []
    for op, arg in items:
        if op == sre.LITERAL:
            out.append(z3.Re(z3.StringVal(chr(arg))))
        elif op == sre.NOT_LITERAL:
            out.append(z3.Diff(_all_char(), z3.Re(z3.StringVal(chr(arg)))))
        elif op == sre.ANY:
            out.append(z3.Diff(_all_char(), z3.Re(z3.StringVal('\n'))))
        elif op == sre.IN:
            out.append(_class(arg))
        elif op in (sre.MAX_REPEAT, sre.MIN_REPEAT):
            lo, hi, sub = arg
            r = _seq(list(sub))
            if lo == 0 and hi == sre.MAXREPEAT:
                out.append(z3.Star(r))
            elif lo == 1 and hi == sre.MAXREPEAT:
                out.append(z3.Plus(r))
            elif lo == 0 and hi == 1:
                out.append(z3.Option(r))
            elif hi == sre.MAXREPEAT:
                out.append(z3.Concat(z3.Loop(r, lo, lo), z3.Star(r)))
            else:
                out.append(z3.Loop(r, lo, hi))
        elif op == sre.BRANCH:
            alts = [_seq(list(a)) for a in arg[1]]
            out.append(z3.Union(*alts) if len(alts) > 1 else alts[0])
        elif op == sre.SUBPATTERN:
            out.append(_seq(list(arg[-1])))
        elif op == sre.CATEGORY:
            out.append(_category(arg))
        else:
            raise Unsupported('regex construct %r is not transcribed' % (op,))
    if not out:
        return z3.Re(z3.StringVal(''))
    if len(out) == 1:
        return out[0]
    return z3.Concat(*out)


def _first_chars(items):
    """the set of characters a match of the items can start with, or None when that is not a finite explicit
    set (or the items can match the empty string)"""
    if not items:
        return None
    op, arg = items[0]
    if op == sre.LITERAL:
        return {chr(arg)}
    if op == sre.IN:
        out = set()
        for o, a in arg:
            if o == sre.LITERAL:
                out.add(chr(a))
            elif o == sre.RANGE and a[1] - a[0] < 256:
                out.update(chr(c) for c in range(a[0], a[1] + 1))
            else:
                return None
        return out
    if op == sre.BRANCH:
        out = set()
        for alt in arg[1]:
            f = _first_chars(list(alt))
            if f is None:
                return None
            out |= f
        return out
    if op == sre.SUBPATTERN:
        return _first_chars(list(arg[-1]) + items[1:])
    return None


def leading_class_star(pattern):
    """A pattern  C* X  with C an explicit set of characters and X either empty or starting with a character
    outside C:  s matches  iff  s.lstrip(C) matches X  (the greedy star takes exactly the leading C-characters;
    no shorter choice can help because X cannot start with one of them).  Returns (C, items of X, anchor)."""
    if not isinstance(pattern.pattern, str) or pattern.flags & ~re.UNICODE:
        return None
    items = list(sre_parse.parse(pattern.pattern, pattern.flags))
    anchor = None
    if items and items[-1][0] == sre.AT and items[-1][1] == sre.AT_END:
        anchor = '$'
        items = items[:-1]
    if not items or items[0][0] != sre.MAX_REPEAT:
        return None
    lo, hi, sub = items[0][1]
    if lo != 0 or hi != sre.MAXREPEAT or len(sub) != 1:
        return None
    cls = _first_chars(list(sub))
    if not cls or (anchor == '$' and '\n' in cls):
        return None
    rest = items[1:]
    if any(op == sre.AT for op, _ in rest):
        return None
    if rest:
        f = _first_chars(rest)
        if f is None or f & cls:
            return None
    return ''.join(sorted(cls)), rest, anchor


_CACHE = {}


def transcribe(pattern):
    """(z3 regex of the pattern body, end anchor: None | '$' | '\\Z')"""
    key = (pattern.pattern, pattern.flags)
    r = _CACHE.get(key)
    if r is not None:
        return r
    if not isinstance(pattern.pattern, str):
        raise Unsupported('bytes regex')
    if pattern.flags & (re.IGNORECASE | re.MULTILINE | re.DOTALL | re.VERBOSE | re.ASCII | re.LOCALE):
        raise Unsupported('regex flags %r are not transcribed' % (pattern.flags,))
    items = list(sre_parse.parse(pattern.pattern, pattern.flags))
    anchor = None
    if items and items[0][0] == sre.AT and items[0][1] in (sre.AT_BEGINNING, sre.AT_BEGINNING_STRING):
        items = items[1:]
    if items and items[-1][0] == sre.AT:
        if items[-1][1] == sre.AT_END:
            anchor = '$'
        elif items[-1][1] == sre.AT_END_STRING:
            anchor = '\\Z'
        else:
            raise Unsupported('regex anchor')
        items = items[:-1]
    for op, arg in items:
        if op == sre.AT:
            raise Unsupported('regex anchor inside the pattern')
    r = (_seq(items), anchor)
    _CACHE[key] = r
    return r


def _full(body, anchor):
    """language of the subjects that match"""
    any_star = z3.Full(z3.ReSort(z3.StringSort()))
    if anchor is None:
        return z3.Concat(body, any_star)
    if anchor == '$':
        return z3.Concat(body, z3.Option(z3.Re(z3.StringVal('\n'))))
    return body


def _match_end(interp, self, args, kwargs):
    if args and not (isinstance(args[0], int) and args[0] == 0):
        raise Unsupported('match.end(group)')
    g = self._pv_ghost
    if 'end' in g:
        return g['end']
    from . import strings
    st = interp.st
    t, body, anchor = g['subject'], g['body'], g['anchor']
    m, rest = strings.decompose(interp, t, [None, None], 'match')
    st.assume(z3.InRe(m, body))
    if anchor == '$':
        st.assume(z3.Or(rest == z3.StringVal(''), rest == z3.StringVal('\n')))
    elif anchor == '\\Z':
        st.assume(rest == z3.StringVal(''))
    off = g.get('offset', 0)
    g['end'] = wrap(z3.Length(m) + to_z3(off)) if not (isinstance(off, int) and off == 0) else wrap(z3.Length(m))
    g['matched'] = wrap(m)
    return g['end']


def _match_start(interp, self, args, kwargs):
    return 0


def _match_group(interp, self, args, kwargs):
    if args and not (isinstance(args[0], int) and args[0] == 0):
        raise Unsupported('match.group(n)')
    if 'offset' in self._pv_ghost:
        raise Unsupported('match.group() of a pattern with a leading class star')
    _match_end(interp, self, [], {})
    return self._pv_ghost['matched']


class MatchI(Interface):
    """the result of a successful Pattern.match"""
    methods = {'end': Method(model=_match_end), 'start': Method(model=_match_start),
               'group': Method(model=_match_group)}


@models.method_model(re.Pattern, 'match')
def m_pattern_match(interp, self, args, kwargs):
    s = args[0] if args else kwargs.get('string')
    if isinstance(s, (SOpt, SChoice)):
        s = interp.resolve(s)
    if len(args) > 1 or (kwargs and set(kwargs) - {'string'}):
        raise Unsupported('Pattern.match with pos / endpos')
    if isinstance(s, str):
        return self.match(s)
    if not isinstance(s, SStr):
        from .interp import PyRaise
        raise PyRaise(TypeError('expected string or bytes-like object'))
    interp.st.used_models.add('re.Pattern.match[%r]' % self.pattern)
    from . import strings
    t = to_z3(s)
    lead = leading_class_star(self)
    if lead is not None:
        # C* X : strip the leading C-characters, match X on the rest
        chars, rest_items, anchor = lead
        r = strings._strip(interp, s, chars, True, False)
        rt = to_z3(r)
        if len(rest_items) == 1 and rest_items[0][0] == sre.LITERAL and anchor is None:
            ok = strings.call_method(interp, r if isinstance(r, SStr) else SStr(rt), 'startswith',
                                     [chr(rest_items[0][1])], {})
            if not interp.st.fork(ok if not isinstance(ok, bool) else ok):
                return None
            cond = True
        else:
            cond = wrap(z3.InRe(rt, _full(_seq(rest_items), anchor)))
        o = new_opaque(interp, MatchI, 'match')
        o._pv_ghost.update(subject=rt, body=_seq(rest_items), anchor=anchor,
                           offset=wrap(z3.Length(t) - z3.Length(rt)))
        if cond is True:
            return o
        if cond is False:
            return None
        return SOpt(z3.Not(cond.t), o)
    body, anchor = transcribe(self)
    # an optional match object: `m is None` / `if m:` are terms, no case split unless the match is used
    cond = wrap(z3.InRe(t, _full(body, anchor)))
    o = new_opaque(interp, MatchI, 'match')
    o._pv_ghost.update(subject=t, body=body, anchor=anchor)
    if cond is True:
        return o
    if cond is False:
        return None
    return SOpt(z3.Not(cond.t), o)


@models.method_model(re.Pattern, 'fullmatch')
def m_pattern_fullmatch(interp, self, args, kwargs):
    """assumed: p.fullmatch(s) is not None iff s is in the language of the pattern (only the truth of the
    result is modelled)"""
    s = args[0] if args else kwargs.get('string')
    if isinstance(s, (SOpt, SChoice)):
        s = interp.resolve(s)
    if len(args) > 1 or (kwargs and set(kwargs) - {'string'}):
        raise Unsupported('Pattern.fullmatch with pos / endpos')
    if isinstance(s, str):
        return self.fullmatch(s)
    if not isinstance(s, SStr):
        from .interp import PyRaise
        raise PyRaise(TypeError('expected string or bytes-like object'))
    body, anchor = transcribe(self)
    interp.st.used_models.add('re.Pattern.fullmatch[%r]' % self.pattern)
    cond = wrap(z3.InRe(to_z3(s), body))
    o = new_opaque(interp, Interface, 'fullmatch')
    if cond is True:
        return o
    if cond is False:
        return None
    return SOpt(z3.Not(cond.t), o)


def language_of(pattern):
    """z3 regex of the subjects `pattern.match` accepts (for spec functions)"""
    body, anchor = transcribe(pattern)
    return _full(body, anchor)
