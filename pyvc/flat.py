"""Concatenation of a sequence of sequences (flat-map) over a symbolic-length sequence: the offset measure.

`flat_offset(xs, k, piece, *extra)` (contracts/common.py) = len(piece(xs[0], *extra)) + ... + len(piece(xs[k-1], *extra)):
the position at which the piece of element k starts in the concatenation of the pieces.  In proofs it is the value
O(k) of an uninterpreted prefix function per (sequence, piece function, extra arguments), like `sum_prefix`
(pyvc.models._prefix_fun), with
  * O(0) = 0,
  * the defining equation unfolded at the index asked for, on both sides:
      O(k) = O(k-1) + len(piece(xs[k-1]))   where 0 < k <= len(xs)
      O(k+1) = O(k) + len(piece(xs[k]))     where 0 <= k < len(xs)      (piece k occupies [O(k), O(k+1)))
    (inside a quantifier body these become universally quantified facts, as everything learned there),
  * the consequence of the definition by induction on b - a (lengths are non-negative) -- a LEMMA, stated once
    per function:     0 <= a <= b <= len(xs)  ->  O(a) <= O(b)                   (pieces follow each other in order).
    It is proved once and for all, by the engine itself, for an arbitrary sequence and an arbitrary pure piece function
    as the loop invariant of `contracts.T00_engine:lemma_flat_offsets_monotone` (selftest module T00), from the
    defining equations only.
Sound for sequences that only grow at the end and for `piece` functions that are pure (functions of the element and
the extra arguments): `piece` is called through the interpreter on the element, so an impure one (ghost events, a
non-pure interface method) gives unrelated fresh results at different indices and nothing can be proved with it.

`is_flat_concat` itself is an ordinary spec predicate (contracts/common.py) written with `forall_range` over this
measure; there is no model for it."""
import types

try:
    import z3
except ImportError:      # replays run under the repository's interpreter, without z3
    z3 = None

from .path import Unsupported
from .values import SInt, SBool, SStr, SOpt, SChoice, SList, Opaque, to_z3, wrap


def _length_of(interp, v):
    if isinstance(v, (SOpt, SChoice)):
        v = interp.resolve(v)
    if isinstance(v, SList):
        return v.length
    if isinstance(v, (list, tuple)):
        return z3.IntVal(len(v))
    n = interp.call(len, [v], {})
    if not isinstance(n, (int, SInt)) or isinstance(n, bool):
        raise Unsupported('flat_offset: the piece has no integer length')
    return to_z3(n)


def q_flat_offset(interp, args, kwargs):
    from .models import slist_elem
    xs, k, piece = args[:3]
    extra = list(args[3:])
    st = interp.st
    if isinstance(xs, (SOpt, SChoice)):
        xs = interp.resolve(xs)
    if isinstance(k, (SOpt, SChoice)):
        k = interp.resolve(k)

    def length_at(x):
        return _length_of(interp, interp.call(piece, [x] + extra, {}))

    if not isinstance(xs, SList):
        if not isinstance(k, int):
            raise Unsupported('flat_offset over a concrete sequence with symbolic bound')
        acc = z3.IntVal(0)
        for x in list(interp.iterate(xs))[:k]:
            acc = acc + length_at(x)
        return wrap(z3.simplify(acc))
    if not isinstance(piece, types.FunctionType) or piece.__closure__:
        raise Unsupported('flat_offset needs a module-level piece function (no lambda/closure)')
    base, idx = xs.ident if xs.ident is not None else (xs.uid, ())
    name = 'flat<%s|%s.%s>' % (base, piece.__module__, piece.__qualname__)
    idx = list(idx)
    for e in extra:
        if isinstance(e, (SOpt, SChoice)):
            e = interp.resolve(e)
        if isinstance(e, (SInt, SBool, SStr, int, str, bool)):
            idx.append(to_z3(e))
        elif isinstance(e, Opaque):
            name += '|' + e._pv_uid
            idx.extend(e._pv_index)
        else:
            raise Unsupported('flat_offset: extra argument %r (scalars and opaque objects only)' % (e,))
    fn = z3.Function(name, *([x.sort() for x in idx] + [z3.IntSort(), z3.IntSort()]))
    O = lambda t: fn(*(idx + [t]))
    kt = to_z3(k)
    n = xs.length
    st.assume(O(z3.IntVal(0)) == 0)
    if not (isinstance(k, int) and k <= 0):
        with st.scope(z3.And(kt > 0, kt <= n)):
            if not st.infeasible_site():
                ln = length_at(slist_elem(interp, xs, z3.simplify(kt - 1)))
                st.assume(z3.And(ln >= 0, O(kt) == O(kt - 1) + ln))
    with st.scope(z3.And(kt >= 0, kt < n)):
        if not st.infeasible_site():
            ln = length_at(slist_elem(interp, xs, z3.simplify(kt)))
            st.assume(z3.And(ln >= 0, O(kt + 1) == O(kt) + ln))
    lemma_key = ('flat-offsets-monotone', name)
    if lemma_key not in st.ghost and 'lemma_flat_offsets_monotone' not in interp.current_function_name():
        st.ghost[lemma_key] = True
        a, b = z3.Int(name + '!a'), z3.Int(name + '!b')
        st._add(z3.ForAll([a, b], z3.Implies(z3.And(0 <= a, a <= b, b <= n), O(a) <= O(b)),
                          patterns=[z3.MultiPattern(O(a), O(b))]))
    return wrap(O(kt))
