"""The contract language used by the sidecar modules in /verif/contracts.

Contracts are keyed by the qualified name of the real function ('pkg.mod:Class.method').
Clauses are ordinary Python predicates (interpreted symbolically for the proof, executed
natively in replays).
"""
import enum
import inspect
import types

try:
    import z3
except ImportError:      # replays run under the repository's interpreter, without z3
    z3 = None

from . import frontend
from .path import Unsupported, PathAbort
from .values import SInt, SBool, SStr, SOpt, SChoice, SList, Opaque, OpaqueVal, Sym, to_z3, wrap


# ============================================================================ type descriptors

class NoConcrete(Exception):
    pass


class ConcreteCtx:
    """Mirror of PathState's naming, reading values from a counter-model."""

    def __init__(self, model):
        self.model = model
        self.counters = {}
        self.trace = []            # ghost events recorded by stub objects during a native replay

    def fresh_name(self, base):
        n = self.counters.get(base, 0)
        self.counters[base] = n + 1
        return base if n == 0 else '%s!%d' % (base, n)

    def get(self, name, default, n=None):
        """value of constant `name` in the model; n: the value is an index below n"""
        if name in self.model:
            v = self.model[name]
            if not (isinstance(v, dict) and '__fn__' in v):
                return v
        # an attribute of element k of a symbolic sequence is a function of the index in the model:
        # 'xs[3].attr'  ->  the interpretation of 'xs[].attr' at 3
        import re as _re
        idx = [int(k) for k in _re.findall(r'\[(\d+)\]', name)]
        if idx:
            fn = self.model.get(_re.sub(r'\[\d+\]', '[]', name))
            if isinstance(fn, dict) and '__fn__' in fn:
                for args, value in fn['__fn__']:
                    if list(args) == idx or list(args) == idx[-len(args):]:
                        return value if not isinstance(value, str) or isinstance(default, str) else default
                v = fn.get('else', default)
                return v if not isinstance(v, str) or isinstance(default, str) else default
        return default


class RandomCtx(ConcreteCtx):
    """Concrete values chosen at random (seeded): used for the CPython cross-check of the interpreter."""

    def __init__(self, rnd):
        ConcreteCtx.__init__(self, {})
        self.rnd = rnd

    def get(self, name, default, n=None):
        if name in self.model:
            return self.model[name]
        r = self.rnd
        if n is not None:
            v = r.randrange(n)
        elif isinstance(default, bool):
            v = r.random() < 0.5
        elif isinstance(default, int):
            v = r.choice([-2, -1, 0, 1, 2, 3, 5, 10]) if default == 0 else default + r.choice([0, 1, 2, 7])
        elif isinstance(default, str):
            v = ''.join(r.choice(['a', 'b', ' ', '\n', '@', '[', ']', "'", '"', '#', 'é'])
                        for _ in range(r.randrange(0, 6)))
        else:
            v = default
        self.model[name] = v
        return v


class Ty:
    """Describes how to create an arbitrary ('havoc') value of some shape."""

    def make(self, interp, name):
        raise NotImplementedError

    def concrete(self, cx, name):
        """The concrete Python value this shape has in a counter-model (for replays)."""
        raise NoConcrete('%s has no concrete reconstruction' % type(self).__name__)

    def __call__(self, *a, **k):
        raise TypeError('type descriptor is not callable')


class _Int(Ty):
    def __init__(self, lo=None, hi=None):
        self.lo, self.hi = lo, hi

    def make(self, interp, name):
        t = interp.st.fresh_int(name)
        if self.lo is not None:
            interp.st.assume(t >= self.lo)
        if self.hi is not None:
            interp.st.assume(t <= self.hi)
        return SInt(t)

    def concrete(self, cx, name):
        d = self.lo if self.lo is not None else (self.hi if self.hi is not None and self.hi < 0 else 0)
        return cx.get(cx.fresh_name(name), d)


Int = _Int()
Nat = _Int(lo=0)
Pos = _Int(lo=1)


def IntRange(lo, hi):
    return _Int(lo, hi)


class _Bool(Ty):
    def make(self, interp, name):
        return SBool(interp.st.fresh_bool(name))

    def concrete(self, cx, name):
        return bool(cx.get(cx.fresh_name(name), False))


Bool = _Bool()


class _Str(Ty):
    def make(self, interp, name):
        return SStr(interp.st.fresh_str(name))

    def concrete(self, cx, name):
        return cx.get(cx.fresh_name(name), '')


Str = _Str()


class Opt(Ty):
    def __init__(self, inner):
        self.inner = inner

    def make(self, interp, name):
        return SOpt(interp.st.fresh_bool(name + '.is_none'), self.inner.make(interp, name))

    def concrete(self, cx, name):
        isn = cx.get(cx.fresh_name(name + '.is_none'), False)
        v = self.inner.concrete(cx, name)
        return None if isn else v


class Const(Ty):
    def __init__(self, value):
        self.value = value

    def make(self, interp, name):
        return self.value

    def concrete(self, cx, name):
        return self.value


class OneOf(Ty):
    """One of finitely many concrete values (e.g. enum members)."""

    def __init__(self, *values):
        self.values = list(values)

    def make(self, interp, name):
        if len(self.values) == 1:
            return self.values[0]
        idx = interp.st.fresh_int(name + '.idx')
        interp.st.assume(z3.And(idx >= 0, idx < len(self.values)))
        return SChoice(idx, self.values)

    def concrete(self, cx, name):
        if len(self.values) == 1:
            return self.values[0]
        return self.values[cx.get(cx.fresh_name(name + '.idx'), 0, len(self.values))]


def EnumOf(cls, *extra):
    return OneOf(*(list(cls) + list(extra)))


class Union(Ty):
    """One of several shapes: decided by a case split when the value is created."""

    def __init__(self, *alts):
        self.alts = alts

    def make(self, interp, name):
        i = interp.st.choose(len(self.alts))
        # make the chosen alternative visible in counter-models
        interp.st.assume(interp.st.fresh_int(name + '.alt') == i)
        return self.alts[i].make(interp, name)

    def concrete(self, cx, name):
        i = cx.get(cx.fresh_name(name + '.alt'), 0, len(self.alts))
        return self.alts[i].concrete(cx, name)


def _bare_instance(cls):
    try:
        return object.__new__(cls)
    except TypeError:          # a base class implemented in C (e.g. io.TextIOBase) has its own __new__
        return cls.__new__(cls)


class Inst(Ty):
    """A real instance of class ``cls`` with the given (already mangled) instance attributes."""

    def __init__(self, cls, _invariant=None, _tuple=None, **fields):
        self.cls = cls
        self.fields = fields
        self.invariant = _invariant
        self.tuple_items = _tuple

    def make(self, interp, name):
        cls = self.cls
        if self.tuple_items is not None:
            obj = tuple.__new__(cls, [t.make(interp, '%s[%d]' % (name, i)) for i, t in enumerate(self.tuple_items)])
        elif issubclass(cls, BaseException):
            obj = cls.__new__(cls)
        else:
            obj = _bare_instance(cls)
        for k, t in self.fields.items():
            v = t.make(interp, '%s.%s' % (name, k)) if isinstance(t, Ty) else t
            object.__setattr__(obj, k, v)
        if hasattr(interp, 'note_new_object'):
            interp.note_new_object(obj)
        if self.invariant is not None:
            interp.st.assume(interp.truth(interp.call(self.invariant, [obj], {})))
        return obj

    def concrete(self, cx, name):
        cls = self.cls
        if self.tuple_items is not None:
            obj = tuple.__new__(cls, [t.concrete(cx, '%s[%d]' % (name, i)) for i, t in enumerate(self.tuple_items)])
        elif issubclass(cls, BaseException):
            obj = cls.__new__(cls)
        else:
            obj = _bare_instance(cls)
        for k, t in self.fields.items():
            v = t.concrete(cx, '%s.%s' % (name, k)) if isinstance(t, Ty) else t
            object.__setattr__(obj, k, v)
        return obj


class Iface(Ty):
    def __init__(self, iface):
        self.iface = iface

    def resolved(self):
        return self.iface() if isinstance(self.iface, types.FunctionType) else self.iface

    def make(self, interp, name):
        iface = self.iface() if isinstance(self.iface, types.FunctionType) else self.iface
        return new_opaque(interp, iface, name)

    def concrete(self, cx, name):
        from . import replaylib
        iface = self.iface() if isinstance(self.iface, types.FunctionType) else self.iface
        return replaylib.make_stub(cx, iface, cx.fresh_name(name))


class Involution(Iface):
    """An attribute whose own attribute of the same name leads back to the owner
    (x.inversion.inversion has the view of x): to be proved of each implementing class."""

    def __init__(self, iface, attr):
        Iface.__init__(self, iface)
        self.attr = attr

    def make_attr(self, interp, name, owner, index=()):
        iface = self.iface() if isinstance(self.iface, types.FunctionType) else self.iface
        o = new_opaque(interp, iface, name, index=index, preset={self.attr: owner})
        return o


class ListOf(Ty):
    """Sequence of symbolic length whose elements have shape ``elem``."""

    def __init__(self, elem, min_len=0):
        self.elem = elem
        self.min_len = min_len

    def make(self, interp, name):
        st = interp.st
        n = st.fresh_int(name + '.len')
        st.assume(n >= self.min_len)
        uid = st.fresh_name(name)
        elem_ty = self.elem

        def elem(interp2, idx_term, uid=uid):
            return make_indexed(interp2, elem_ty, uid, idx_term)

        xs = SList(n, elem, uid, ident=(uid, ()))
        xs.elem_ty = elem_ty
        return xs

    def concrete(self, cx, name):
        n = cx.get(cx.fresh_name(name + '.len'), self.min_len, None)
        if isinstance(cx, RandomCtx):
            n = self.min_len + abs(n) % 4
        n = max(self.min_len, min(int(n), 6))
        return [self.elem.concrete(cx, '%s[%d]' % (name, i)) for i in range(n)]


class MapOf(Ty):
    """dict with symbolic contents (unbounded): keys of shape ``key`` (Str / Int), values of shape ``val``
    (Str / Int / Bool, or ``Iface`` of a by-id interface).  Supports in, [], []=, del, get, pop,
    setdefault, update, copy, dict(d), copy.copy(d), ==, clear, len (cardinality), ``Opt(...)`` values, items() as the
    source of a key- and value-preserving dict comprehension; not iteration.
    Opaque keys: objects whose interface names the attribute that decides their equality (``map_key``).
    A value shape without scalar sort (``Any_``, an interface that is not by-id; default) means that the
    values are not tracked: only the key set is symbolic, a read gives an arbitrary value of that shape."""

    def __init__(self, key, val=None, key_object=None):
        self.key = key
        self.val = val
        # key_object(interp, key term) -> the object a key is handed out as by `items()` (opaque keys)
        self.key_object = key_object

    def make(self, interp, name):
        from . import models
        m = models.new_smap(interp, name, self.key, self.val)
        m.key_object = self.key_object
        return m


class Derived:
    """Interface attribute computed from the object by a sidecar function (interpreted on every read),
    e.g. a property of the real class that only combines other attributes."""

    def __init__(self, fn):
        self.fn = fn


class MListOf(Ty):
    """A *mutable* list of symbolic length whose elements are ints / bools / strings, tuples of these, optional
    values, indexed opaque objects (`RefTo`), opaque objects with an `mlist_codec`, or records (`Inst`) of these
    (pyvc.mlist.MList): results accumulated in loops, out-parameters.  In `M.loop(... modifies=...)` the
    list is havocked in place."""

    def __init__(self, elem, deque=False):
        self.elem = elem
        self.deque = deque      # a collections.deque (without maxlen): additionally popleft / appendleft

    def shape(self):
        return _mshape(self.elem)

    def make(self, interp, name):
        from .mlist import MList
        m = MList(interp, interp.st.fresh_name(name), self.shape())
        n = interp.st.fresh_int(name + '.len')
        interp.st.assume(n >= 0)
        m.length = n
        m.is_deque = self.deque
        m.new_base()
        return m

    def concrete(self, cx, name):
        return ListOf(self.elem).concrete(cx, name)


class RefTo(Ty):
    """Element type for MListOf: an opaque object that is a function of `arity` integer index terms -- an element
    of the symbolic sequence of interface objects whose uid is `uid[:-2]` (uid ends in '[]'), or the structured
    result of a pure interface method ('<object uid>.<method>()')."""

    def __init__(self, iface, uid, arity=1):
        self.iface, self.uid, self.arity = iface, uid, arity


def _mshape(ty):
    if isinstance(ty, FixedList):
        return ('tuple', tuple(_mshape(t) for t in ty.elems))
    if isinstance(ty, Opt):
        return ('opt', _mshape(ty.inner))
    if isinstance(ty, RefTo):
        return ('ref', ty.iface, ty.uid, ty.arity)
    if isinstance(ty, Iface):
        iface = ty.iface() if isinstance(ty.iface, types.FunctionType) else ty.iface
        if getattr(iface, 'mlist_codec', None) is not None:
            return ('codec', iface)
    if isinstance(ty, Inst):
        return ('inst', ty.cls, tuple((k, _mshape(t)) for k, t in ty.fields.items()))
    if isinstance(ty, _Int):
        return ('int',)
    if isinstance(ty, _Bool):
        return ('bool',)
    if isinstance(ty, _Str):
        return ('str',)
    if isinstance(ty, Iface):
        from .mlist import record_shape
        iface = ty.iface() if isinstance(ty.iface, types.FunctionType) else ty.iface
        return record_shape(iface)
    if isinstance(ty, Opaq):
        return ('obj',)      # arbitrary objects, by handle (pyvc.mlist.handle_of)
    raise Unsupported('MListOf element type %r' % (ty,))


class Measure:
    """A left fold over a list, usable in clauses and loop invariants:
        h([]) == init,   h(xs + [x]) == step(h(xs), x, *params)        (h(xs, *params) to apply it)
    Natively it is computed.  In proofs it is computed on lists built by the code; on an `MListOf` list it
    is a ghost value of the list: unknown (of shape ``shape``) when the list is havocked at a loop head or
    comes out of a contract, and updated by `step` at every append / extend the code performs."""

    def __init__(self, name, init, step, shape):
        self.name = name
        self.init = init
        self.step = step
        self.shape = shape

    def __call__(self, xs, *params):
        acc = self.init
        for x in xs:
            acc = self.step(acc, x, *params)
        return acc

    def __repr__(self):
        return '<Measure %s>' % self.name


class PDictOf(Ty):
    """A dictionary over a fixed universe of concrete keys with symbolic presence (pyvc.pdict.PDict); values
    of shape `value` (MListOf(...)).  In loop frames it is havocked in place."""

    def __init__(self, universe, value):
        self.universe = tuple(universe)
        self.value = value

    def make(self, interp, name):
        from .pdict import PDict
        d = PDict(interp, interp.st.fresh_name(name), self.universe, self.value)
        d.havoc(interp, 'in')
        return d

    def havoc_in_place(self, interp, obj, tag):
        obj.havoc(interp, tag)


class IterOf(Ty):
    """An iterator over a sequence of symbolic length (e.g. the lines of a file), positioned at its start.
    In clauses: `it.xs` is the underlying sequence, `it.pos` the number of items consumed so far."""

    def __init__(self, elem, at_start=True, min_len=0):
        self.elem = elem
        self.at_start = at_start      # False: an arbitrary number of items has been consumed already
        self.min_len = min_len

    def make(self, interp, name):
        from .models import SIter
        xs = ListOf(self.elem, self.min_len).make(interp, name)
        if self.at_start:
            return SIter(xs, 0)
        p = interp.st.fresh_int(name + '.pos')
        interp.st.assume(z3.And(p >= 0, p <= xs.length))
        return SIter(xs, SInt(p))

    def concrete(self, cx, name):
        return iter(ListOf(self.elem).concrete(cx, name))


class FixedList(Ty):
    def __init__(self, *elems, as_tuple=False):
        self.elems = elems
        self.as_tuple = as_tuple

    def make(self, interp, name):
        vals = [t.make(interp, '%s[%d]' % (name, i)) for i, t in enumerate(self.elems)]
        return tuple(vals) if self.as_tuple else vals

    def concrete(self, cx, name):
        vals = [t.concrete(cx, '%s[%d]' % (name, i)) for i, t in enumerate(self.elems)]
        return tuple(vals) if self.as_tuple else vals


class CtxOf(Ty):
    """The result of an `@contextmanager` generator function used through its contract: yields one value."""

    def __init__(self, inner):
        self.inner = inner

    def make(self, interp, name):
        from .interp import GenObj
        v = self.inner.make(interp, name) if isinstance(self.inner, Ty) else self.inner

        def runner(gen):
            gen.do_yield(v)
            return None

        return GenObj(interp, runner, name)


class FixedDict(Ty):
    """A concrete dict with exactly the given (concrete) keys; the values have the given shapes."""

    def __init__(self, **fields):
        self.fields = fields

    def make(self, interp, name):
        return {k: t.make(interp, '%s[%s]' % (name, k)) for k, t in self.fields.items()}

    def concrete(self, cx, name):
        return {k: t.concrete(cx, '%s[%s]' % (name, k)) for k, t in self.fields.items()}


class Opaq(Ty):
    """A value about which nothing is known and on which nothing is done (passed through)."""

    def make(self, interp, name):
        return OpaqueVal(interp.st.fresh_name(name))

    def concrete(self, cx, name):
        return _Anything(cx.fresh_name(name))


class _Anything:
    def __init__(self, name):
        self.name = name

    def __repr__(self):
        return '<any %s>' % self.name


Any_ = Opaq()


class Custom(Ty):
    def __init__(self, fn, concrete=None):
        self.fn = fn
        self.concrete_fn = concrete

    def make(self, interp, name):
        return self.fn(interp, name)

    def concrete(self, cx, name):
        if self.concrete_fn is None:
            raise NoConcrete('Custom shape without a concrete reconstruction')
        return self.concrete_fn(cx, name)


class Dependent(Ty):
    """Shape of a result (or of a raised exception) that is built from the arguments of the call:
    ``fn(interp, name, env)`` with ``env`` = parameters and ghosts by name.  Only meaningful where a
    contract is *used* (call sites); e.g. a result object that carries one of the arguments."""

    def __init__(self, fn):
        self.fn = fn

    def make(self, interp, name):
        raise Unsupported('Dependent shape outside a call site')

    def make_for_call(self, interp, name, env):
        return self.fn(interp, name, env)


class InPlace:
    """`modifies` entry for an object whose (ghost) fields a loop body changes through method calls:
    the named fields are havocked in place, the object identity is kept."""

    def __init__(self, **fields):
        self.fields = fields

    def havoc_in_place(self, interp, obj, tag):
        from .values import Opaque
        for k, ty in self.fields.items():
            v = ty.make(interp, '%s.%s' % (tag, k)) if isinstance(ty, Ty) else ty
            if isinstance(obj, Opaque):
                obj._pv_ghost[k] = v
            else:
                interp.setattr(obj, k, v)


class InPlaceBy:
    """`modifies` entry: the object is havocked in place by fn(interp, obj, tag) (engine API).
    whole=True: fn makes the whole object arbitrary, so a loop body may store to any of its fields."""

    def __init__(self, fn, whole=False):
        self.fn = fn
        self.whole = whole

    def havoc_in_place(self, interp, obj, tag):
        self.fn(interp, obj, tag)


def make_indexed(interp, ty, uid, idx_term, prefix=()):
    """Element of an SList at a symbolic index: scalar fields become applications of
    uninterpreted functions to the index, so equal indices give equal elements.
    ``prefix``: index terms of the owner when the list is itself an attribute of an indexed object."""
    st = interp.st
    idx = tuple(prefix) + (idx_term,)
    sorts = [x.sort() if hasattr(x, "sort") else z3.IntSort() for x in idx]
    if isinstance(ty, _Int):
        f = z3.Function(uid + '[]', *(sorts + [z3.IntSort()]))
        t = f(*idx)
        if ty.lo is not None:
            st.assume_unscoped(t >= ty.lo)
        if ty.hi is not None:
            st.assume_unscoped(t <= ty.hi)
        return SInt(t)
    if isinstance(ty, _Bool):
        f = z3.Function(uid + '[]', *(sorts + [z3.BoolSort()]))
        return SBool(f(*idx))
    if isinstance(ty, _Str):
        f = z3.Function(uid + '[]', *(sorts + [z3.StringSort()]))
        return SStr(f(*idx))
    if isinstance(ty, Iface):
        iface = ty.iface() if isinstance(ty.iface, types.FunctionType) else ty.iface
        return new_opaque(interp, iface, uid + '[]', index=idx)
    if isinstance(ty, Opaq):
        return OpaqueVal('%s[%s]' % (uid, ','.join(str(z3.simplify(t)) for t in idx)))
    if isinstance(ty, FixedList):
        vals = [make_indexed(interp, t, '%s.%d' % (uid, i), idx_term, prefix) for i, t in enumerate(ty.elems)]
        return tuple(vals) if ty.as_tuple else vals
    return indexed_value(interp, ty, uid + '[]', idx)


def indexed_value(interp, ty, base, idx):
    """A value of shape ``ty`` that is a function of the index tuple ``idx`` (element of a symbolic-length
    sequence, or a component of such an element): scalars are applications of uninterpreted functions
    named after ``base``, real instances (`Inst`) are built from indexed fields."""
    st = interp.st
    idx = tuple(idx)
    sorts = [x.sort() if hasattr(x, 'sort') else z3.IntSort() for x in idx]
    if isinstance(ty, _Int):
        t = z3.Function(base, *(sorts + [z3.IntSort()]))(*idx)
        if ty.lo is not None:
            st.assume_unscoped(t >= ty.lo)
        if ty.hi is not None:
            st.assume_unscoped(t <= ty.hi)
        return SInt(t)
    if isinstance(ty, _Bool):
        return SBool(z3.Function(base, *(sorts + [z3.BoolSort()]))(*idx))
    if isinstance(ty, _Str):
        return SStr(z3.Function(base, *(sorts + [z3.StringSort()]))(*idx))
    if isinstance(ty, Opt):
        isn = z3.Function(base + '.is_none', *(sorts + [z3.BoolSort()]))(*idx)
        return SOpt(isn, indexed_value(interp, ty.inner, base, idx))
    if isinstance(ty, Const):
        return ty.value
    if isinstance(ty, OneOf):
        if len(ty.values) == 1:
            return ty.values[0]
        t = z3.Function(base + '.idx', *(sorts + [z3.IntSort()]))(*idx)
        st.assume_unscoped(z3.And(t >= 0, t < len(ty.values)))
        return SChoice(t, ty.values)
    if isinstance(ty, Involution):
        raise Unsupported('indexed element of type Involution (use it as an attribute)')
    if isinstance(ty, Iface):
        iface = ty.iface() if isinstance(ty.iface, types.FunctionType) else ty.iface
        return new_opaque(interp, iface, base, index=idx)
    if isinstance(ty, Opaq):
        return OpaqueVal('%s(%s)' % (base, ','.join(str(z3.simplify(i)) for i in idx)))
    if isinstance(ty, Inst):
        cls = ty.cls
        if ty.tuple_items is not None:
            obj = tuple.__new__(cls, [indexed_value(interp, t, '%s[%d]' % (base, i), idx)
                                      for i, t in enumerate(ty.tuple_items)])
        elif issubclass(cls, BaseException):
            obj = cls.__new__(cls)
        else:
            obj = object.__new__(cls)
        for k, t in ty.fields.items():
            v = indexed_value(interp, t, '%s.%s' % (base, k), idx) if isinstance(t, Ty) else t
            object.__setattr__(obj, k, v)
        if ty.invariant is not None:
            st.assume_unscoped(interp.truth(interp.call(ty.invariant, [obj], {})))
        return obj
    if isinstance(ty, FixedList):
        vals = [indexed_value(interp, t, '%s[%d]' % (base, i), idx) for i, t in enumerate(ty.elems)]
        return tuple(vals) if ty.as_tuple else vals
    if isinstance(ty, FixedDict):
        return {k: indexed_value(interp, t, '%s[%s]' % (base, k), idx) for k, t in ty.fields.items()}
    if isinstance(ty, ListOf):
        n = z3.Function(base + '.len', *(sorts + [z3.IntSort()]))(*idx)
        st.assume_unscoped(n >= ty.min_len)
        elem_ty = ty.elem

        def elem(interp2, idx_term, base=base, idx=idx):
            return indexed_value(interp2, elem_ty, base + '[]', tuple(idx) + (idx_term,))

        out = SList(n, elem, '%s<%s>' % (base, ','.join(z3.simplify(i).sexpr() for i in idx)),
                    ident=(base, tuple(idx)))
        out.elem_ty = elem_ty
        return out
    raise Unsupported('indexed element of type %r' % (ty,))


# ============================================================================ interfaces (opaque objects)

class Method:
    """Specification of a method of an interface.

    returns: Ty of the result (fresh per call unless pure)
    pure:    result is a function of (object, scalar args)
    requires / ensures: predicates (self, *args[, result])
    may_raise: exception factories chosen non-deterministically (environment behaviour)
    event:   name of a ghost event emitted on each call (with the arguments)
    model:   python function (interp, self, args, kwargs) overriding all of the above
    """

    def __init__(self, returns=None, pure=False, requires=None, ensures=None, may_raise=(), event=None,
                 model=None, params=None):
        self.returns = returns
        self.pure = pure
        self.requires = requires
        self.ensures = ensures
        self.may_raise = tuple(may_raise)
        self.event = event
        self.model = model
        self.params = params


class Interface:
    """Base class of interface descriptions.  Subclass attributes:

    target_class : the real (abstract) class the objects claim to be instances of
    attrs        : {name: Ty}           -- pure attributes / properties (cached per object)
    props        : {name: model(interp, self)}  -- computed properties (evaluated at every read)
    attr_raises  : {name: (predicate(self), ExceptionClass)}  -- reading raises when predicate
    methods      : {name: Method}
    invariant    : optional staticmethod predicate(self) assumed when an object is created
    """
    target_class = None
    attrs = {}
    props = {}
    attr_raises = {}
    methods = {}
    computed = {}          # {name: fn(interp, obj) -> value}: attributes that are functions of the object
    invariant = None
    truthy = True


def universe_of(iface):
    """Name of the id space of a by-id interface: shared by all its sub-interfaces."""
    root = iface
    for k in iface.__mro__:
        if k.__dict__.get('by_id'):
            root = k
    return 'U.' + root.__name__


def opaque_of_id(interp, iface, id_term):
    """The object of by-id interface ``iface`` with the given id: all its attributes are functions of the id."""
    return new_opaque(interp, iface, universe_of(iface), index=(id_term,), _is_id=True)


def same_object(a, b):
    """Identity of two opaque objects where the engine can tell: by-id objects of one universe."""
    ia, ib = a._pv_iface, b._pv_iface
    if getattr(ia, 'by_id', False) and getattr(ib, 'by_id', False) and isinstance(ia, type) and isinstance(ib, type):
        if universe_of(ia) == universe_of(ib) and len(a._pv_index) == 1 and len(b._pv_index) == 1:
            return wrap(a._pv_index[0] == b._pv_index[0])
    return None


def new_opaque(interp, iface, name, index=(), preset=None, _is_id=False):
    st = interp.st
    if getattr(iface, 'by_id', False) and not _is_id:
        # objects identified by an integer id (ghost address): a fresh id, or a function of the owner's index
        if index:
            idt = z3.Function(name + ".id", *([x.sort() for x in index] + [z3.IntSort()]))(*index)
        else:
            idt = st.fresh_int(name + '.id')
        name, index = universe_of(iface), (idt,)
    uid = st.fresh_name(name) if not index else name
    o = Opaque(iface, uid)
    if hasattr(interp, 'note_new_object'):
        interp.note_new_object(o)
    o.__dict__['_pv_index'] = tuple(index)
    if preset:
        o._pv_attrs.update(preset)
    inv = iface.__dict__.get('invariant') if isinstance(iface, type) else None
    if inv is None and isinstance(iface, type):
        for k in iface.__mro__:
            if 'invariant' in k.__dict__ and k.__dict__['invariant'] is not None:
                inv = k.__dict__['invariant']
                break
    if inv is not None:
        f = inv.__func__ if isinstance(inv, staticmethod) else inv
        assume_pred(interp, f, o, unscoped=True)
    return o


def assume_pred(interp, pred, *args, unscoped=False):
    """Assume a sidecar predicate; parameters beyond the given arguments are ghosts, by name."""
    from .loops import _param_names
    names = _param_names(pred)
    extra = []
    for n in names[len(args):]:
        if n not in interp.reg.ghost_env:
            raise Unsupported('predicate %s needs ghost %r which is not in scope' % (getattr(pred, '__name__', pred), n))
        extra.append(interp.reg.ghost_env[n])
    v = interp.truth(interp.call_assumed(pred, list(args) + extra, {}))
    if unscoped:
        interp.st.assume_unscoped(v)
    else:
        interp.st.assume(v)


def _iface_lookup(iface, table, name):
    for k in iface.__mro__:
        t = k.__dict__.get(table)
        if t and name in t:
            return t[name]
    return None


def _indexed_scalar(interp, o, name, ty):
    """Attribute of an indexed opaque: function of the index."""
    idx = o._pv_index
    st = interp.st
    base = '%s.%s' % (o._pv_uid, name)
    sorts = [x.sort() for x in idx]
    if isinstance(ty, Involution):
        return ty.make_attr(interp, base, o, index=idx)
    if isinstance(ty, Iface):
        iface = ty.iface() if isinstance(ty.iface, types.FunctionType) else ty.iface
        return new_opaque(interp, iface, base, index=idx)
    if isinstance(ty, OneOf):
        t = z3.Function(base + '.idx', *(sorts + [z3.IntSort()]))(*idx)
        st.assume_unscoped(z3.And(t >= 0, t < len(ty.values)))
        return SChoice(t, ty.values) if len(ty.values) > 1 else ty.values[0]
    if isinstance(ty, Const):
        return ty.value
    if isinstance(ty, ListOf):
        n = z3.Function(base + '.len', *(sorts + [z3.IntSort()]))(*idx)
        st.assume_unscoped(n >= ty.min_len)
        elem_ty = ty.elem

        def elem(interp2, j, base=base, idx=idx):
            return make_indexed(interp2, elem_ty, base, j, prefix=idx)

        return SList(n, elem, '%s<%s>' % (base, ','.join(z3.simplify(t).sexpr() for t in idx)),
                     ident=(base, tuple(idx)))
    return indexed_value(interp, ty, base, idx)


class Registry:
    """Everything the interpreter needs to know about contracts, models and interfaces."""

    def __init__(self):
        self.contracts = {}        # qualified name -> Contract
        self.by_func = {}          # function object -> Contract
        self.models = {}           # callable -> model
        self.scoped_models = {}    # property id -> {callable -> model}: Module.model(...) registrations apply only
        #                            while a function of that property is verified (no cross-property clashes)
        self.current_props = ()    # property ids of the function under verification
        self.loops = {}            # (qualified name, ordinal) -> LoopSpec
        self.loops_by_code = {}
        self.under_verification = None
        self.ghost_env = {}
        self.transparent = set()
        self.missing = []
        self.abstractions = {}     # spec function -> (when(interp), make(interp, args, kwargs))
        self.local_shapes = {}     # FuncInfo -> {local name: MListOf}

    # ----- registration ---------------------------------------------------------
    def add_contract(self, c):
        """Several sidecar modules may give the same function a contract (e.g. C04 verifies
        `_do_execute` in detail while C01 only needs a trusted summary of it).  The first one is registered
        under the qualified name, further ones under 'qname#<module property>'."""
        key = c.qname
        if key in self.contracts:
            key = '%s#%s' % (c.qname, getattr(getattr(c, 'module', None), 'prop', '?'))
            n = 2
            while key in self.contracts:
                key = '%s#%s.%d' % (c.qname, getattr(getattr(c, 'module', None), 'prop', '?'), n)
                n += 1
        c.key = key
        self.contracts[key] = c

    def link(self):
        """Resolve qualified names against the imported current tree."""
        self.by_func = {}
        self.missing = []
        for key, c in self.contracts.items():
            q = c.qname
            try:
                obj, owner = frontend.resolve_qualified(q)
            except LookupError as e:
                self.missing.append((key, str(e)))
                continue
            f = frontend.raw_function(obj)
            if not isinstance(f, types.FunctionType):
                self.missing.append((key, 'contract target is not a python function: %r' % (obj,)))
                continue
            c.func = f
            c.owner = owner
            c.raw = obj
            self.by_func.setdefault(f, []).append(c)
            c.returns_value = None
            if c.locals:
                try:
                    self.local_shapes[frontend.funcinfo_of(f)] = c.locals
                except Exception as e:
                    self.missing.append((q, 'locals=: cannot locate the source (%s)' % e))
        self.loops_by_code = {}
        for key, ls in self.loops.items():
            q, ordinal = key[0], key[1]
            try:
                # a loop of a nested function: only the enclosing function can be resolved statically
                obj, owner = frontend.resolve_qualified(q.partition('.<locals>')[0])
            except LookupError as e:
                self.missing.append((q, str(e)))
                continue
            f = frontend.raw_function(obj)
            self.loops_by_code[(f.__code__, ordinal)] = ls

    def contract_for(self, func):
        """The contract used at a call site: the one of the sidecar module whose function is being
        verified if it has one, else the first verified (non-trusted) one, else the first."""
        cands = self.by_func.get(func)
        if not cands:
            return None
        cur = getattr(self, 'current_module', None)
        for c in cands:
            if getattr(c, 'module', None) is cur and cur is not None:
                return c
        for c in cands:
            if not c.trusted:
                return c
        # an ASSUMED contract belongs to the module that states (and lists) the assumption: other modules
        # see the real body, unless the assumption is declared shared
        for c in cands:
            if getattr(c, 'shared', False) or cur is None:
                return c
        return None

    def args_fit_contract(self, interp, c, func, args, kwargs):
        from . import verify
        try:
            bound = verify.bind_call_args(func, args, kwargs)
        except Unsupported:
            return False
        for name, ty in c.params.items():
            if name in bound and not _fits(ty, bound[name]):
                return False
        return True

    def model_for(self, f):
        try:
            # a callable modelled by several sidecar modules: the module whose function is being verified sees
            # its own model; then the models of the modules it builds on (python imports between sidecar
            # modules: C03 builds on C01's models, C17 on C04's); the ghost file system of C04 and the path
            # model of C12 do not see each other
            cur = getattr(self, 'current_module', None)
            own = getattr(self, 'module_models', {}).get(cur)
            m = own.get(f) if own else None
            if m is not None:
                return m
            for p in getattr(self, 'current_scope', None) or getattr(self, 'current_props', ()):
                m = self.scoped_models.get(p, {}).get(f)
                if m is not None:
                    return m
            m = self.models.get(f)
            if m is None:
                # library models registered with pyvc.models.model(...) (also for the ghost primitives of
                # pyvc/pymodels, which are python functions in an interpretable file)
                from . import models as _models
                m = _models.MODELS.get(f)
            return m
        except TypeError:
            return None

    # ----- opaque objects -------------------------------------------------------
    def opaque_getattr(self, interp, o, name):
        from .interp import PyRaise, SymMethod
        iface = o._pv_iface
        ar = _iface_lookup(iface, 'attr_raises', name)
        if ar is not None:
            pred, exc = ar
            if interp.branch(interp.call(pred, [o], {})):
                raise PyRaise(exc('interface: %s not available' % name))
        if name in o._pv_attrs:
            return o._pv_attrs[name]
        pm = _iface_lookup(iface, 'props', name)
        if pm is not None:
            return pm(interp, o)       # computed property: model(interp, self), evaluated at every read
        ty = _iface_lookup(iface, 'attrs', name)
        if isinstance(ty, Derived):
            return interp.call(ty.fn, [o], {})
        if ty is not None:
            if o._pv_index:
                v = _indexed_scalar(interp, o, name, ty)
            elif isinstance(ty, Involution):
                v = ty.make_attr(interp, '%s.%s' % (o._pv_uid, name), o)
            else:
                v = ty.make(interp, '%s.%s' % (o._pv_uid, name)) if isinstance(ty, Ty) else ty
            o._pv_attrs[name] = v
            return v
        comp = _iface_lookup(iface, 'computed', name)
        if comp is not None:
            # an attribute that is a function of the object: computed on first access, then cached
            v = comp(interp, o)
            o._pv_attrs[name] = v
            return v
        m = _iface_lookup(iface, 'methods', name)
        if m is not None:
            return OpaqueMethod(o, name, m)
        if name == '__class__':
            return self.opaque_type(interp, o)
        raise Unsupported('interface %s does not describe attribute %r' % (iface.__name__, name))

    def opaque_setattr(self, interp, o, name, value):
        iface = o._pv_iface
        if _iface_lookup(iface, 'attrs', name) is None and name not in getattr(iface, 'settable', ()):
            raise Unsupported('interface %s: store to undeclared attribute %r' % (iface.__name__, name))
        o._pv_attrs[name] = value

    def opaque_has(self, interp, o, name):
        iface = o._pv_iface
        return _iface_lookup(iface, 'attrs', name) is not None or _iface_lookup(iface, 'methods', name) is not None \
            or _iface_lookup(iface, 'props', name) is not None \
            or _iface_lookup(iface, 'computed', name) is not None

    def opaque_type(self, interp, o):
        return o._pv_cls

    def opaque_truth(self, interp, o):
        return True

    def opaque_eq(self, interp, a, b):
        # an interface may name an attribute that stands for the value of its objects (`eq_attr`):
        # two such objects are equal iff that attribute is
        ea = getattr(a._pv_iface, 'eq_attr', None)
        if ea is not None and isinstance(b, Opaque) and getattr(b._pv_iface, 'eq_attr', None) == ea:
            return interp.eq(self.opaque_getattr(interp, a, ea), self.opaque_getattr(interp, b, ea))
        return NotImplemented

    def opaque_iter(self, interp, o):
        raise Unsupported('iteration over opaque object')

    def opaque_isinstance(self, interp, o, tp):
        tps = tp if isinstance(tp, tuple) else (tp,)
        cls = o._pv_cls
        if cls is None:
            raise Unsupported('isinstance on opaque object without class')
        if any(issubclass(cls, t) for t in tps):
            return True
        # a narrower class: not determined by the interface -> symbolic, cached per (object, class)
        res = []
        for t in tps:
            if not (inspect.isclass(t) and issubclass(t, cls)):
                # unrelated classes (no common subclass assumed possible unless mixin-like)
                if inspect.isclass(t) and getattr(o._pv_iface, 'may_also_be', None) and t in o._pv_iface.may_also_be:
                    pass
                else:
                    continue
            key = '__isinstance__%s' % t.__qualname__
            if key not in o._pv_attrs:
                if o._pv_index:
                    o._pv_attrs[key] = _indexed_scalar(interp, o, key, Bool)
                else:
                    o._pv_attrs[key] = SBool(interp.st.fresh_bool('%s.%s' % (o._pv_uid, key)))
            res.append(o._pv_attrs[key])
        if not res:
            return False
        if len(res) == 1:
            return res[0]
        return wrap(z3.Or(*[to_z3(r) for r in res]))

    def call_opaque(self, interp, o, name, args, kwargs):
        m = _iface_lookup(o._pv_iface, 'methods', name)
        if m is None:
            raise Unsupported('interface %s does not describe method %r' % (o._pv_iface.__name__, name))
        return call_opaque_method(interp, o, name, m, args, kwargs)

    # ----- contracts at call sites ---------------------------------------------------
    def apply_contract(self, interp, c, func, args, kwargs):
        from . import verify
        return verify.apply_contract(interp, c, func, args, kwargs)


def _returns_a_value(f):
    import ast as _ast
    try:
        info = frontend.funcinfo_of(f)
    except Exception:
        return False
    if isinstance(info.node, _ast.Lambda):
        return True
    if info.is_generator:
        return True
    todo = list(info.node.body)
    while todo:
        n = todo.pop()
        if isinstance(n, (_ast.FunctionDef, _ast.AsyncFunctionDef, _ast.Lambda, _ast.ClassDef)):
            continue        # a nested definition: its returns are not returns of this function
        if isinstance(n, _ast.Return) and n.value is not None and not (
                isinstance(n.value, _ast.Constant) and n.value.value is None):
            return True
        todo.extend(_ast.iter_child_nodes(n))
    return False


def _fits(ty, v):
    """Could the value have been produced by the shape?  (conservative for shapes that cannot be inspected)"""
    if isinstance(v, SChoice):
        return all(_fits(ty, a) for a in v.alts)
    if isinstance(ty, Opt):
        if v is None:
            return True
        if isinstance(v, SOpt):
            return _fits(ty.inner, v.val)
        return _fits(ty.inner, v)
    if isinstance(v, SOpt):
        return False
    if isinstance(ty, Iface):
        iface = ty.iface() if isinstance(ty.iface, types.FunctionType) else ty.iface
        return isinstance(v, Opaque) and isinstance(v._pv_iface, type) and issubclass(v._pv_iface, iface)
    if isinstance(ty, Inst):
        if isinstance(v, (Opaque, Sym)) or not isinstance(v, ty.cls):
            return False
        d = getattr(v, '__dict__', {})
        return all(_fits(t, d[k]) for k, t in ty.fields.items() if isinstance(t, Ty) and k in d)
    if isinstance(ty, _Int):
        return isinstance(v, (SInt, int)) and not isinstance(v, bool)
    if isinstance(ty, _Bool):
        return isinstance(v, (SBool, bool))
    if isinstance(ty, _Str):
        return isinstance(v, (SStr, str))
    if isinstance(ty, ListOf):
        if isinstance(v, (list, tuple)):
            return all(_fits(ty.elem, x) for x in v)
        if isinstance(v, SList):
            et = getattr(v, 'elem_ty', None)
            if isinstance(et, Iface) and isinstance(ty.elem, Iface):
                a = et.iface() if isinstance(et.iface, types.FunctionType) else et.iface
                b = ty.elem.iface() if isinstance(ty.elem.iface, types.FunctionType) else ty.elem.iface
                return isinstance(a, type) and issubclass(a, b)
            return True
        return False
    return True


class OpaqueMethod:
    def __init__(self, o, name, m):
        self.o = o
        self.name = name
        self.m = m


def call_opaque_method(interp, o, name, m, args, kwargs):
    from .interp import PyRaise
    st = interp.st
    if m.model is not None:
        return m.model(interp, o, args, kwargs)
    if kwargs and m.params:
        args = list(args) + [kwargs[p] for p in m.params[len(args):]]
    elif kwargs:
        args = list(args) + list(kwargs.values())
    if m.requires is not None:
        ok = interp.truth(interp.call(m.requires, [o] + list(args), {}))
        st.oblige('%s : requires of %s.%s' % (interp.current_function_name(), o._pv_iface.__name__, name), ok,
                  {'kind': 'callee-pre'})
        st.assume(ok)
    if m.event is not None:
        st.emit(m.event, o, tuple(args))
    key = None
    if m.pure:
        flat = []
        for a in args:
            if isinstance(a, tuple) and all(isinstance(x, (SInt, SBool, SStr, int, str, bool)) for x in a):
                flat.extend(a)
            else:
                flat.append(a)
        args = flat
        key = ('__call__', name, tuple(z3.simplify(to_z3(a)).sexpr() if isinstance(a, (Sym, int, str, bool))
                                        and not isinstance(a, (SOpt, SChoice, SList)) else id(a) for a in args))
        # a pure method is a function of (object, arguments): the outcome of an earlier call -- value or
        # exception -- is the outcome of this one
        if key in o._pv_attrs:
            return o._pv_attrs[key]
        if ('__raised__', key) in o._pv_attrs:
            raise PyRaise(o._pv_attrs[('__raised__', key)])
    if m.may_raise:
        k = st.choose(1 + len(m.may_raise))
        if k > 0:
            factory = m.may_raise[k - 1]
            exc = factory(interp, o) if isinstance(factory, types.FunctionType) else factory()
            if m.event is not None:
                st.emit(m.event + ':raised', o, exc)
            if key is not None:
                o._pv_attrs[('__raised__', key)] = exc
            raise PyRaise(exc)
    if m.pure:
        terms = _pure_arg_terms(interp, args)
        scalar_args = all(isinstance(a, (SInt, SBool, SStr, int, str, bool)) for a in args)
        if terms is not None and isinstance(m.returns, (_Int, _Bool, _Str)):
            # a ghost function of (object, arguments): scalars, by-id objects (their id), symbolic maps (their arrays)
            sorts = [x.sort() for x in o._pv_index] + [t.sort() for t in terms]
            rs = {_Int: z3.IntSort(), _Bool: z3.BoolSort(), _Str: z3.StringSort()}[type(m.returns)]
            f = z3.Function('%s.%s()' % (o._pv_uid, name), *(sorts + [rs]))
            r = wrap(f(*(list(o._pv_index) + terms)))
            if isinstance(r, SInt) and m.returns.lo is not None:
                st.assume(r.t >= m.returns.lo)
            if m.may_raise and key is not None:
                # the first outcome (here: a value) is the outcome of every later call with these arguments
                o._pv_attrs[key] = r
        else:
            key = ('__call__', name, tuple(z3.simplify(to_z3(a)).sexpr() if isinstance(a, (Sym, int, str, bool))
                                            and not isinstance(a, (SOpt, SChoice, SList)) else id(a) for a in args))
            if key in o._pv_attrs:
                return o._pv_attrs[key]
            if o._pv_index and not args and m.returns is not None and not isinstance(m.returns, Iface):
                # result of a pure zero-argument method of an indexed object: a function of the index
                r = _indexed_scalar(interp, o, name + '()', m.returns)
            elif scalar_args and isinstance(m.returns, Iface) and (args or o._pv_index):
                # structured result of a pure method: an opaque object indexed by (object index, arguments),
                # i.e. its attributes are functions of the arguments
                iface = m.returns.iface() if isinstance(m.returns.iface, types.FunctionType) else m.returns.iface
                r = new_opaque(interp, iface, '%s.%s()' % (o._pv_uid, name),
                               index=tuple(o._pv_index) + tuple(to_z3(a) for a in args))
            elif m.returns is not None and args and all(isinstance(a, (SInt, SBool, SStr, int, str, bool, Opaque))
                                                        for a in args) \
                    and (o._pv_index or any(isinstance(a, Opaque) and a._pv_index for a in args)):
                # a function of (object, arguments) where arguments are scalars or (indexed) opaque objects:
                # the indices of the opaque arguments are arguments of the function(s) standing for the result
                name_parts, idx_terms = [], list(o._pv_index)
                for a in args:
                    if isinstance(a, Opaque):
                        name_parts.append(a._pv_uid)
                        idx_terms.extend(a._pv_index)
                    else:
                        idx_terms.append(to_z3(a))
                r = indexed_value(interp, m.returns, '%s.%s(%s)' % (o._pv_uid, name, ','.join(name_parts)),
                                  tuple(idx_terms))
            else:
                r = m.returns.make(interp, '%s.%s()' % (o._pv_uid, name)) if m.returns is not None else None
            o._pv_attrs[key] = r
    else:
        r = m.returns.make(interp, '%s.%s()' % (o._pv_uid, name)) if m.returns is not None else None
    if m.ensures is not None:
        st.assume(interp.truth(interp.call(m.ensures, [o] + list(args) + [r], {})))
    if m.event is not None:
        st.emit(m.event + ':returned', o, r)
    return r


def _pure_arg_terms(interp, args):
    from . import models
    out = []
    for a in args:
        if isinstance(a, (SOpt, SChoice)):
            return None
        if isinstance(a, models.SMap):
            out.extend(a.terms())
            continue
        t = models.term_of_value(a)
        if t is None:
            return None
        out.append(t)
    return out


# ============================================================================ contracts

class Contract:
    def __init__(self, qname, params=None, ghosts=None, requires=None, returns=None, ensures=None,
                 raises=None, may_raise=(), raises_only=None, modifies=None, props=(), setup=None,
                 old=None, pure_result=False, notes='', concretize=None, replay=None, trusted=False,
                 cover=True, inline=False, event=None, yields=None, shared=False, locals=None):
        self.qname = qname
        self.params = params or {}
        self.ghosts = ghosts or {}
        self.requires = requires
        self.returns = returns
        self.ensures = ensures or {}
        self.raises = raises or {}          # {ExcClass: {'when': pred or None, 'ensures': pred or None}}
        self.may_raise = tuple(may_raise)   # exception classes the function may raise non-deterministically
        self.raises_only = raises_only      # tuple of exception classes or None (= not checked)
        # call sites: parameters (or 'param.attr.attr' paths) that are mutable symbolic lists / iterators whose
        # contents the function changes: havocked between `requires`/`old` and `ensures`
        self.modifies = modifies if isinstance(modifies, dict) else tuple(modifies or ())
        # {local name: MListOf(...)}: a list literal assigned to this local is represented as a symbolic
        # mutable list from the start (needed when the list is later handed to a contract that modifies it)
        self.locals = locals or {}
        self.props = tuple(props)
        self.setup = setup                  # optional: (interp) -> dict of extra ghost bindings / state
        self.old = old                      # optional: callable(args...) -> snapshot, evaluated before the call
        self.notes = notes
        self.replay = replay
        self.trusted = trusted              # True: assumed contract (not verified); listed in evidence
        self.cover = cover
        self.shared = shared                # trusted contracts: also applied when other modules' functions are verified
        self.yields = yields                # generator functions: shape of the items (ListOf(...)) for call sites
        self.event = event                  # ghost event emitted at call sites that use the contract
        self.inline = inline                # verified, but call sites interpret the body (tiny helpers)
        self.pure_result = pure_result      # the result is a function of the (scalar) arguments: same arguments, same result
        self.func = None
        self.owner = None
        self.raw = None


class LoopSpec:
    def __init__(self, qname, ordinal, invariant, modifies=None, decreases=None, ghosts=None, note='', entry=None,
                 pre=None, step=None):
        # pre / step: a relation every iteration must satisfy.  `pre` is evaluated at the start of the arbitrary
        # iteration (after the invariant and the guard are assumed), `step` -- a predicate over `pre` and the
        # names the invariant may use -- is an obligation at its end.  It says what ONE iteration does, which an
        # invariant (a property of the state reached, not of how) cannot.
        self.pre = pre
        self.step = step
        self.qname = qname
        self.ordinal = ordinal
        self.invariant = invariant
        self.modifies = modifies or {}
        self.decreases = decreases
        self.ghosts = ghosts or {}
        self.note = note
        self.entry = entry          # optional snapshot expression evaluated at loop entry: `_entry` in the invariant


class Module:
    """Collects the contracts of one sidecar module."""

    def __init__(self, prop):
        self.prop = prop
        self.contracts = []
        self.loops = []
        self.models = {}
        self.checks = []       # extra obligation generators: (name, fn(ctx))
        # contracts of OTHER sidecar modules at call sites of this module's functions:
        #   'imports' (default) use the contracts of the sidecar modules this module imports (it was written
        #   against them) and interpret the real body otherwise; 'apply' use every contract; 'fit' only when
        #   the arguments have the shapes the contract is stated for; 'ignore' never
        self.foreign_contracts = 'imports'
        self.string_alignment = False   # pyvc.strings: align cuts / single-character searches with known pieces
        self.bounded_checks = []   # bounded stand-ins: (name, fn(ctx)) -- never counted as proved
        self.transparent = []
        self.assumptions = []
        self.trusted_base = []

    def contract(self, qname, **kw):
        c = Contract(qname, **kw)
        c.module = self
        if not c.props:
            c.props = (self.prop,)
        self.contracts.append(c)
        return c

    def loop(self, qname, ordinal, **kw):
        ls = LoopSpec(qname, ordinal, **kw)
        ls.module = self           # several sidecar modules may annotate the same loop (each for its own contract)
        self.loops.append(ls)
        return ls

    def model(self, f, m):
        self.models[f] = m

    def abstract(self, f, when, make):
        """Abstraction barrier for a spec function: where `when(interp)` holds, a call of f is answered by
        `make(interp, args, kwargs)` (typically an application of an uninterpreted function to the arguments)
        instead of interpreting its definition; elsewhere f is an ordinary spec function."""
        if not hasattr(self, 'abstractions'):
            self.abstractions = {}
        self.abstractions[f] = (when, make)

    def implied_by(self, qname, other_prop):
        """The ASSUMED summary (`trusted=True` contract) this module states for `qname` is a consequence of the
        contract that the sidecar module of `other_prop` PROVES for the same function: the check of this property
        generates the refinement obligations (verify.verify_function(..., via=...): the proved contract's
        precondition follows from the summary's, its outcomes are outcomes of the summary, its postconditions
        imply the summary's) and RE-PROVES the other module's contract on the current tree (it carries this
        property too).  A summary with a discharged refinement is not an assumption any more."""
        if not hasattr(self, 'refinements'):
            self.refinements = []
        self.refinements.append((qname, other_prop))

    def check(self, name):
        def deco(fn):
            self.checks.append((name, fn))
            return fn

        return deco

    def bounded(self, name):
        """Bounded stand-in for a function the verifier cannot reach (DESIGN 2.6): fn(ctx) runs the real
        function on every input up to a stated bound against an independent definition and reports with
        ctx.bounded_result(...).  Labelled `bounded` in evidence, never counted in `discharged`."""
        def deco(fn):
            self.bounded_checks.append((name, fn))
            return fn

        return deco

    def assume(self, text):
        self.assumptions.append(text)

    def trust(self, text):
        self.trusted_base.append(text)


