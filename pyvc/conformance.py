"""Run-time conformance (DESIGN 2.4): the contracts of a property are installed as run-time monitors
around the real functions while (part of) the repository's own unit-test suite runs.

  /venv/bin/python -m pyvc.conformance C13 exactly_lib_test.impls.types.interval.z_package_suite ...

A firing PRECONDITION means the contract is too strict for a real call site (the modular proof would
prove the wrong thing): our bug.  A firing POSTCONDITION on the unchanged tree contradicts the proof:
checker error.  Clauses that cannot be evaluated natively (ghost maps, engine-only helpers) are counted
as not evaluable.  Runs under the repository's interpreter, without z3."""
import functools
import importlib
import json
import os
import sys
import types
import unittest
import warnings

VERIF = os.path.dirname(os.path.dirname(os.path.abspath(__file__)))
REPO = os.environ.get('PYVC_REPO', '/repo')
for p in (VERIF, os.path.join(REPO, 'test'), os.path.join(REPO, 'src')):
    if p not in sys.path:
        sys.path.insert(0, p)

GHOST_SAMPLES = [-3, 0, 1, 2, 3, 7]
TAINT = [0]     # >0 while inside a call that a unit test made outside the function's contract
MAX_MONITORED_CALLS = 200      # per function; later calls pass through (the suite calls accessors millions of times)


class Stats:
    def __init__(self):
        self.calls = 0
        self.pre_evaluated = 0
        self.pre_failed = []
        self.pre_failed_in_tests = 0
        self.post_evaluated = 0
        self.post_failed = []
        self.not_evaluable = 0
        self.busy = False          # no monitoring of calls made while a clause is being evaluated


def _names(pred):
    code = pred.__code__
    return code.co_varnames[:code.co_argcount]


def _call(pred, env):
    return pred(*[env[n] for n in _names(pred)])


def _ghost_values(c):
    from pyvc.api import _Int, Const
    envs = [{}]
    for g, ty in c.ghosts.items():
        if isinstance(ty, _Int):
            vals = [v for v in GHOST_SAMPLES if (ty.lo is None or v >= ty.lo) and (ty.hi is None or v <= ty.hi)]
        elif isinstance(ty, Const):
            vals = [ty.value]
        else:
            return None
        envs = [dict(e, **{g: v}) for e in envs for v in vals]
    return envs


def install(c, func, owner, raw, stats):
    import inspect
    sig_names = list(func.__code__.co_varnames[:func.__code__.co_argcount + func.__code__.co_kwonlyargcount])
    ghost_envs = _ghost_values(c)

    @functools.wraps(func)
    def wrapper(*args, **kwargs):
        st = stats
        st.calls += 1
        if st.calls > MAX_MONITORED_CALLS or st.busy:
            return func(*args, **kwargs)
        st.busy = True
        caller = sys._getframe(1).f_code.co_filename
        try:
            return monitored(caller, *args, **kwargs)
        finally:
            st.busy = False

    def monitored(caller, *args, **kwargs):
        st = stats
        try:
            bound = inspect.signature(func).bind(*args, **kwargs)
            bound.apply_defaults()
            env0 = dict(bound.arguments)
        except TypeError:
            return func(*args, **kwargs)
        usable = ghost_envs is not None
        tainted_here = False
        if usable and c.requires is not None:
            for g in ghost_envs[:1]:
                try:
                    ok = _call(c.requires, dict(env0, **g, trace=[], ghost={}))
                    st.pre_evaluated += 1
                    if not ok:
                        # only call sites inside the repository's sources count: unit tests may call a
                        # function outside the contract it has towards the program
                        if TAINT[0] or os.sep + 'test' + os.sep in caller or 'exactly_lib_test' in caller:
                            st.pre_failed_in_tests += 1
                            tainted_here = True
                        elif len(st.pre_failed) < 5:
                            st.pre_failed.append(caller + ' ' + repr({k: repr(v)[:80] for k, v in env0.items()}))
                    if not ok:
                        usable = False
                except Exception:
                    st.not_evaluable += 1
                    usable = False
        old = None
        if usable and c.old is not None:
            try:
                old = _call(c.old, dict(env0, trace=[], ghost={}))
            except Exception:
                usable = False
        if tainted_here:
            TAINT[0] += 1
        try:
            result = func(*args, **kwargs)
        finally:
            if tainted_here:
                TAINT[0] -= 1
        if usable and not isinstance(result, types.GeneratorType):
            for name, clause in c.ensures.items():
                if isinstance(clause, tuple):
                    continue
                for g in ghost_envs:
                    env = dict(env0, **g, result=result, ret=result, old=old, trace=[], ghost={})
                    env.update(env0)
                    if 'result' not in env0:
                        env['result'] = result
                    if 'trace' in _names(clause) or 'yielded' in _names(clause):
                        st.not_evaluable += 1
                        break
                    try:
                        ok = _call(clause, env)
                        st.post_evaluated += 1
                        if not ok and len(st.post_failed) < 5:
                            st.post_failed.append((name, repr({k: repr(v)[:80] for k, v in env0.items()}), repr(g)))
                    except Exception:
                        st.not_evaluable += 1
                        break
        return result

    if owner is not None:
        if isinstance(raw, property):
            setattr(owner, _attr_name(owner, raw), property(wrapper, raw.fset, raw.fdel))
        elif isinstance(raw, staticmethod):
            setattr(owner, func.__name__, staticmethod(wrapper))
        else:
            setattr(owner, func.__name__, wrapper)
    else:
        mod = importlib.import_module(c.qname.partition(':')[0])
        setattr(mod, func.__name__, wrapper)


def _attr_name(owner, raw):
    for k, v in owner.__dict__.items():
        if v is raw:
            return k
    raise LookupError('property not found on owner')


def main():
    warnings.simplefilter('ignore')
    prop = sys.argv[1]
    suites = sys.argv[2:]
    from pyvc import frontend
    from pyvc.api import Module
    import glob
    stats = {}
    for fn in sorted(glob.glob(os.path.join(VERIF, 'contracts', prop + '*.py'))):
        mod = importlib.import_module('contracts.' + os.path.basename(fn)[:-3])
        m = getattr(mod, 'M', None)
        if not isinstance(m, Module):
            continue
        for c in m.contracts:
            if c.trusted or c.qname.startswith('contracts.'):
                continue
            try:
                obj, owner = frontend.resolve_qualified(c.qname)
            except LookupError:
                continue
            func = frontend.raw_function(obj)
            if not isinstance(func, types.FunctionType):
                continue
            s = Stats()
            stats[c.qname] = s
            install(c, func, owner, obj, s)
    suite = unittest.TestSuite()
    for sname in suites:
        suite.addTest(importlib.import_module(sname).suite())
    res = unittest.TextTestRunner(stream=open(os.devnull, 'w'), verbosity=0).run(suite)
    out = {'tests_run': res.testsRun, 'test_failures': len(res.failures) + len(res.errors),
           'functions_monitored': len(stats),
           'calls': sum(s.calls for s in stats.values()),
           'preconditions_evaluated': sum(s.pre_evaluated for s in stats.values()),
           'postconditions_evaluated': sum(s.post_evaluated for s in stats.values()),
           'not_evaluable': sum(s.not_evaluable for s in stats.values()),
           'preconditions_false_at_call_sites_in_test_code': sum(s.pre_failed_in_tests for s in stats.values()),
           'precondition_failures': {q: s.pre_failed for q, s in stats.items() if s.pre_failed},
           'postcondition_failures': {q: s.post_failed for q, s in stats.items() if s.post_failed},
           'never_called': sorted(q for q, s in stats.items() if s.calls == 0)}
    print(json.dumps(out, indent=1))
    return 1 if out['precondition_failures'] or out['postcondition_failures'] else 0


if __name__ == '__main__':
    sys.exit(main())
