"""Path exploration by replay forking.

A path is identified by the list of decisions taken at symbolic choice points.  The
function under verification is re-executed from fresh inputs for each path.
"""
try:
    import z3
except ImportError:      # replays run under the repository's interpreter, without z3
    z3 = None

from .values import SBool, SInt, SStr, to_z3


class PathAbort(BaseException):
    """Current path ends here (infeasible assumption); not an error."""


class RetryPath(BaseException):
    """Re-run with the given decision prefix (used to turn a merge into a real fork)."""

    def __init__(self, prefix):
        self.prefix = prefix


class Unsupported(Exception):
    """The engine cannot model something: the function is undecided (never a violation)."""


FORCE_FORK = 'F'
MERGE = 'M'

FEAS_TIMEOUT_MS = 1500
SITE_TIMEOUT_MS = 250      # "is this operand of and/or already decided?": only an optimisation, asked often


def _conjuncts(t):
    if z3.is_and(t):
        out = []
        for c in t.children():
            out.extend(_conjuncts(c))
        return out
    return [t]


_FLAG_CACHE = {}      # term id -> (term kept alive, has quantifier, has regex)


def _flags(t):
    i = t.get_id()
    ent = _FLAG_CACHE.get(i)
    if ent is None or not ent[0].eq(t):
        if len(_FLAG_CACHE) > 200000:
            _FLAG_CACHE.clear()
        ent = (t, _has_quantifier_uncached(t), _has_regex_uncached(t))
        _FLAG_CACHE[i] = ent
    return ent


def _has_quantifier(t):
    return _flags(t)[1]


def _has_regex(t):
    return _flags(t)[2]


def _has_quantifier_uncached(t):
    seen = set()
    todo = [t]
    while todo:
        x = todo.pop()
        i = x.get_id()
        if i in seen:
            continue
        seen.add(i)
        if z3.is_quantifier(x):
            return True
        todo.extend(x.children())
    return False


def _has_regex_uncached(t):
    seen = set()
    todo = [t]
    while todo:
        x = todo.pop()
        i = x.get_id()
        if i in seen:
            continue
        seen.add(i)
        if z3.is_app(x) and x.decl().kind() == z3.Z3_OP_SEQ_IN_RE:
            return True
        if not z3.is_quantifier(x):
            todo.extend(x.children())
    return False


class PathState:
    def __init__(self, prefix, stats):
        self.prefix = list(prefix)
        self.decisions = []
        self.pending = []          # alternative prefixes discovered on this run
        self.reached = set()       # line numbers of the return / raise statements of the function under verification
        self.solver = z3.Solver()
        self.solver.set('timeout', FEAS_TIMEOUT_MS)
        self.pc = []               # permanent conjuncts (z3 terms)
        self.scopes = []           # temporary assumptions (merge scopes)
        self.counters = {}
        self.trace = []            # ghost events
        self.ghost = {}            # ghost state for stdlib models
        self.obligations = []      # (name, pc-terms, goal-term, meta)
        self.stats = stats
        self.notes = []
        self.generators = []
        self.inlined = set()
        self.used_contracts = set()
        self.used_models = set()
        self.unknown_feasibility = 0
        self.side_conditions = []  # stack: in-range conditions collected inside quantifier bodies
        self.fresh_log = []        # every fresh constant, in creation order (for skolemisation in quantifiers)
        self.no_fork = 0           # >0 inside quantifier bodies: a real fork is not allowed
        self.known = {}            # z3 term id -> list of (frozenset(scope ids), bool): entailed truth values
        self.on_fact = None        # hook(term): called when a fact is added to the context (equality learning)
        from .lenabs import LenAbs
        self.lenabs = LenAbs()     # what the context says about string lengths, in pure LIA

    # ---- naming -----------------------------------------------------------------
    def fresh_name(self, base):
        n = self.counters.get(base, 0)
        self.counters[base] = n + 1
        return base if n == 0 else '%s!%d' % (base, n)

    def fresh_int(self, base):
        c = z3.Int(self.fresh_name(base))
        self.fresh_log.append(c)
        return c

    def fresh_bool(self, base):
        c = z3.Bool(self.fresh_name(base))
        self.fresh_log.append(c)
        return c

    def fresh_str(self, base):
        c = z3.String(self.fresh_name(base))
        self.fresh_log.append(c)
        return c

    # ---- assumptions ------------------------------------------------------------
    def _scoped(self, t):
        if self.scopes:
            return z3.Implies(z3.And(*self.scopes) if len(self.scopes) > 1 else self.scopes[0], t)
        return t

    def assume(self, cond):
        """Add ``cond`` (python bool / SBool / z3 term) to the path condition."""
        if isinstance(cond, bool):
            if not cond:
                if self.scopes:
                    # contradiction only under the scope
                    self._add(z3.Not(z3.And(*self.scopes)))
                    return
                raise PathAbort()
            return
        t = cond.t if isinstance(cond, SBool) else cond
        self._add(self._scoped(t))
        if self.on_fact is not None:
            self.on_fact(t)

    def _add(self, t):
        self.pc.append(t)
        # The feasibility solver only sees quantifier-free facts: satisfiability of quantified
        # (string) formulas is where solvers get lost; dropping facts there only over-approximates
        # the set of explored paths, the obligations are always proved from the full `pc`.
        # ... nor regular-expression membership facts: with them in the context the solver has been seen to
        # run far beyond its timeout on unrelated questions.
        for c in _conjuncts(t):
            if not _has_quantifier(c):
                if not _has_regex(c):
                    self.solver.add(c)
                self.lenabs.add(c)

    def proof_step(self, cond):
        """A step of a proof in progress has just been recorded as an obligation: the rest of that proof may
        rely on it.  It becomes a temporary hypothesis (a scope) that the caller removes when the proof of the
        clause is complete (loops._call_pred), so that it never influences path feasibility, the vacuity guard or
        other clauses -- if the step is in fact false, only its own obligation is affected."""
        if isinstance(cond, bool):
            t = z3.BoolVal(cond)
        else:
            t = cond.t if isinstance(cond, SBool) else cond
        if z3.is_true(t):
            return
        self.scopes.append(t)
        self._keep = getattr(self, '_keep', [])
        self._keep.append(t)
        if self.on_fact is not None:
            self.on_fact(t)

    def axiom(self, t):
        """Add an instance of a universally valid fact: holds in every context, so it is not scoped."""
        self._add(t)

    def check(self, *extra, timeout_ms=None):
        """sat / unsat / unknown of pc + scopes + extra."""
        self.stats['feasibility_queries'] = self.stats.get('feasibility_queries', 0) + 1
        import time as _t
        t0 = _t.time()
        if timeout_ms is not None:
            self.solver.set('timeout', timeout_ms)
        try:
            r = self.solver.check(*([x for x in self.scopes if not _has_quantifier(x) and not _has_regex(x)] + list(extra)))
        finally:
            if timeout_ms is not None:
                self.solver.set('timeout', FEAS_TIMEOUT_MS)
        dt = _t.time() - t0
        if dt > 1.0:
            self.stats.setdefault('slow_queries', []).append((round(dt, 2), str(r), [str(e)[:200] for e in extra]))
        return r

    def len_must_hold(self, t):
        """True only if ``t`` (a fact about offsets / lengths) is entailed: decided on the length
        abstraction of the context, never by the string solver."""
        self.stats['length_queries'] = self.stats.get('length_queries', 0) + 1
        return self.lenabs.must_hold(t, self.scopes)

    def is_feasible(self, t):
        if self.lenabs.infeasible(t, self.scopes):
            return False
        if _has_regex(t):
            # (never asked to the solver inside a big context: it may not come back; explore both sides)
            self.unknown_feasibility += 1
            return True
        r = self.check(t)
        if r == z3.unknown:
            self.unknown_feasibility += 1
            return True       # over-approximate: explore
        return r == z3.sat

    def must_hold(self, t, timeout_ms=None):
        """True iff ``t`` is entailed by the current path condition (+ scopes)."""
        if self.lenabs.must_hold(t, self.scopes):
            return True
        r = self.check(z3.Not(t), timeout_ms=timeout_ms)
        return r == z3.unsat

    # ---- decisions --------------------------------------------------------------
    def _next_decision(self):
        i = len(self.decisions)
        if i < len(self.prefix):
            return self.prefix[i]
        return None

    def _scope_ids(self):
        return frozenset(x.get_id() for x in self.scopes)

    def _lookup_known(self, t):
        ent = self.known.get(t.get_id())
        if ent:
            cur = self._scope_ids()
            for sc, val in ent:
                if sc <= cur:
                    return val
        return None

    def _record_known(self, t, val):
        self.known.setdefault(t.get_id(), []).append((self._scope_ids(), val))
        self._keep = getattr(self, '_keep', [])
        self._keep.append(t)       # keep the term alive so that its id is not reused

    def fork(self, cond):
        """Decide a symbolic boolean for control flow; returns a concrete bool."""
        if isinstance(cond, bool):
            return cond
        t = cond.t if isinstance(cond, SBool) else cond
        d = self._next_decision()
        if d is None or d == FORCE_FORK:
            k = self._lookup_known(t)
            if k is not None:
                can_t, can_f = k, not k
            else:
                can_t = self.is_feasible(t)
                can_f = self.is_feasible(z3.Not(t)) if can_t else True
                if can_t != can_f:
                    self._record_known(t, can_t)
            if can_t and can_f:
                if self.no_fork:
                    raise Unsupported('case split inside a quantifier body on %s' % str(t)[:300])
                self.pending.append(self.decisions + [False])
                d = True
            elif can_t:
                d = True
            elif can_f:
                d = False
            else:
                raise PathAbort()
        elif d == MERGE:
            raise AssertionError('decision log out of sync (merge at fork)')
        self.decisions.append(d)
        fact = t if d else (t.arg(0) if z3.is_not(t) else z3.Not(t))
        self._add(self._scoped(fact))
        if self.on_fact is not None:
            self.on_fact(fact)
        return d

    def choose(self, n, conds=None):
        """n-way decision.  ``conds[i]`` (optional) is the z3 condition of alternative i."""
        d = self._next_decision()
        if d is None or d == FORCE_FORK:
            feas = [i for i in range(n) if conds is None or self.is_feasible(conds[i])]
            if not feas:
                raise PathAbort()
            if len(feas) > 1 and self.no_fork:
                raise Unsupported('case split inside a quantifier body')
            for j in feas[1:]:
                self.pending.append(self.decisions + [j])
            d = feas[0]
        self.decisions.append(d)
        if conds is not None:
            self._add(self._scoped(conds[d]))
        return d

    def entailed_site(self, t):
        """At a boolean-operator site: 'T' if t is entailed, 'N' if its negation is, else None.
        The answer is recorded so that replays do not query the solver again."""
        d = self._next_decision()
        if d in ('T', 'N', 'U'):
            self.decisions.append(d)
            return None if d == 'U' else d
        if d is not None and d != FORCE_FORK:
            return None       # an older log format position: fall through to merge/fork handling
        if d == FORCE_FORK:
            return None
        k = self._lookup_known(t)
        if k is not None:
            r = 'T' if k else 'N'
        elif _has_quantifier(t):
            r = 'U'
        elif self.lenabs.must_hold(t, self.scopes):
            # (decided on the arithmetic / boolean abstraction only: this is an optimisation that avoids
            # building a merged formula, not worth a query to the string solver at every `and` / `or`)
            r = 'T'
            self._record_known(t, True)
        elif self.lenabs.must_hold(z3.Not(t), self.scopes):
            r = 'N'
            self._record_known(t, False)
        else:
            r = 'U'
        self.decisions.append(r)
        return None if r == 'U' else r

    def merge_site(self):
        """Returns True if this boolean-operator site should be merged, False if forked."""
        d = self._next_decision()
        if d == FORCE_FORK:
            return False
        if d is None or d == MERGE:
            self.decisions.append(MERGE)
            return True
        # an already decided real fork at this site
        return False

    class _Scope:
        def __init__(self, st, t, site_index):
            self.st = st
            self.t = t
            self.site_index = site_index

        def __enter__(self):
            self.st.scopes.append(self.t)
            return self

        def __exit__(self, et, ev, tb):
            self.st.scopes.pop()
            if et is not None and not issubclass(et, (PathAbort, RetryPath, Unsupported)) \
                    and self.site_index is not None:
                # an exception / control transfer inside a merged operand:
                # re-run with a real fork at this site
                if issubclass(et, Exception) or et.__name__ in ('PyRaise', 'ReturnSignal'):
                    raise RetryPath(self.st.decisions[:self.site_index] + [FORCE_FORK])
            return False

    def scope(self, t, site_index=None):
        return PathState._Scope(self, t, site_index)

    # ---- obligations ------------------------------------------------------------
    def oblige(self, name, goal, meta=None):
        """Record the obligation  pc (+scopes) => goal."""
        if isinstance(goal, bool):
            g = z3.BoolVal(goal)
        elif isinstance(goal, SBool):
            g = goal.t
        else:
            g = goal
        self.obligations.append((name, list(self.pc) + list(self.scopes), g, meta or {}))

    def emit(self, *event):
        self.trace.append(tuple(event))
