"""Path exploration by replay forking.

A path is identified by the list of decisions taken at symbolic choice points.  The
function under verification is re-executed from fresh inputs for each path.
"""
import os

try:
    import z3
except ImportError:      # replays run under the repository's interpreter, without z3
    z3 = None

from .values import SBool, SInt, SStr, to_z3


class PathAbort(BaseException):
    """Current path ends here (infeasible assumption); not an error."""


class RetryPath(BaseException):
    """Re-run with the given decision prefix (used to turn a merge into a real fork)."""

    def __init__(self, prefix):
        self.prefix = prefix


class Unsupported(Exception):
    """The engine cannot model something: the function is undecided (never a violation)."""


FORCE_FORK = 'F'
MERGE = 'M'
LOCAL = 'Q'


class QFrame:
    """One local run of a quantifier body: the local decisions taken / still to explore."""

    def __init__(self, prefix):
        self.prefix = list(prefix)
        self.decisions = []        # (condition term, decision)
        self.pending = []

FEAS_TIMEOUT_MS = 5000
MUST_HOLD_TIMEOUT_MS = 1000     # entailment probes (piece sharing, short-circuit sites): `unknown` is "not entailed" (sound)
SITE_TIMEOUT_MS = 500
INCREMENTAL_TIMEOUT_MS = 1000


def _conjuncts(t):
    """top-level conjuncts, looking through double negation and negated disjunctions"""
    if z3.is_and(t):
        out = []
        for c in t.children():
            out.extend(_conjuncts(c))
        return out
    if z3.is_not(t):
        x = t.arg(0)
        if z3.is_not(x):
            return _conjuncts(x.arg(0))
        if z3.is_or(x):
            out = []
            for c in x.children():
                out.extend(_conjuncts(z3.Not(c)))
            return out
    return [t]


_FLAG_CACHE = {}      # term id -> (term kept alive, has quantifier, has regex)


def _flags(t):
    i = t.get_id()
    ent = _FLAG_CACHE.get(i)
    if ent is None or not ent[0].eq(t):
        if len(_FLAG_CACHE) > 200000:
            _FLAG_CACHE.clear()
        ent = (t, _has_quantifier_uncached(t), _has_regex_uncached(t))
        _FLAG_CACHE[i] = ent
    return ent


def _has_quantifier(t):
    return _flags(t)[1]


def _has_regex(t):
    return _flags(t)[2]


def _has_regex_uncached(t):
    seen = set()
    todo = [t]
    while todo:
        x = todo.pop()
        i = x.get_id()
        if i in seen:
            continue
        seen.add(i)
        if z3.is_app(x) and x.decl().kind() == z3.Z3_OP_SEQ_IN_RE:
            return True
        if not z3.is_quantifier(x):
            todo.extend(x.children())
    return False


def _has_quantifier_uncached(t):
    seen = set()
    todo = [t]
    while todo:
        x = todo.pop()
        i = x.get_id()
        if i in seen:
            continue
        seen.add(i)
        if z3.is_quantifier(x):
            return True
        todo.extend(x.children())
    return False


_ARITH_OPS = None


def _arith_ops():
    global _ARITH_OPS
    if _ARITH_OPS is None:
        _ARITH_OPS = {z3.Z3_OP_ADD, z3.Z3_OP_SUB, z3.Z3_OP_MUL, z3.Z3_OP_UMINUS, z3.Z3_OP_LE, z3.Z3_OP_LT,
                      z3.Z3_OP_GE, z3.Z3_OP_GT, z3.Z3_OP_EQ, z3.Z3_OP_DISTINCT, z3.Z3_OP_ITE, z3.Z3_OP_AND,
                      z3.Z3_OP_OR, z3.Z3_OP_NOT, z3.Z3_OP_IMPLIES, z3.Z3_OP_IFF, z3.Z3_OP_TRUE, z3.Z3_OP_FALSE,
                      z3.Z3_OP_ANUM, z3.Z3_OP_IDIV, z3.Z3_OP_MOD}
    return _ARITH_OPS


_LA_MEMO = {}     # term id -> (term kept alive, is_length_arith)
_ABS_MEMO = {}    # term id -> (term kept alive, length abstraction or None, side facts)


def is_length_arith(t, _memo=None):
    """t is built from integer arithmetic, propositional structure, integer/boolean constants and
    lengths of strings only (the strings themselves are not inspected)."""
    i = t.get_id()
    ent = _LA_MEMO.get(i)
    if ent is not None:
        return ent[1]
    r = _is_length_arith(t)
    if len(_LA_MEMO) > 400000:
        _LA_MEMO.clear()
    _LA_MEMO[i] = (t, r)
    return r


def _is_length_arith(t, _memo=None):
    if _memo is None:
        _memo = {}
    i = t.get_id()
    r = _memo.get(i)
    if r is not None:
        return r
    r = False
    if z3.is_quantifier(t) or not z3.is_app(t):
        r = False
    elif not (z3.is_int(t) or z3.is_bool(t)):
        r = False
    else:
        k = t.decl().kind()
        if k == z3.Z3_OP_SEQ_LENGTH:
            r = True
        elif k == z3.Z3_OP_UNINTERPRETED:
            # a constant, or an application of an uninterpreted function (an opaque integer / boolean term: its
            # arguments are not inspected, the solver keeps congruence for syntactically equal arguments)
            r = True
        elif k in _arith_ops():
            r = all(is_length_arith(c) for c in t.children())
    _memo[i] = r
    return r


_LIA = {}        # term id -> (term kept alive, pure-LIA image, side facts)


def _len_term(s, side):
    """the length of the string term s as a term of pure linear integer arithmetic: literals are measured,
    concatenations summed, every other string term gets an integer constant (>= 0)"""
    i = s.get_id()
    ent = _LIA.get(i)
    if ent is not None:
        side.extend(ent[2])
        return ent[1]
    mine = []
    if z3.is_string_value(s):
        r = z3.simplify(z3.Length(s))
        if not z3.is_int_value(r):
            r = None
    elif z3.is_app(s) and s.decl().kind() == z3.Z3_OP_SEQ_CONCAT:
        r = z3.Sum([_len_term(c, mine) for c in s.children()])
    elif z3.is_app(s) and s.decl().kind() == z3.Z3_OP_ITE:
        c = length_abstraction(s.arg(0), mine)
        r = z3.If(c, _len_term(s.arg(1), mine), _len_term(s.arg(2), mine)) if c is not None else None
    else:
        r = None
    if r is None:
        r = z3.Int('len!%d' % i)
        mine.append(r >= 0)
    if len(_LIA) > 400000:
        _LIA.clear()
    _LIA[i] = (s, r, tuple(mine))
    side.extend(mine)
    return r


def _lia(t, side):
    """A length-arithmetic term (is_length_arith) without string-sorted subterms: Length(s) becomes the integer
    term _len_term(s), applications of uninterpreted functions become constants (one per application).  The
    length solver then works in pure linear arithmetic (no sequence theory, no arrays): same answers on
    lengths, much faster."""
    i = t.get_id()
    ent = _LIA.get(i)
    if ent is not None:
        side.extend(ent[2])
        return ent[1]
    mine = []
    k = t.decl().kind()
    if k == z3.Z3_OP_SEQ_LENGTH:
        a = t.arg(0)
        r = _len_term(a, mine) if z3.is_string(a) else z3.Int('opq!%d' % i)
    elif k == z3.Z3_OP_UNINTERPRETED:
        if t.num_args() == 0:
            r = t
        else:
            r = z3.Int('opq!%d' % i) if z3.is_int(t) else z3.Bool('opq!%d' % i)
    elif t.num_args() == 0:
        r = t
    else:
        r = t.decl()(*[_lia(c, mine) for c in t.children()])
    if len(_LIA) > 400000:
        _LIA.clear()
    _LIA[i] = (t, r, tuple(mine))
    side.extend(mine)
    return r


_ATOMS = {}      # term id -> (term, propositional constant): atoms that are not about lengths


def _atom(t):
    """The propositional constant that stands for the atom t in the length abstraction, and the consequences of t
    (resp. of its negation) for lengths: (constant, [side facts])."""
    i = t.get_id()
    ent = _ATOMS.get(i)
    if ent is None:
        ent = (t, z3.Bool('atom!%d' % i))
        _ATOMS[i] = ent          # (keeps t alive: its id is not reused)
    b = ent[1]
    side = []
    if z3.is_app(t):
        k = t.decl().kind()
        if k == z3.Z3_OP_EQ and z3.is_string(t.arg(0)):
            side.append(z3.Implies(b, _len_term(t.arg(0), side) == _len_term(t.arg(1), side)))
        elif k in (z3.Z3_OP_SEQ_PREFIX, z3.Z3_OP_SEQ_SUFFIX):
            side.append(z3.Implies(b, _len_term(t.arg(0), side) <= _len_term(t.arg(1), side)))
        elif k == z3.Z3_OP_SEQ_CONTAINS:
            side.append(z3.Implies(b, _len_term(t.arg(1), side) <= _len_term(t.arg(0), side)))
    return b, side


def length_abstraction(t, side=None):
    """The length abstraction of a quantifier-free formula: its propositional structure is kept, atoms about
    integers and string lengths are kept, every other atom becomes a propositional constant (the same constant
    for the same atom) with its consequences for lengths (`a == b` ==> equal lengths, prefix / contains ==>
    not longer) collected in `side`.  Every model of a set of formulas gives a model of their abstractions, so
    what the abstraction entails is entailed."""
    if side is None:
        side = []
    ent = _ABS_MEMO.get(t.get_id())
    if ent is not None:
        side.extend(ent[2])
        return ent[1]
    mine = []
    r = _length_abstraction(t, mine)
    if len(_ABS_MEMO) > 400000:
        _ABS_MEMO.clear()
    _ABS_MEMO[t.get_id()] = (t, r, tuple(mine))
    side.extend(mine)
    return r


def _length_abstraction(t, side):
    if is_length_arith(t):
        return _lia(t, side)
    if z3.is_quantifier(t) or not z3.is_app(t) or not z3.is_bool(t):
        return None
    k = t.decl().kind()
    if k in (z3.Z3_OP_AND, z3.Z3_OP_OR, z3.Z3_OP_NOT, z3.Z3_OP_IMPLIES, z3.Z3_OP_IFF) or \
            (k == z3.Z3_OP_EQ and z3.is_bool(t.arg(0))) or (k == z3.Z3_OP_ITE):
        parts = []
        for c in t.children():
            x = length_abstraction(c, side)
            if x is None:
                return None
            parts.append(x)
        if k == z3.Z3_OP_AND:
            return z3.And(*parts)
        if k == z3.Z3_OP_OR:
            return z3.Or(*parts)
        if k == z3.Z3_OP_NOT:
            return z3.Not(parts[0])
        if k == z3.Z3_OP_IMPLIES:
            return z3.Implies(parts[0], parts[1])
        if k == z3.Z3_OP_ITE:
            return z3.If(parts[0], parts[1], parts[2])
        return parts[0] == parts[1]
    b, more = _atom(t)
    side.extend(more)
    return b


class PathState:
    def __init__(self, prefix, stats):
        self.prefix = list(prefix)
        self.decisions = []
        self.pending = []          # alternative prefixes discovered on this run
        self.on_fact = None        # hook(term): called when a fact is added to the context (equality learning)
        self.solver = z3.Solver()
        self.solver.set('timeout', INCREMENTAL_TIMEOUT_MS)
        self._incremental_lost = 0 # number of `unknown` answers of the incremental solver on this path
        self._fresh_timeout = FEAS_TIMEOUT_MS
        self._len_memo = {}        # must_hold_lengths: (term id, scope ids) -> (len(pc), answer, term kept alive)
        self.established = {}      # ids of terms that are conjuncts of the (unscoped) path condition
        self._not_established = {} # term id -> len(pc) when it was last found not to be entailed
        self.len_solver = z3.Solver()   # integers and string lengths only (abstraction of pc): boundary questions
        self.len_solver.set('timeout', 2000)
        self.pc = []               # permanent conjuncts (z3 terms)
        self.scopes = []           # temporary assumptions (merge scopes)
        self.counters = {}
        self.trace = []            # ghost events
        self.ghost = {}            # ghost state for stdlib models
        self.obligations = []      # (name, pc-terms, goal-term, meta)
        self.stats = stats
        self.notes = []
        self.generators = []
        self.inlined = set()
        self.used_contracts = set()
        self.used_models = set()
        self.unknown_feasibility = 0
        self.side_conditions = []  # stack: in-range conditions collected inside quantifier bodies
        self.fresh_log = []        # every fresh constant, in creation order (for skolemisation in quantifiers)
        self.no_fork = 0           # >0 inside quantifier bodies: a real fork is not allowed
        self.qframes = []          # local case splits of quantifier bodies (merged by the quantifier model)
        self.known = {}            # z3 term id -> list of (frozenset(scope ids), bool): entailed truth values
        self.reached = set()       # line numbers of return/raise statements reached (reachability cover)

    # ---- naming -----------------------------------------------------------------
    def fresh_name(self, base):
        n = self.counters.get(base, 0)
        self.counters[base] = n + 1
        return base if n == 0 else '%s!%d' % (base, n)

    def fresh_int(self, base):
        c = z3.Int(self.fresh_name(base))
        self.fresh_log.append(c)
        return c

    def fresh_bool(self, base):
        c = z3.Bool(self.fresh_name(base))
        self.fresh_log.append(c)
        return c

    def fresh_str(self, base):
        c = z3.String(self.fresh_name(base))
        self.fresh_log.append(c)
        return c

    # ---- assumptions ------------------------------------------------------------
    def _scoped(self, t):
        if self.scopes:
            return z3.Implies(z3.And(*self.scopes) if len(self.scopes) > 1 else self.scopes[0], t)
        return t

    def assume(self, cond):
        """Add ``cond`` (python bool / SBool / z3 term) to the path condition."""
        if isinstance(cond, bool):
            if not cond:
                if self.scopes:
                    # contradiction only under the scope
                    self._add(z3.Not(z3.And(*self.scopes)))
                    return
                raise PathAbort()
            return
        t = cond.t if isinstance(cond, SBool) else cond
        self._add(self._scoped(t))
        if self.on_fact is not None:
            self.on_fact(t)

    def assume_unscoped(self, cond):
        """A fact about a symbolic object itself (shape constraint, invariant): the object is cached and
        outlives the merge scope it happens to be created in, so the fact must not be guarded by it."""
        if isinstance(cond, bool):
            if not cond:
                self.assume(cond)
            return
        self._add(cond.t if isinstance(cond, SBool) else cond)

    def _add(self, t):
        self.pc.append(t)
        # The feasibility solver only sees quantifier-free facts: satisfiability of quantified
        # (string) formulas is where solvers get lost; dropping facts there only over-approximates
        # the set of explored paths, the obligations are always proved from the full `pc`.
        # ... nor regular-expression membership facts: with them in the context the solver has been seen to
        # run far beyond its timeout on unrelated questions.
        for c in _conjuncts(t):
            self.established[c.get_id()] = c
            if not _has_quantifier(c):
                if not _has_regex(c):
                    self.solver.add(c)
                side = []
                la = length_abstraction(c, side)
                if la is not None:
                    self.len_solver.add(la)
                for f in side:
                    self.len_solver.add(f)

    def proof_step(self, cond):
        """A step of a proof in progress has just been recorded as an obligation: the rest of that proof may
        rely on it.  It becomes a temporary hypothesis (a scope) that the caller removes when the proof of the
        clause is complete (loops._call_pred), so that it never influences path feasibility, the vacuity guard or
        other clauses -- if the step is in fact false, only its own obligation is affected."""
        if isinstance(cond, bool):
            t = z3.BoolVal(cond)
        else:
            t = cond.t if isinstance(cond, SBool) else cond
        if z3.is_true(t):
            return
        self.scopes.append(t)
        if self.on_fact is not None:
            self.on_fact(t)

    def is_established(self, t):
        """t (the condition of a merge scope that has been left) is known to hold on this path: it is a
        conjunct of the path condition, or entailed by it (checked once the path condition has grown)."""
        i = t.get_id()
        if i in self.established:
            return True
        if any(x.get_id() == i for x in self.scopes):
            return True
        if self._not_established.get(i) == len(self.pc):
            return False
        cs = _conjuncts(t)
        if len(cs) > 1 and all(self.is_established(c) for c in cs):
            self.established[i] = t
            return True
        if self.ghost.get('__align__'):
            # (string alignment on, pyvc.strings: many more pieces are shared and this question is asked very often:
            # decided on the length abstraction only, never by the string solver -- "not established" is always a
            # sound answer, it only means a fresh decomposition instead of a shared one)
            ok = not _has_quantifier(t) and is_length_arith(t) and self.must_hold_lengths(t)
        else:
            ok = not _has_quantifier(t) and self.must_hold(t)
        if ok:
            self.established[i] = t
            return True
        self._not_established[i] = len(self.pc)
        return False

    def reset_pc(self, keep):
        """Replace the path condition by a subset of its conjuncts (forgetting facts is sound: obligations
        are proved from what remains)."""
        self.pc[:] = list(keep)
        self._len_memo = {}
        self.solver = z3.Solver()
        self.solver.set('timeout', INCREMENTAL_TIMEOUT_MS)
        self.len_solver = z3.Solver()
        self.len_solver.set('timeout', 2000)
        for t in self.pc:
            for c in _conjuncts(t):
                if not _has_quantifier(c):
                    if not _has_regex(c):
                        self.solver.add(c)
                    side = []
                    la = length_abstraction(c, side)
                    if la is not None:
                        self.len_solver.add(la)
                    for f in side:
                        self.len_solver.add(f)

    def check(self, *extra, timeout_ms=None):
        """sat / unsat / unknown of pc + scopes + extra."""
        self.stats['feasibility_queries'] = self.stats.get('feasibility_queries', 0) + 1
        import time as _t
        t0 = _t.time()
        assumptions = [x for x in self.scopes if not _has_quantifier(x) and not _has_regex(x)] + list(extra)
        if self._incremental_lost < 3:
            if timeout_ms is not None:
                self.solver.set('timeout', timeout_ms)
            try:
                r = self.solver.check(*assumptions)
            finally:
                if timeout_ms is not None:
                    self.solver.set('timeout', INCREMENTAL_TIMEOUT_MS)
            if r == z3.unknown and timeout_ms is None:
                self._incremental_lost += 1
        else:
            r = z3.unknown
        if r == z3.unknown:
            # z3's incremental mode is much weaker on strings than a fresh solver on the same assertions
            fresh = z3.Solver()
            fresh.set('timeout', self._fresh_timeout if timeout_ms is None else min(timeout_ms, self._fresh_timeout))
            fresh.add(self.solver.assertions())
            fresh.add(*assumptions)
            r = fresh.check()
            if r == z3.unknown and timeout_ms is None:
                # the path condition is beyond the solver: do not spend the full budget on every later question
                # of this path (unknown = explore, which is sound)
                self._fresh_timeout = max(300, self._fresh_timeout // 2)
        dt = _t.time() - t0
        if dt > 1.0 and os.environ.get('PYVC_DUMP_SLOW'):
            k = self.stats.get('n_dumped', 0)
            self.stats['n_dumped'] = k + 1
            if k < 5:
                sv = z3.Solver()
                sv.add(self.solver.assertions())
                sv.add(*([x for x in self.scopes if not _has_quantifier(x)] + list(extra)))
                with open(os.path.join(os.environ['PYVC_DUMP_SLOW'], 'slow%d.smt2' % k), 'w') as f:
                    f.write('; %s %.2fs\n' % (r, dt) + sv.to_smt2())
        if dt > 1.0:
            self.stats.setdefault('slow_queries', []).append((round(dt, 2), str(r), [str(e)[:200] for e in extra]))
            import os as _os
            if _os.environ.get('PYVC_DUMP_SLOW'):
                k = self.stats['feasibility_queries']
                s2 = z3.Solver()
                s2.add(*(list(self.pc)))
                with open('%s-%d.smt2' % (_os.environ['PYVC_DUMP_SLOW'], k), 'w') as f:
                    f.write('; %.2fs %s\n' % (dt, r) + s2.to_smt2())
                s2 = z3.Solver()
                s2.add(*(list(self.scopes) + list(extra)))
                with open('%s-%d-assumptions.smt2' % (_os.environ['PYVC_DUMP_SLOW'], k), 'w') as f:
                    f.write('; %.2fs %s\n' % (dt, r) + s2.to_smt2())
        return r

    def infeasible_site(self):
        """True iff the current assumptions (pc + scopes) are contradictory.  The answer is recorded in the
        decision log so that replays of the path do not ask the solver again."""
        d = self._next_decision()
        if d in ('cu', 'cs'):
            self.decisions.append(d)
            return d == 'cu'
        d = 'cu' if self.check() == z3.unsat else 'cs'
        self.decisions.append(d)
        return d == 'cu'

    def is_feasible(self, t):
        if is_length_arith(t) and self._len_check(t) == z3.unsat:
            return False
        if _has_regex(t):
            # (never asked to the solver inside a big context: it may not come back; explore both sides)
            self.unknown_feasibility += 1
            return True
        r = self.check(t)
        if r == z3.unknown:
            self.unknown_feasibility += 1
            return True       # over-approximate: explore
        return r == z3.sat

    def must_hold(self, t, timeout_ms=MUST_HOLD_TIMEOUT_MS):
        """True iff ``t`` is (quickly shown to be) entailed by the current path condition (+ scopes)."""
        r = self.check(z3.Not(t), timeout_ms=timeout_ms)
        return r == z3.unsat

    def _len_check(self, t):
        sc = []
        for x in self.scopes:
            la = length_abstraction(x, sc)
            if la is not None:
                sc.append(la)
        self.stats['length_queries'] = self.stats.get('length_queries', 0) + 1
        la = length_abstraction(t, sc)
        return self.len_solver.check(*(sc + [la if la is not None else t]))

    def _fork_by_lengths(self, t):
        """A branch condition about integers / string lengths that the length abstraction of the path
        condition already decides: (can_be_true, can_be_false), else None."""
        if not is_length_arith(t):
            return None
        rt = self._len_check(t)
        if rt == z3.unsat:
            return (False, True)
        rf = self._len_check(z3.Not(t))
        if rf == z3.unsat:
            return (True, False)
        return None

    def must_hold_lengths(self, t):
        """Entailment of a question about integers and string lengths, decided on the length abstraction of
        the path condition (sound: the abstraction is implied by the path condition; string facts beyond
        lengths are not used).  Fast and independent of the string solver."""
        if not is_length_arith(t):
            return self.must_hold(t)
        self.stats['length_queries'] = self.stats.get('length_queries', 0) + 1
        # (memo: the context only grows -- except in reset_pc, which clears the memo -- so what was entailed
        # under the same scopes still is; what was not is asked again only after new facts)
        key = (t.get_id(), tuple(x.get_id() for x in self.scopes))
        ent = self._len_memo.get(key)
        n_facts = len(self.pc)
        if ent is not None and (ent[1] or ent[0] == n_facts):
            return ent[1]
        sc = []
        for x in self.scopes:
            la = length_abstraction(x, sc)
            if la is not None:
                sc.append(la)
        goal = _lia(t, sc)
        r = self.len_solver.check(*(sc + [z3.Not(goal)])) == z3.unsat
        self._len_memo[key] = (n_facts, r, t)
        return r

    # ---- decisions --------------------------------------------------------------
    def _next_decision(self):
        i = len(self.decisions)
        if i < len(self.prefix):
            return self.prefix[i]
        return None

    def _scope_ids(self):
        return frozenset(x.get_id() for x in self.scopes)

    def _lookup_known(self, t):
        ent = self.known.get(t.get_id())
        if ent:
            cur = self._scope_ids()
            for sc, val in ent:
                if sc <= cur:
                    return val
        return None

    def _record_known(self, t, val):
        self.known.setdefault(t.get_id(), []).append((self._scope_ids(), val))
        self._keep = getattr(self, '_keep', [])
        self._keep.append(t)       # keep the term alive so that its id is not reused

    def fork(self, cond):
        """Decide a symbolic boolean for control flow; returns a concrete bool."""
        if isinstance(cond, bool):
            return cond
        t = cond.t if isinstance(cond, SBool) else cond
        d = self._next_decision()
        if d is None or d == FORCE_FORK:
            k = self._lookup_known(t)
            if k is not None:
                can_t, can_f = k, not k
            else:
                quick = self._fork_by_lengths(t)
                if quick is not None:
                    can_t, can_f = quick
                else:
                    can_t = self.is_feasible(t)
                    can_f = self.is_feasible(z3.Not(t)) if can_t else True
                if can_t != can_f:
                    self._record_known(t, can_t)
            if can_t and can_f:
                if self.no_fork:
                    self.decisions.append(LOCAL)
                    return self._local_fork(t)
                self.pending.append(self.decisions + [False])
                d = True
            elif can_t:
                d = True
            elif can_f:
                d = False
            else:
                raise PathAbort()
        elif d == MERGE:
            raise AssertionError('decision log out of sync (merge at fork)')
        elif d == LOCAL:
            self.decisions.append(LOCAL)
            return self._local_fork(t)
        self.decisions.append(d)
        fact = t if d else (t.arg(0) if z3.is_not(t) else z3.Not(t))
        self._add(self._scoped(fact))
        if self.on_fact is not None:
            self.on_fact(fact)
        return d

    def _local_fork(self, t):
        """A case split inside a quantifier body: decided per local run of the body; the quantifier
        model runs the body once per combination and merges the values (if-then-else on the conditions)."""
        if not self.qframes:
            raise Unsupported('case split inside a quantifier body')
        qf = self.qframes[-1]
        i = len(qf.decisions)
        if i < len(qf.prefix):
            ld = qf.prefix[i]
        else:
            ld = True
            qf.pending.append([x[1] for x in qf.decisions] + [False])
        c = t if ld else z3.Not(t)
        qf.decisions.append((c, ld))
        self.scopes.append(c)       # removed by the quantifier model at the end of this local run
        return ld

    def _local_choose(self, feas, conds):
        if not self.qframes or conds is None:
            raise Unsupported('case split inside a quantifier body')
        qf = self.qframes[-1]
        i = len(qf.decisions)
        if i < len(qf.prefix):
            ld = qf.prefix[i]
        else:
            ld = feas[0]
            for alt in feas[1:]:
                qf.pending.append([x[1] for x in qf.decisions] + [alt])
        qf.decisions.append((conds[ld], ld))
        self.scopes.append(conds[ld])
        return ld

    def choose(self, n, conds=None, assume_feasible=False):
        """n-way decision.  ``conds[i]`` (optional) is the z3 condition of alternative i.
        assume_feasible: do not ask the solver which alternatives are feasible (the caller filtered them)."""
        d = self._next_decision()
        if d is None or d == FORCE_FORK:
            feas = [i for i in range(n) if conds is None or assume_feasible or self.is_feasible(conds[i])]
            if not feas:
                raise PathAbort()
            if len(feas) > 1 and self.no_fork:
                self.decisions.append((LOCAL, tuple(feas)))
                return self._local_choose(feas, conds)
            for j in feas[1:]:
                self.pending.append(self.decisions + [j])
            d = feas[0]
        elif isinstance(d, tuple) and d and d[0] == LOCAL:
            self.decisions.append(d)
            return self._local_choose(list(d[1]), conds)
        self.decisions.append(d)
        if conds is not None:
            self._add(self._scoped(conds[d]))
        return d

    def entailed_site(self, t):
        """At a boolean-operator site: 'T' if t is entailed, 'N' if its negation is, else None.
        The answer is recorded so that replays do not query the solver again."""
        d = self._next_decision()
        if d in ('T', 'N', 'U'):
            self.decisions.append(d)
            return None if d == 'U' else d
        if d is not None and d != FORCE_FORK:
            return None       # an older log format position: fall through to merge/fork handling
        if d == FORCE_FORK:
            return None
        k = self._lookup_known(t)
        if k is not None:
            r = 'T' if k else 'N'
        elif _has_quantifier(t):
            r = 'U'
        elif self._fork_by_lengths(t) is not None:
            r = 'T' if self._fork_by_lengths(t)[0] else 'N'
            self._record_known(t, r == 'T')
        elif self.ghost.get('__align__'):
            r = 'U'      # (string alignment on: operands of and / or are only decided by lengths, see is_established)
        elif self.must_hold(t, SITE_TIMEOUT_MS):
            r = 'T'
            self._record_known(t, True)
        elif self.must_hold(z3.Not(t), SITE_TIMEOUT_MS):
            r = 'N'
            self._record_known(t, False)
        else:
            r = 'U'
        self.decisions.append(r)
        return None if r == 'U' else r

    def merge_site(self):
        """Returns True if this boolean-operator site should be merged, False if forked."""
        d = self._next_decision()
        if d == FORCE_FORK:
            return False
        if d is None or d == MERGE:
            self.decisions.append(MERGE)
            return True
        # an already decided real fork at this site
        return False

    class _Scope:
        def __init__(self, st, t, site_index):
            self.st = st
            self.t = t
            self.site_index = site_index

        def __enter__(self):
            self.st.scopes.append(self.t)
            return self

        def __exit__(self, et, ev, tb):
            sc = self.st.scopes
            for k in range(len(sc) - 1, -1, -1):     # conditions of local case splits pushed inside stay
                if sc[k] is self.t:
                    del sc[k]
                    break
            if et is not None and not issubclass(et, (PathAbort, RetryPath, Unsupported)) \
                    and self.site_index is not None:
                # an exception / control transfer inside a merged operand:
                # re-run with a real fork at this site
                if issubclass(et, Exception) or et.__name__ in ('PyRaise', 'ReturnSignal'):
                    raise RetryPath(self.st.decisions[:self.site_index] + [FORCE_FORK])
            return False

    def scope(self, t, site_index=None):
        return PathState._Scope(self, t, site_index)

    # ---- obligations ------------------------------------------------------------
    def oblige(self, name, goal, meta=None):
        """Record the obligation  pc (+scopes) => goal."""
        if isinstance(goal, bool):
            g = z3.BoolVal(goal)
        elif isinstance(goal, SBool):
            g = goal.t
        else:
            g = goal
        self.obligations.append((name, list(self.pc) + list(self.scopes), g, meta or {}))

    def emit(self, *event):
        self.trace.append(tuple(event))
