"""Verification of one function against its contract; use of contracts at call sites."""
import time
import traceback
import types

try:
    import z3
except ImportError:      # replays run under the repository's interpreter, without z3
    z3 = None

from . import frontend
from . import regex  # noqa: F401  (registers the assumed contract of re.Pattern.match)
from .api import Ty, Contract
from .interp import Interp, PyRaise, Closure, BoundMethod
from .loops import _call_pred, _param_names
from .path import PathState, PathAbort, RetryPath, Unsupported
from .values import SBool, SInt, Sym, SOpt, SChoice, to_z3, wrap

MAX_PATHS = 4000


class PathResult:
    __slots__ = ('decisions', 'obligations', 'outcome', 'aborted', 'unsupported', 'error')


def bind_call_args(func, args, kwargs):
    """Bind positional/keyword arguments of a call to the parameter names of ``func``."""
    code = func.__code__
    names = list(code.co_varnames[:code.co_argcount + code.co_kwonlyargcount])
    pos = names[:code.co_argcount]
    bound = {}
    if len(args) > len(pos):
        raise Unsupported('contract call with *args')
    for n, a in zip(pos, args):
        bound[n] = a
    for k, v in kwargs.items():
        if k in bound or k not in names:
            raise Unsupported('contract call: bad keyword %s' % k)
        bound[k] = v
    defaults = func.__defaults__ or ()
    for i, n in enumerate(pos):
        if n not in bound:
            di = i - (len(pos) - len(defaults))
            if di < 0:
                raise Unsupported('contract call: missing argument %s' % n)
            bound[n] = defaults[di]
    for n in names[code.co_argcount:]:
        if n not in bound:
            bound[n] = (func.__kwdefaults__ or {})[n]
    return bound


def _clause_env(bound, ghosts, extra):
    env = dict(extra)
    if 'result' in extra:
        env['ret'] = extra['result']      # the return value is `ret` when a parameter is itself called `result`
    env.update(ghosts)
    env.update(bound)
    return env


def apply_contract(interp, c, func, args, kwargs):
    """Modular call: assert the precondition, havoc, assume the postcondition."""
    st = interp.st
    st.used_contracts.add(c.qname)
    if c.returns is None and c.yields is None:
        from .api import _returns_a_value
        if c.returns_value is None:
            c.returns_value = _returns_a_value(func)
        if c.returns_value:
            raise Unsupported('contract of %s is used at a call site but gives no `returns` shape although the '
                              'function returns a value (give returns=... or inline=True)' % c.qname)
    bound = bind_call_args(func, args, kwargs)
    ghosts = {}
    for g, ty in c.ghosts.items():
        if g in interp.reg.ghost_env:
            ghosts[g] = interp.reg.ghost_env[g]
        else:
            ghosts[g] = ty.make(interp, 'ghost.%s' % g)
    env = _clause_env(bound, ghosts, {'trace': st.trace, 'ghost': st.ghost})
    caller = interp.current_function_name()
    # the shape of a parameter is part of the precondition: integer ranges are proved at the call site
    from .api import _Int, OneOf
    for pname, ty in c.params.items():
        if isinstance(ty, OneOf) and pname in bound and all(isinstance(x, (str, int)) for x in ty.values):
            # "one of these values" is part of the precondition as well
            v = bound[pname]
            if isinstance(v, SOpt):
                v = interp.resolve(v)
            if isinstance(v, SChoice) and all(any(a is x or a == x for x in ty.values) for a in v.alts):
                continue
            parts = [interp.eq(v, x) for x in ty.values]
            if any(p is True for p in parts):
                continue
            ts = [to_z3(p) for p in parts if p is not False]
            ok = wrap(z3.Or(*ts)) if ts else False
            st.oblige('%s : requires[%s is one of the declared values] of %s' % (caller, pname, c.qname), ok,
                      {'kind': 'callee-pre', 'callee': c.qname})
            st.assume(ok)
            continue
        if isinstance(ty, _Int) and (ty.lo is not None or ty.hi is not None) and pname in bound:
            v = bound[pname]
            if isinstance(v, (SOpt, SChoice)):
                v = interp.resolve(v)
            if isinstance(v, bool) or not isinstance(v, (int, SInt)):
                continue
            conds = []
            if ty.lo is not None:
                conds.append(to_z3(v) >= ty.lo)
            if ty.hi is not None:
                conds.append(to_z3(v) <= ty.hi)
            ok = wrap(z3.And(*conds))
            st.oblige('%s : requires[range of %s] of %s' % (caller, pname, c.qname), ok,
                      {'kind': 'callee-pre', 'callee': c.qname})
            st.assume(ok)
    if c.requires is not None:
        ok = interp.truth(_call_pred(interp, c.requires, env, proving=(
            '%s : requires of %s' % (caller, c.qname), {'kind': 'callee-pre', 'callee': c.qname})))
        st.oblige('%s : requires of %s' % (caller, c.qname), ok, {'kind': 'callee-pre', 'callee': c.qname})
        st.assume(ok)
    old = None
    if c.old is not None:
        old = _call_pred(interp, c.old, env)
    if isinstance(c.event, tuple):
        # (name, payload): the payload predicate is evaluated now, on the state at the call
        st.emit(c.event[0], dict(bound), _call_pred(interp, c.event[1], env))
    elif c.event is not None:
        st.emit(c.event, dict(bound))
    # deterministic `when` conditions are about the pre-state: evaluate them before the frame is havocked
    whens = []
    for exc_cls, spec in c.raises.items():
        when = spec.get('when')
        if when is not None:
            whens.append((exc_cls, spec, interp.truth(_call_pred(interp, when, env))))
    if c.modifies:
        havoc_modifies(interp, c, bound)

    def raise_(exc_cls, spec):
        exc = _make_exc(interp, exc_cls, spec, env)
        ens = spec.get('ensures')
        if isinstance(ens, tuple) and callable(ens[1]):      # (clause, when): see the same form in `ensures`
            ens = ens[0] if ens[1](interp.fn_name) else None
        if c.modifies and ens is not None:
            # the frame was havocked: what the exceptional postcondition says about it is all that is known
            envx = _clause_env(bound, ghosts, {'exc': exc, 'old': old, 'trace': st.trace, 'ghost': st.ghost})
            st.assume(interp.truth(_call_pred(interp, ens, envx, assumed=True)))
        raise PyRaise(exc)

    # exceptional outcomes
    for exc_cls, spec, w in whens:
        if interp.st.fork(w):
            raise_(exc_cls, spec)
    nondet = [(exc_cls, spec) for exc_cls, spec in c.raises.items() if spec.get('when') is None]
    nondet += [(exc_cls, {}) for exc_cls in c.may_raise]
    if nondet:
        k = st.choose(1 + len(nondet))
        if k > 0:
            raise_(*nondet[k - 1])
    from .api import _Int as _I, _Bool as _B, _Str as _S
    if getattr(c, 'pure_result', False):
        for n in list(bound):
            if isinstance(bound[n], (SOpt, SChoice)):
                bound[n] = interp.resolve(bound[n])
    if getattr(c, 'pure_result', False) and isinstance(c.returns, (_I, _B, _S)) and \
            all(isinstance(v, (SInt, SBool, int, str, bool)) or type(v).__name__ == 'SStr' for v in bound.values()):
        # a deterministic function without effects: its result is an uninterpreted function of the arguments
        # (that it is one is what `pure_result=True` claims: the body reads nothing but its arguments)
        names = list(bound)
        ts = [to_z3(bound[n]) for n in names]
        rs = {_I: z3.IntSort(), _B: z3.BoolSort(), _S: z3.StringSort()}[type(c.returns)]
        uf = z3.Function('fn.' + c.qname.replace(':', '.'), *([t.sort() for t in ts] + [rs]))
        result = wrap(uf(*ts))
    elif isinstance(c.returns, Ty):
        result = c.returns.make(interp, 'ret.%s' % c.qname.rpartition(':')[2])
    elif callable(c.returns):
        # the result is built from the actual arguments (e.g. an object that refers to them)
        result = c.returns(interp, bound)
    else:
        result = None
    if c.yields is not None:
        # a generator used through its contract: all its items at once (its effects happen at the call)
        from .models import SIter
        ys = c.yields.make(interp, 'yielded.%s' % c.qname.rpartition(':')[2])
        ghosts = dict(ghosts, yielded=ys)
        result = SIter(ys, 0)
    if c.event is not None:
        st.emit((c.event[0] if isinstance(c.event, tuple) else c.event) + ':returned', result)
    env2 = _clause_env(bound, ghosts, {'result': result, 'old': old, 'trace': st.trace, 'ghost': st.ghost})
    n_pc = len(st.pc)
    n_dec0 = len(st.decisions)
    feasible_before = (c.modifies is not None or callable(c.returns)) and st.check(timeout_ms=300) == z3.sat
    for name, clause in c.ensures.items():
        if isinstance(clause, tuple) and callable(clause[1]):
            # (clause, when): proved of the function, but assumed at a call site only where
            # when(name of the function under verification) holds (detail that other levels do not need)
            if not clause[1](interp.fn_name):
                continue
            clause = clause[0]
        elif isinstance(clause, tuple):       # (clause, 'effect') : executed for its effect on ghost state
            _call_pred(interp, clause[0], env2)
            continue
        n_dec = len(st.decisions)
        try:
            st.assume(interp.truth(_call_pred(interp, clause, env2, assumed=True)))
        except PathAbort:
            if len(st.decisions) != n_dec:
                raise        # one alternative of a case split made inside the clause (e.g. on the result) is ruled out
            # The postcondition is plainly false of the state after the frame havoc: the contract cannot be
            # used like this (e.g. a field havocked as an opaque value that the postcondition identifies with an
            # existing object).  Letting the path die here would silently drop everything after the call.
            raise Unsupported('call of %s through its contract in %s: ensures[%s] is false after the frame havoc '
                              '(use inline=True or a frame that can produce the promised state)'
                              % (c.qname, caller, name))
    if feasible_before and len(st.decisions) == n_dec0 and len(st.pc) > n_pc and \
            st.check(timeout_ms=300) == z3.unsat:
        # The path was satisfiable, the frame was havocked, and the postcondition -- without any case split
        # that could have ruled out an alternative -- made it unsatisfiable: the havoc cannot produce a state the
        # postcondition describes (typically: it promises the identity of an object that the havoc re-created).
        # Everything after this call would be "proved" vacuously.
        raise Unsupported('call of %s through its contract in %s: the postcondition cannot be satisfied by the '
                          'state after the frame havoc (vacuous continuation)' % (c.qname, caller))
    return result


def _make_exc(interp, exc_cls, spec, env):
    sh = spec.get('shape')
    if isinstance(sh, Ty):          # an arbitrary exception object of this shape
        return sh.make(interp, 'exc')
    mk = spec.get('make')
    if mk is not None:
        return _call_pred(interp, mk, env)
    if isinstance(exc_cls, Ty):
        return exc_cls.make(interp, 'exc')
    try:
        return exc_cls()
    except TypeError:
        return exc_cls.__new__(exc_cls)


def _modified_object(interp, bound, path):
    """'self' or 'self._document_source': a parameter, or an object reached from it by attribute names."""
    parts = path.split('.')
    if parts[0] not in bound:
        raise Unsupported('modifies: %r is not a parameter' % parts[0])
    obj = bound[parts[0]]
    for a in parts[1:]:
        obj = interp.getattr(obj, a)
    if isinstance(obj, (SOpt, SChoice)):
        obj = interp.resolve(obj)
    return obj


def havoc_modifies(interp, c, bound):
    """Call site of a contract with a frame: the declared attributes get arbitrary new values."""
    for path, attrs in c.modifies.items():
        obj = _modified_object(interp, bound, path)
        if obj is None:
            continue
        from .api import HavocBy
        if isinstance(attrs, HavocBy):
            # the object becomes arbitrary in its own way (e.g. by an environment step that is known to
            # cover every state the postcondition allows)
            interp.note_heap_write(obj, None)
            import inspect as _inspect
            if len(_inspect.signature(attrs.fn).parameters) >= 3:
                attrs.fn(interp, obj, bound)       # (the new state may refer to the other arguments)
            else:
                attrs.fn(interp, obj)
            continue
        for attr, ty in attrs.items():
            interp.note_heap_write(obj, attr)
            v = ty.make(interp, 'post.%s.%s' % (path, attr)) if isinstance(ty, Ty) else ty
            interp.setattr(obj, attr, v)


_MISSING = object()


def _snap_value(v):
    if isinstance(v, list):
        return ('list', v, list(v))
    if isinstance(v, dict):
        return ('dict', v, dict(v))
    return ('obj', v, None)


def snapshot_frame(interp, c, bound):
    """Before the call: the attributes of every plain-instance parameter (and of every object named in
    `modifies`), one level of list / dict contents included."""
    snaps = {}
    paths = list(bound.keys()) + [p for p in c.modifies if p not in bound]
    for path in paths:
        try:
            obj = _modified_object(interp, bound, path)
        except PyRaise:
            continue
        d = getattr(obj, '__dict__', None)
        if obj is None or isinstance(obj, (Sym, type, types.FunctionType, types.ModuleType)) or not isinstance(d, dict):
            continue
        from .values import Opaque
        if isinstance(obj, Opaque):
            continue
        snaps[path] = (obj, {k: _snap_value(v) for k, v in d.items()})
    return snaps


def check_frame(interp, c, snaps, fname):
    """After the call (normal or exceptional): everything outside `modifies` is unchanged."""
    st = interp.st
    for path, (obj, before) in snaps.items():
        allowed = c.modifies.get(path, {})
        from .api import HavocBy
        if isinstance(allowed, HavocBy):
            continue
        after = obj.__dict__
        for k in sorted(set(before) | set(after)):
            if k in allowed:
                continue
            b = before.get(k, _MISSING)
            a = after.get(k, _MISSING)
            name = '%s : frame[%s.%s unchanged]' % (fname, path, k)
            if b is _MISSING or a is _MISSING:
                st.oblige(name, False, {'kind': 'frame'})
                continue
            kind, bv, content = b
            if a is not bv:
                same = interp.eq(a, bv) if isinstance(a, (Sym, int, str, bool, type(None))) and \
                    isinstance(bv, (Sym, int, str, bool, type(None))) else False
                st.oblige(name, same, {'kind': 'frame'})
                continue
            if kind == 'list':
                ok = len(a) == len(content) and all(x is y for x, y in zip(a, content))
                st.oblige(name, ok, {'kind': 'frame', 'what': 'list contents'})
            elif kind == 'dict':
                ok = set(a) == set(content) and all(a[q] is content[q] for q in content)
                st.oblige(name, ok, {'kind': 'frame', 'what': 'dict contents'})
            else:
                st.oblige(name, True, {'kind': 'frame'})


class FunctionReport:
    def __init__(self, qname):
        self.qname = qname
        self.paths = 0
        self.aborted_paths = 0
        self.obligations = {}      # name -> list of (pc, goal, meta, decisions)
        self.unsupported = []
        self.errors = []
        self.inlined = set()
        self.used_contracts = set()
        self.used_models = set()
        self.native_calls = set()
        self.assumed_asserts = set()
        self.outcomes = {}         # 'return' / exception class name -> count
        self.source = None
        self.sha = None
        self.wall = 0.0
        self.unknown_feasibility = 0
        self.feasibility_queries = 0
        self.slow_queries = []
        self.deps_sha = None


def verify_function(reg, c, budget_paths=MAX_PATHS):
    """Explore every path of the real function and collect the obligations."""
    rep = FunctionReport(c.qname)
    t0 = time.time()
    func = c.func
    info = frontend.funcinfo_of(func)
    rep.source = '%s:%d' % (info.filename, info.node.lineno)
    rep.sha = info.source_sha
    worklist = [[]]
    seen = 0
    reached = set()
    while worklist:
        prefix = worklist.pop()
        seen += 1
        if seen > budget_paths:
            rep.unsupported.append('path budget (%d) exceeded' % budget_paths)
            break
        stats = {}
        st = PathState(prefix, stats)
        interp = Interp(st, reg)
        interp.fn_name = c.qname
        interp.cover_node = info.node
        try:
            _run_path(interp, reg, c, func, rep)
            rep.paths += 1
            reached |= st.reached      # (the path is satisfiable: _run_path ends with the vacuity guard)
        except PathAbort:
            rep.aborted_paths += 1
        except RetryPath as r:
            worklist.append(r.prefix)
            _cleanup(st)
            continue
        except Unsupported as u:
            rep.unsupported.append(str(u))
        except PyRaise as e:
            rep.errors.append('uncaught interpreted exception outside the function: %r' % (e.exc,))
        except RecursionError:
            rep.unsupported.append('recursion limit')
        except Exception:
            rep.errors.append(traceback.format_exc())
        finally:
            _cleanup(st)
        for p in st.pending:
            worklist.append(p)
        for (name, pc, goal, meta) in st.obligations:
            rep.obligations.setdefault(name, []).append((pc, goal, meta, list(st.decisions)))
        rep.inlined |= st.inlined
        rep.used_contracts |= st.used_contracts
        rep.used_models |= st.used_models
        rep.native_calls |= stats.get('native_calls', set())
        rep.assumed_asserts |= stats.get('assumed_isinstance_asserts', set())
        rep.unknown_feasibility += st.unknown_feasibility
        rep.feasibility_queries += stats.get('feasibility_queries', 0)
        rep.slow_queries.extend(stats.get('slow_queries', []))
    # Reachability cover (guard against vacuous proofs): every `return` / `raise` statement of the function
    # must be reached by at least one satisfiable path.  One that is not means that the assumptions (precondition,
    # postconditions of callees after a havoc, loop invariants) exclude the situations in which it executes --
    # whatever is "proved" about them is empty.  `cover=False` on the contract switches the guard off; `cover=(n,..)`
    # lists line numbers (relative to the `def` line) that are known to be unreachable under the precondition.
    if c.cover and not rep.unsupported and not rep.errors:
        import ast as _ast
        from .loops import _walk_own
        allowed = set(c.cover) if isinstance(c.cover, (tuple, list, set)) else set()
        for n in _walk_own(info.node):
            if isinstance(n, (_ast.Return, _ast.Raise)) and n.lineno not in reached \
                    and (n.lineno - info.node.lineno) not in allowed:
                rep.unsupported.append('vacuity guard: the %s statement at line %d (def + %d) is not reached by any '
                                       'satisfiable path' % ('return' if isinstance(n, _ast.Return) else 'raise',
                                                             n.lineno, n.lineno - info.node.lineno))
    rep.wall = time.time() - t0
    rep.deps_sha = _deps_sha(reg, c, rep)
    return rep


def _deps_sha(reg, c, rep):
    """hash of the source text the obligations of this function were generated from: the function
    itself and every repository function that was interpreted (inlined) while verifying it"""
    import hashlib
    import importlib
    parts = [rep.sha or '']
    for q in sorted(rep.inlined):
        modname, _, path = q.partition(':')
        try:
            obj, _owner = frontend.resolve_qualified(q)
            f = frontend.raw_function(obj)
            parts.append(q + '=' + (frontend.funcinfo_of(f).source_sha or ''))
        except Exception:
            parts.append(q + '=?')
    return hashlib.sha256('\n'.join(parts).encode()).hexdigest()


def _cleanup(st):
    for g in st.generators:
        try:
            g.abort()
        except BaseException:
            pass


def make_inputs(interp, c):
    ghosts = {}
    interp.reg.ghost_env = ghosts
    for name, ty in c.ghosts.items():
        ghosts[name] = ty.make(interp, 'ghost.' + name) if isinstance(ty, Ty) else ty
    args = {}
    for name, ty in c.params.items():
        args[name] = ty.make(interp, name) if isinstance(ty, Ty) else ty
    return args, ghosts


def _run_path(interp, reg, c, func, rep):
    st = interp.st
    args, ghosts = make_inputs(interp, c)
    reg.ghost_env = dict(ghosts)
    if c.setup is not None:
        extra = c.setup(interp, args, ghosts)
        if extra:
            ghosts.update(extra)
            reg.ghost_env.update(extra)
    env = _clause_env(args, ghosts, {'trace': st.trace, 'ghost': st.ghost})
    if c.requires is not None:
        st.assume(interp.truth(_call_pred(interp, c.requires, env, assumed='aligned')))
    if st.check() == z3.unsat:
        raise PathAbort()
    old = None
    if c.old is not None:
        old = _call_pred(interp, c.old, env)
        reg.ghost_env['old'] = old        # visible to loop invariants
    # positional order of the real function
    code = func.__code__
    names = list(code.co_varnames[:code.co_argcount + code.co_kwonlyargcount])
    missing = [n for n in names[:code.co_argcount] if n not in args]
    if missing:
        defaults = func.__defaults__ or ()
        for i, n in enumerate(names[:code.co_argcount]):
            if n in missing:
                di = i - (code.co_argcount - len(defaults))
                if di < 0:
                    raise Unsupported('contract %s: no shape given for parameter %r' % (c.qname, n))
                args[n] = defaults[di]
    pos = [args[n] for n in names[:code.co_argcount]]
    kw = {n: args[n] for n in names[code.co_argcount:] if n in args}
    outcome = None
    pre_whens = {}
    snaps = None
    if c.modifies is not None:
        # the function may change its arguments: `when` conditions speak about the pre-state, and
        # everything outside the declared frame must be unchanged afterwards
        for exc_cls, spec in c.raises.items():
            if spec.get('when') is not None:
                pre_whens[exc_cls] = interp.truth(_call_pred(interp, spec['when'], env))
        snaps = snapshot_frame(interp, c, args)
    info = frontend.funcinfo_of(func)
    yseq = None
    if info.is_generator:
        from .gens import YSeq
        yseq = YSeq('yielded')
        if c.yields is not None:
            yseq.shape = _shape_of_ty(getattr(c.yields, 'elem', None))
        interp.collect = [info, yseq, False]
    try:
        result = interp.call_real_function(func, pos, kw, c.owner)
        outcome = ('return', result)
    except PyRaise as e:
        outcome = ('raise', e.exc)
    if yseq is not None:
        ghosts = dict(ghosts, yielded=yseq)
    key = 'return' if outcome[0] == 'return' else type(outcome[1]).__name__
    rep.outcomes[key] = rep.outcomes.get(key, 0) + 1
    fname = c.qname
    if snaps is not None:
        check_frame(interp, c, snaps, fname)
    if outcome[0] == 'return':
        env2 = _clause_env(args, ghosts, {'result': outcome[1], 'old': old, 'trace': st.trace, 'ghost': st.ghost})
        # a declared deterministic `when` exception must have been raised
        for exc_cls, spec in c.raises.items():
            when = spec.get('when')
            if when is not None:
                w = pre_whens[exc_cls] if exc_cls in pre_whens else interp.truth(_call_pred(interp, when, env))
                st.oblige('%s : raises[%s] when-condition implies raise' % (fname, _exc_name(exc_cls)),
                          interp.not_(w), {'kind': 'exc-post'})
        for name, clause in c.ensures.items():
            if isinstance(clause, tuple) and callable(clause[1]):
                clause = clause[0]
            elif isinstance(clause, tuple):
                continue
            _oblige_clause(interp, '%s : ensures[%s]' % (fname, name), clause, env2, {'kind': 'post'})
    else:
        exc = outcome[1]
        matched = False
        for exc_cls, spec in c.raises.items():
            if _exc_is(exc, exc_cls):
                matched = True
                env2 = _clause_env(args, ghosts, {'exc': exc, 'old': old, 'trace': st.trace, 'ghost': st.ghost})
                when = spec.get('when')
                if when is not None and exc_cls in pre_whens:
                    st.oblige('%s : raises[%s] only when' % (fname, _exc_name(exc_cls)), pre_whens[exc_cls],
                              {'kind': 'exc-post'})
                elif when is not None:
                    _oblige_clause(interp, '%s : raises[%s] only when' % (fname, _exc_name(exc_cls)),
                                   when, env, {'kind': 'exc-post'})
                st.oblige('%s : raises[%s] is a declared outcome' % (fname, _exc_name(exc_cls)), True,
                          {'kind': 'exc-post'})
                ens = spec.get('ensures')
                if isinstance(ens, tuple) and callable(ens[1]):
                    ens = ens[0]
                if ens is not None:
                    _oblige_clause(interp, '%s : raises[%s] ensures' % (fname, _exc_name(exc_cls)),
                                   ens, env2, {'kind': 'exc-post'})
                break
        if not matched:
            for exc_cls in c.may_raise:
                if _exc_is(exc, exc_cls):
                    matched = True
        if not matched:
            allowed = c.raises_only
            if allowed is not None or c.raises or c.may_raise or c.ensures:
                # an exception the contract does not allow: the obligation `False` under this path
                st.oblige('%s : raises_only(%s)' % (fname, ', '.join(_exc_name(e) for e in
                                                                     list(c.raises) + list(c.may_raise)
                                                                     + list(allowed or ()))),
                          isinstance(exc, tuple(allowed)) if allowed else False,
                          {'kind': 'raises-only', 'exception': repr(exc)})
    # vacuity guard: the path must be satisfiable, otherwise its obligations say nothing
    if st.check() == z3.unsat:
        st.obligations[:] = [o for o in st.obligations if o[3].get('kind') in ('callee-pre', 'loop-entry')]
        raise PathAbort()
    if c.raises_only is not None and outcome[0] == 'return':
        st.oblige('%s : raises_only(%s)' % (fname, ', '.join(_exc_name(e) for e in list(c.raises) + list(c.may_raise)
                                                            + list(c.raises_only))), True, {'kind': 'raises-only'})


def _shape_of_ty(ty):
    from . import api
    if isinstance(ty, api.FixedList) and ty.as_tuple:
        return ('tuple', tuple(_shape_of_ty(t) for t in ty.elems))
    if isinstance(ty, api._Int):
        return ('int',)
    if isinstance(ty, api._Bool):
        return ('bool',)
    if isinstance(ty, api._Str):
        return ('str',)
    return ('obj',)


def _exc_is(exc, exc_cls):
    """does the exception belong to the declared outcome?  A class, or Iface(I): an opaque exception object
    of interface I (an exception of the environment whose class is not fixed)."""
    from .api import Iface
    from .values import Opaque
    if isinstance(exc_cls, Iface):
        return isinstance(exc, Opaque) and exc._pv_iface is exc_cls.iface
    return isinstance(exc_cls, type) and isinstance(exc, exc_cls)


def _exc_name(e):
    from .api import Iface
    if isinstance(e, Iface):
        return 'opaque:' + e.iface.__name__
    return getattr(e, '__name__', repr(e))


def _oblige_clause(interp, name, clause, env, meta):
    st = interp.st
    try:
        v = interp.truth(_call_pred(interp, clause, env, proving=(name, meta)))
    except PyRaise as e:
        st.oblige(name, False, dict(meta, clause_raised=repr(e.exc)))
        return
    st.oblige(name, v, meta)
