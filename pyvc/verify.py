"""Verification of one function against its contract; use of contracts at call sites."""
import os
import time
import traceback
import types

try:
    import z3
except ImportError:      # replays run under the repository's interpreter, without z3
    z3 = None

from . import frontend
from .api import Ty, Contract, Dependent
from .interp import Interp, PyRaise, Closure, BoundMethod
from .loops import _call_pred, _param_names
from .path import PathState, PathAbort, RetryPath, Unsupported
from .values import SBool, SInt, Sym, SOpt, SChoice, contains_sym, to_z3, wrap

MAX_PATHS = 4000


class PathResult:
    __slots__ = ('decisions', 'obligations', 'outcome', 'aborted', 'unsupported', 'error')


def bind_call_args(func, args, kwargs):
    """Bind positional/keyword arguments of a call to the parameter names of ``func``."""
    code = func.__code__
    names = list(code.co_varnames[:code.co_argcount + code.co_kwonlyargcount])
    pos = names[:code.co_argcount]
    bound = {}
    if len(args) > len(pos):
        raise Unsupported('contract call with *args')
    for n, a in zip(pos, args):
        bound[n] = a
    for k, v in kwargs.items():
        if k in bound or k not in names:
            raise Unsupported('contract call: bad keyword %s' % k)
        bound[k] = v
    defaults = func.__defaults__ or ()
    for i, n in enumerate(pos):
        if n not in bound:
            di = i - (len(pos) - len(defaults))
            if di < 0:
                raise Unsupported('contract call: missing argument %s' % n)
            bound[n] = defaults[di]
    for n in names[code.co_argcount:]:
        if n not in bound:
            bound[n] = (func.__kwdefaults__ or {})[n]
    return bound


def _clause_env(bound, ghosts, extra):
    env = dict(extra)
    if 'result' in extra:
        env['ret'] = extra['result']      # the return value is `ret` when a parameter is itself called `result`
    env.update(ghosts)
    env.update(bound)
    return env


def apply_contract(interp, c, func, args, kwargs):
    """Modular call: assert the precondition, havoc, assume the postcondition."""
    st = interp.st
    st.used_contracts.add(getattr(c, 'key', c.qname))
    if c.returns is None and c.yields is None:
        from .api import _returns_a_value
        if c.returns_value is None:
            c.returns_value = _returns_a_value(func)
        if c.returns_value:
            raise Unsupported('contract of %s is used at a call site but gives no `returns` shape although the '
                              'function returns a value (give returns=... or inline=True)' % c.qname)
    bound = bind_call_args(func, args, kwargs)
    ghosts = {}
    for g, ty in c.ghosts.items():
        if g in interp.reg.ghost_env:
            ghosts[g] = interp.reg.ghost_env[g]
        else:
            ghosts[g] = ty.make(interp, 'ghost.%s' % g)
    env = _clause_env(bound, ghosts, {'trace': st.trace, 'ghost': st.ghost})
    caller = interp.current_function_name()
    # the shape of a parameter is part of the precondition: integer ranges are proved at the call site
    from .api import _Int, OneOf
    for pname, ty in c.params.items():
        if isinstance(ty, OneOf) and pname in bound and all(isinstance(x, (str, int)) for x in ty.values):
            # "one of these values" is part of the precondition as well
            v = bound[pname]
            if isinstance(v, SOpt):
                v = interp.resolve(v)
            if isinstance(v, SChoice) and all(any(a is x or a == x for x in ty.values) for a in v.alts):
                continue
            parts = [interp.eq(v, x) for x in ty.values]
            if any(p is True for p in parts):
                continue
            ts = [to_z3(p) for p in parts if p is not False]
            ok = wrap(z3.Or(*ts)) if ts else False
            st.oblige('%s : requires[%s is one of the declared values] of %s' % (caller, pname, c.qname), ok,
                      {'kind': 'callee-pre', 'callee': c.qname})
            st.assume(ok)
            continue
        if isinstance(ty, _Int) and (ty.lo is not None or ty.hi is not None) and pname in bound:
            v = bound[pname]
            if isinstance(v, (SOpt, SChoice)):
                v = interp.resolve(v)
            if isinstance(v, bool) or not isinstance(v, (int, SInt)):
                continue
            conds = []
            if ty.lo is not None:
                conds.append(to_z3(v) >= ty.lo)
            if ty.hi is not None:
                conds.append(to_z3(v) <= ty.hi)
            ok = wrap(z3.And(*conds))
            st.oblige('%s : requires[range of %s] of %s' % (caller, pname, c.qname), ok,
                      {'kind': 'callee-pre', 'callee': c.qname})
            st.assume(ok)
    if c.requires is not None:
        ok = interp.truth(_call_pred(interp, c.requires, env, proving=(
            '%s : requires of %s' % (caller, c.qname), {'kind': 'callee-pre', 'callee': c.qname})))
        st.oblige('%s : requires of %s' % (caller, c.qname), ok, {'kind': 'callee-pre', 'callee': c.qname})
        st.assume(ok)
    old = None
    if c.old is not None:
        old = _call_pred(interp, c.old, env)
        env = dict(env, old=old)      # `when` conditions of exceptional outcomes may mention the pre-state
    ev_name = c.event[0] if isinstance(c.event, tuple) else c.event
    if isinstance(c.event, tuple):
        # (name, payload): the payload expression is evaluated now, on the state at the call, and recorded
        # with the event: (name, arguments, payload)
        st.emit(ev_name, dict(bound), _call_pred(interp, c.event[1], env))
    elif c.event is not None:
        st.emit(c.event, dict(bound))
    # deterministic `when` conditions of exceptional outcomes are predicates of the PRE-state: evaluated before
    # the frame is havoced (the callee may change the fields they read)
    when_pre = {}
    for exc_cls_, spec_ in c.raises.items():
        if spec_.get('when') is not None:
            when_pre[exc_cls_] = interp.truth(_call_pred(interp, spec_['when'], env))
    # frame: ghost state the callee may change (entries 'ghost:<key>' of `modifies`) is havoced;
    # what is known about it afterwards is what the (exceptional) postconditions say
    short = c.qname.rpartition(':')[2]
    for key, ty in (c.modifies.items() if isinstance(c.modifies, dict) else ()):
        if hasattr(ty, 'havoc_in_place'):
            # an object whose (ghost) state the callee changes: havocked in place, identity kept
            path = key.split('.')
            obj = bound[path[0]]
            if isinstance(obj, (SOpt, SChoice)):
                obj = interp.resolve(obj)
            for a in path[1:]:
                obj = interp.getattr(obj, a)
            ty.havoc_in_place(interp, obj, '%s@%s' % (key, short))
            continue
        if isinstance(ty, Dependent):
            v = ty.make_for_call(interp, '%s@%s' % (key, short), env)
        else:
            v = ty.make(interp, '%s@%s' % (key, short)) if isinstance(ty, Ty) else ty
        if key.startswith('ghost:'):
            st.ghost[key[6:]] = v
        else:
            # object field reachable from a parameter: 'self._x', 'self._a._b' (private names written mangled)
            path = key.split('.')
            if path[0] not in bound or len(path) < 2:
                raise Unsupported('modifies entry %r of %s: unknown base' % (key, c.qname))
            obj = bound[path[0]]
            for a in path[1:-1]:
                obj = interp.getattr(obj, a)
            if isinstance(obj, (SOpt, SChoice)):
                obj = interp.resolve(obj)
            interp.setattr(obj, path[-1], v)

    if c.modifies and not isinstance(c.modifies, dict):
        _havoc_modified(interp, c, bound)

    def raise_(exc_cls, spec):
        exc = _make_exc(interp, exc_cls, spec, env)
        ens = spec.get('ensures')
        if isinstance(ens, tuple) and callable(ens[1]):      # (clause, when): see the same form in `ensures`
            ens = ens[0] if ens[1](interp.fn_name) else None
        elif isinstance(ens, tuple):                         # (clause, 'check-only')
            ens = None
        if ens is not None and 'trace' not in _param_names(ens):
            # exceptional postcondition: assumed of the exception the callee raises
            env_x = _clause_env(bound, ghosts, {'exc': exc, 'old': old, 'trace': st.trace, 'ghost': st.ghost})
            try:
                st.assume(interp.truth(_call_pred(interp, ens, env_x, assumed=True)))
            except PyRaise as e:
                raise Unsupported('exceptional postcondition of %s raised %r when assumed at a call site'
                                  % (c.qname, e.exc))
        if c.event is not None:
            st.emit(ev_name + ':raised', dict(bound), exc)
        raise PyRaise(exc)

    # exceptional outcomes
    outcomes = ['return']
    for exc_cls, spec in c.raises.items():
        outcomes.append(('raise', exc_cls, spec))
    for exc_cls in c.may_raise:
        outcomes.append(('raise', exc_cls, {}))
    if len(outcomes) > 1:
        # deterministic `when` conditions first
        for exc_cls, spec in c.raises.items():
            when = spec.get('when')
            if when is not None:
                w = when_pre[exc_cls]
                if interp.st.fork(w):
                    raise_(exc_cls, spec)
        nondet = [o for o in outcomes[1:] if o[2].get('when') is None]
        if nondet:
            k = st.choose(1 + len(nondet))
            if k > 0:
                _, exc_cls, spec = nondet[k - 1]
                raise_(exc_cls, spec)
    from .api import _Bool as _B, _Str as _S
    if getattr(c, 'pure_result', False):
        for n_ in list(bound):
            if isinstance(bound[n_], (SOpt, SChoice)):
                bound[n_] = interp.resolve(bound[n_])
    if getattr(c, 'pure_result', False) and isinstance(c.returns, (_Int, _B, _S)) and \
            all(isinstance(v, (SInt, SBool, int, str, bool)) or type(v).__name__ == 'SStr' for v in bound.values()):
        # a deterministic function without effects: its result is an uninterpreted function of the arguments
        # (that it is one is what `pure_result=True` claims: the body reads nothing but its arguments)
        ts_ = [to_z3(bound[n_]) for n_ in bound]
        rs_ = {_Int: z3.IntSort(), _B: z3.BoolSort(), _S: z3.StringSort()}[type(c.returns)]
        uf_ = z3.Function('fn.' + c.qname.replace(':', '.'), *([t.sort() for t in ts_] + [rs_]))
        result = wrap(uf_(*ts_))
    elif isinstance(c.returns, Dependent):
        result = c.returns.make_for_call(interp, 'ret.%s' % short, env)
    else:
        result = c.returns.make(interp, 'ret.%s' % short) if isinstance(c.returns, Ty) else None
    if c.yields is not None:
        # a generator used through its contract: all its items at once (its effects happen at the call)
        from .models import SIter
        ys = c.yields.make(interp, 'yielded.%s' % c.qname.rpartition(':')[2])
        ghosts = dict(ghosts, yielded=ys)
        result = SIter(ys, 0, eager=True)
    env2 = _clause_env(bound, ghosts, {'result': result, 'old': old, 'trace': st.trace, 'ghost': st.ghost})
    for name, clause in c.ensures.items():
        if isinstance(clause, tuple) and callable(clause[1]):
            # (clause, when): proved of the function, but assumed at a call site only where
            # when(name of the function under verification) holds (detail that other levels do not need)
            if not clause[1](interp.fn_name):
                continue
            clause = clause[0]
        elif isinstance(clause, tuple):
            if clause[1] == 'check-only':   # proved of the function, not assumed at call sites
                continue
            # (clause, 'effect') : executed for its effect on ghost state
            _call_pred(interp, clause[0], env2)
            continue
        if 'trace' in _param_names(clause):
            # describes the events *during* the call: says nothing about the caller's trace (check-only)
            continue
        try:
            n_dec = len(st.decisions)
            v = interp.truth(_call_pred(interp, clause, env2, assumed=True))
            if v is False and not st.scopes and len(st.decisions) == n_dec:
                raise Unsupported('postcondition %r of %s is constantly false for the havoced result at a call site '
                                  '(identity with a fresh object? use a Dependent shape or a check-only clause)'
                                  % (name, c.qname))
            st.assume(v)
        except PyRaise as e:
            # an ill-defined clause must not look like an exception of the code under verification
            raise Unsupported('postcondition %r of %s raised %r when assumed at a call site'
                              % (name, c.qname, e.exc))
    if c.event is not None:
        st.emit(ev_name + ':returned', dict(bound), result)
    return result


def _havoc_modified(interp, c, bound):
    """Call site of a contract with `modifies`: the named mutable lists / iterators get arbitrary new contents
    (in place: aliases see the same object); what is known afterwards is what `ensures` says."""
    from .mlist import MList
    from .models import SIter
    st = interp.st
    k = st.counters.get('call!modifies', 0)
    st.counters['call!modifies'] = k + 1
    tag = 'call%d' % k
    for path in c.modifies:
        parts = path.split('.')
        if parts[0] not in bound:
            raise Unsupported('modifies %r of %s: no such parameter' % (path, c.qname))
        obj = bound[parts[0]]
        owner = None
        ty = c.params.get(parts[0])
        for a in parts[1:]:
            owner = obj
            obj = interp.getattr(obj, a)
            ty = getattr(ty, 'fields', {}).get(a)
        if isinstance(obj, (SOpt, SChoice)):
            obj = interp.resolve(obj)
        if type(obj) is list and owner is not None and not contains_sym(obj, 0) and hasattr(ty, 'shape'):
            # a concrete list held in a field of an object (e.g. Partitioning([], [], [])): it becomes a symbolic
            # mutable list in that field.  Sound only if the field is the single reference to the list object:
            # checked (references: the field, the variable `obj`, the argument of getrefcount).
            import sys
            if sys.getrefcount(obj) > 3:
                raise Unsupported('contract %s modifies %r: the concrete list in that field is referenced from '
                                  'elsewhere too' % (c.qname, path))
            from .mlist import from_concrete
            m = from_concrete(interp, obj, path) if obj else MList(interp, st.fresh_name(path), ty.shape())
            m.is_deque = getattr(ty, 'deque', False)
            interp.setattr(owner, parts[-1], m)
            obj = m
        if isinstance(obj, MList):
            obj.havoc(interp, tag)
        elif isinstance(obj, SIter):
            p0 = to_z3(obj.pos) if not isinstance(obj.pos, int) else z3.IntVal(obj.pos)
            p1 = st.fresh_int('%s.pos@%s' % (obj.xs.uid, tag))
            st.assume(z3.And(p1 >= p0, z3.Or(p1 <= obj.xs.length, p1 == p0)))
            obj.pos = wrap(p1)
        elif isinstance(obj, list):
            raise Unsupported('contract %s modifies %r, but the caller passes a concrete list: declare the '
                              'caller\'s local in its contract (locals=dict(name=MListOf(...)))' % (c.qname, path))
        else:
            # symbolic maps (and objects that hold them): the mutable state reachable from the named
            # parameter / field is forgotten; the clauses relate it to `old`
            from . import models
            if not models.havoc_mutable(interp, obj, '%s.%s' % (tag, c.qname.rpartition(':')[2])):
                raise Unsupported('modifies %r of %s: nothing to havoc (neither a symbolic mutable list, an '
                                  'iterator nor a symbolic map)' % (path, c.qname))


def _snapshot_fields(interp, args):
    """(path -> value) of the instance attributes reachable from the parameters (two levels, plus the declared
    attributes of opaque objects held in fields), to check the frame of a contract with `modifies`."""
    from .values import Opaque
    snap = {}

    def fields(obj):
        if isinstance(obj, Opaque):
            return dict(obj._pv_attrs)
        d = getattr(obj, '__dict__', None)
        if isinstance(d, dict) and not isinstance(obj, (type, Sym)) and type(obj).__module__ != 'builtins':
            return dict(d)
        return None

    def walk(prefix, obj, depth):
        fs = fields(obj)
        if fs is None:
            return
        for k, v in fs.items():
            if not isinstance(k, str):
                continue
            path = '%s.%s' % (prefix, k)
            snap[path] = (obj, k, v)
            if depth < 3:
                walk(path, v, depth + 1)

    for name, v in args.items():
        walk(name, v, 0)
    return snap


def _same_value(a, b):
    if a is b:
        return True
    if isinstance(a, (SInt, SBool)) and type(a) is type(b):
        return a.t.eq(b.t)
    from .values import SStr
    if isinstance(a, SStr) and isinstance(b, SStr):
        return a.t.eq(b.t)
    if isinstance(a, (int, str, bool, type(None))) and type(a) is type(b):
        return a == b
    return False


def _check_frame(interp, c, args, before, fname):
    """every field that differs from the snapshot must be covered by a `modifies` entry (itself or a prefix)"""
    after = _snapshot_fields(interp, args)
    declared = list(c.modifies or {})
    bad = []
    for path, (obj, k, v0) in before.items():
        cur = after.get(path)
        if cur is None:
            # the holder itself was replaced: reported at the holder's path
            continue
        if cur[0] is not obj:
            continue
        if not _same_value(v0, cur[2]):
            if not any(path == d or path.startswith(d + '.') for d in declared):
                bad.append(path)
    for path in after:
        if path not in before and not any(path == d or path.startswith(d + '.') for d in declared):
            par = path.rpartition('.')[0]
            if par in before and after.get(par) is not None and before[par][2] is after[par][2]:
                # a new attribute on an object that existed before (lazily created interface attributes are
                # reads, not writes: they are only in _pv_attrs once read)
                from .values import Opaque
                if not isinstance(after[path][0], Opaque):
                    bad.append(path)
            elif '.' not in par and par in args and after[path][0] is args[par] \
                    and not fname.rpartition(':')[2].endswith('__init__'):
                # a new attribute set directly on a PARAMETER object (`self._cache = ...` where the constructor never
                # made that field): a write outside the frame (a constructor is building its own object: excepted)
                from .values import Opaque
                if not isinstance(after[path][0], Opaque):
                    bad.append(path)
    interp.st.oblige('%s : frame[modifies %s]' % (fname, ', '.join(declared) or 'nothing'), not bad,
                     {'kind': 'frame', 'changed_outside_frame': bad})


def _make_exc(interp, exc_cls, spec, env):
    mk = spec.get('make')
    if mk is not None:
        return _call_pred(interp, mk, env)
    shape = spec.get('shape')       # Ty of the exception object as callers see it
    if isinstance(shape, Dependent):
        return shape.make_for_call(interp, 'exc.%s' % getattr(exc_cls, '__name__', 'exc'), env)
    if isinstance(shape, Ty):
        return shape.make(interp, 'exc.%s' % getattr(exc_cls, '__name__', 'exc'))
    if isinstance(exc_cls, Ty):
        return exc_cls.make(interp, 'exc')
    try:
        return exc_cls()
    except TypeError:
        return exc_cls.__new__(exc_cls)


class FunctionReport:
    def __init__(self, qname):
        self.qname = qname
        self.paths = 0
        self.aborted_paths = 0
        self.obligations = {}      # name -> list of (pc, goal, meta, decisions)
        self.unsupported = []
        self.errors = []
        self.inlined = set()
        self.used_contracts = set()
        self.used_models = set()
        self.native_calls = set()
        self.assumed_asserts = set()
        self.outcomes = {}         # 'return' / exception class name -> count
        self.source = None
        self.sha = None
        self.wall = 0.0
        self.unknown_feasibility = 0
        self.feasibility_queries = 0
        self.slow_queries = []
        self.uncovered = []        # 'line N: <source>' of return/raise statements no feasible path reached
        self.deps_sha = None
        self.dep_shas = {}         # qualified name -> sha256 of the source text (the function itself under '')


def verify_function(reg, c, budget_paths=MAX_PATHS, via=None):
    """Explore every path of the real function and collect the obligations.

    `via`: REFINEMENT mode.  `c` is an assumed summary (a `trusted=True` contract that one sidecar module states for
    a function) and `via` the contract another module PROVES for the same function: instead of interpreting the body
    the function is entered through `via` (its precondition is proved from the summary's, its result is havocked and its
    postconditions are assumed), and the clauses of the summary are the obligations.  What is established is
    "the summary is implied by the proved contract"; no reachability cover (there is no body)."""
    rep = FunctionReport(c.qname)
    t0 = time.time()
    func = c.func
    reg.current_props = tuple(c.props)
    mod = getattr(c, 'module', None)
    scope = [getattr(mod, 'prop', None)] + sorted(getattr(mod, 'uses', ())) + list(c.props)
    reg.current_scope = tuple(dict.fromkeys(x for x in scope if x))
    info = frontend.funcinfo_of(func)
    rep.source = '%s:%d' % (info.filename, info.node.lineno)
    rep.sha = info.source_sha
    worklist = [[]]
    seen = 0
    import ast as _ast
    from .loops import _walk_own
    # exits of the function's own body (nested functions that are only defined, not called, do not count)
    exits = {n.lineno for n in _walk_own(info.node) if isinstance(n, (_ast.Return, _ast.Raise))} \
        if not isinstance(info.node, _ast.Lambda) else set()
    covered = set()
    while worklist:
        prefix = worklist.pop()
        seen += 1
        if seen > budget_paths:
            rep.unsupported.append('path budget (%d) exceeded' % budget_paths)
            break
        stats = {}
        st = PathState(prefix, stats)
        interp = Interp(st, reg)
        interp.fn_name = c.qname if via is None else refinement_name(c, via)
        interp.cover_file = info.filename
        try:
            _run_path(interp, reg, c, func, rep, via=via)
            rep.paths += 1
            covered |= st.reached
        except PathAbort:
            rep.aborted_paths += 1
        except RetryPath as r:
            worklist.append(r.prefix)
            # alternatives discovered BEFORE the retry site are replayed from the prefix on the re-run,
            # i.e. never re-discovered: keep them (those after the site will be found again)
            for p in st.pending:
                if len(p) < len(r.prefix):
                    worklist.append(p)
            _cleanup(st)
            continue
        except Unsupported as u:
            rep.unsupported.append(str(u))
        except PyRaise as e:
            rep.errors.append('uncaught interpreted exception outside the function: %r' % (e.exc,))
        except RecursionError:
            rep.unsupported.append('recursion limit')
        except Exception:
            rep.errors.append(traceback.format_exc())
        finally:
            _cleanup(st)
        for p in st.pending:
            worklist.append(p)
        for (name, pc, goal, meta) in st.obligations:
            rep.obligations.setdefault(name, []).append((pc, goal, meta, list(st.decisions)))
        rep.inlined |= st.inlined
        rep.used_contracts |= st.used_contracts
        rep.used_models |= st.used_models
        rep.native_calls |= stats.get('native_calls', set())
        rep.assumed_asserts |= stats.get('assumed_isinstance_asserts', set())
        rep.unknown_feasibility += st.unknown_feasibility
        rep.feasibility_queries += stats.get('feasibility_queries', 0)
        rep.slow_queries.extend(stats.get('slow_queries', []))
    if c.cover and via is None and not rep.unsupported and not rep.errors:
        # reachability cover (DESIGN 2.4): every return / raise of the function must lie on a feasible
        # path, otherwise assumptions (preconditions, assumed postconditions of callees) cut it off and
        # the obligations on that exit were never generated
        try:
            lines = frontend.parse_file(info.filename)[0].splitlines()
        except Exception:
            lines = []
        allowed = c.cover if isinstance(c.cover, (tuple, list)) else ()
        for ln in sorted(exits - covered):
            text = lines[ln - 1].strip() if 0 < ln <= len(lines) else ''
            if any(a in text for a in allowed):
                continue
            rep.uncovered.append('line %d: %s' % (ln, text))
    rep.wall = time.time() - t0
    rep.deps_sha = _deps_sha(reg, c, rep)
    return rep


def _deps_sha(reg, c, rep):
    """hash of the source text the obligations of this function were generated from: the function
    itself and every repository function that was interpreted (inlined) while verifying it"""
    import hashlib
    import importlib
    parts = [rep.sha or '']
    rep.dep_shas = {'': rep.sha or ''}
    for q in sorted(rep.inlined):
        sha = source_sha_of(q)
        rep.dep_shas[q] = sha
        parts.append(q + '=' + sha)
    return hashlib.sha256('\n'.join(parts).encode()).hexdigest()


def source_sha_of(q):
    """sha256 of the current source text of the repository function with this qualified name ('?' if it
    cannot be located any more)"""
    try:
        obj, _owner = frontend.resolve_qualified(q)
        f = frontend.raw_function(obj)
        return frontend.funcinfo_of(f).source_sha or ''
    except Exception:
        return '?'


def _cleanup(st):
    for g in st.generators:
        try:
            g.abort()
        except BaseException:
            pass


def make_inputs(interp, c, via=None):
    ghosts = {}
    interp.reg.ghost_env = ghosts
    for name, ty in c.ghosts.items():
        ghosts[name] = ty.make(interp, 'ghost.' + name) if isinstance(ty, Ty) else ty
    args = {}
    params = dict(c.params)
    if via is not None:
        # refinement: where the summary says nothing about a parameter (`Any_`, or no shape) the arguments are those
        # the proved contract is stated for (its shapes are its type-preconditions)
        from .api import Opaq
        for name, ty in via.params.items():
            if name not in params or isinstance(params[name], Opaq) or getattr(c, 'refine_with_proved_shapes', False):
                params[name] = ty
    for name, ty in params.items():
        args[name] = ty.make(interp, name) if isinstance(ty, Ty) else ty
    return args, ghosts


def refinement_name(c, via):
    return '%s [summary stated for %s is implied by the contract proved for %s]' % (
        c.qname, getattr(getattr(c, 'module', None), 'prop', '?'), getattr(getattr(via, 'module', None), 'prop', '?'))


def _run_path(interp, reg, c, func, rep, via=None):
    st = interp.st
    if getattr(getattr(c, 'module', None), 'string_alignment', False):
        st.ghost['__align__'] = True      # (pyvc.strings: positions and searches are aligned with known pieces)
    if getattr(getattr(c, 'module', None), 'weak_splitlines', False):
        st.ghost['__weak_splitlines__'] = True      # (pyvc.strings: s.splitlines() is some list of strings)
    if getattr(getattr(c, 'module', None), 'exact_split', False):
        st.ghost['__exact_split__'] = True      # (pyvc.strings: s.split(c) exact for at most one separator)
    args, ghosts = make_inputs(interp, c, via)
    reg.ghost_env = dict(ghosts)
    # ghost (monitor) variables declared in `modifies`: the function starts in an arbitrary monitor state
    from .api import Dependent as _Dependent
    for key, ty in (c.modifies.items() if isinstance(c.modifies, dict) else ()):
        if key.startswith('ghost:') and isinstance(ty, Ty) and not isinstance(ty, _Dependent):
            st.ghost[key[6:]] = ty.make(interp, key)
    if c.setup is not None:
        extra = c.setup(interp, args, ghosts)
        if extra:
            ghosts.update(extra)
            reg.ghost_env.update(extra)
    env = _clause_env(args, ghosts, {'trace': st.trace, 'ghost': st.ghost})
    interp.root_values = [args, ghosts]
    if c.requires is not None:
        st.assume(interp.truth(_call_pred(interp, c.requires, env, assumed='aligned')))
    if st.check() == z3.unsat:
        raise PathAbort()
    old = None
    if c.old is not None:
        old = _call_pred(interp, c.old, env)
        env = dict(env, old=old)      # `when` conditions of exceptional outcomes may mention the pre-state
        reg.ghost_env['old'] = old        # visible to loop invariants
        interp.root_values.append(old)
    # `when` conditions of exceptional outcomes are predicates of the PRE-state: evaluated before the call
    # (the function may mutate its arguments)
    when_values = {}
    for exc_cls, spec in c.raises.items():
        if spec.get('when') is not None:
            when_values[exc_cls] = interp.truth(_call_pred(interp, spec['when'], env))
    # frame: symbolic maps reachable from parameters that the contract does not list in `modifies`
    # must be unchanged on every outcome
    from . import models as _models
    frame_snap = []
    mods = tuple(c.modifies or ())
    for pname, pval in args.items():
        if pname in mods:
            continue
        for path_, m_ in _models.reachable_smaps(pval):
            full = (pname + path_).replace('?', '')
            if any(full == m or full.startswith(m + '.') for m in mods):
                continue
            frame_snap.append((pname + path_, m_, m_.has, m_.val))
    # positional order of the real function
    code = func.__code__
    names = list(code.co_varnames[:code.co_argcount + code.co_kwonlyargcount])
    # (parameters that were renamed since the contract was written are known by their pinned names: frontend)
    _renamed = getattr(frontend.funcinfo_of(func).node, '_pv_renamed_params', None) or {}
    names = [_renamed.get(n, n) for n in names]
    missing = [n for n in names[:code.co_argcount] if n not in args]
    if missing:
        defaults = func.__defaults__ or ()
        for i, n in enumerate(names[:code.co_argcount]):
            if n in missing:
                di = i - (code.co_argcount - len(defaults))
                if di < 0:
                    raise Unsupported('contract %s: no shape given for parameter %r' % (c.qname, n))
                args[n] = defaults[di]
    pos = [args[n] for n in names[:code.co_argcount]]
    kw = {n: args[n] for n in names[code.co_argcount:] if n in args}
    outcome = None
    frame_before = _snapshot_fields(interp, args) if isinstance(c.modifies, dict) else None
    ghost0 = dict(st.ghost)
    info = frontend.funcinfo_of(func)
    mlists_before = _mutable_lists_of(args)
    yseq = None
    if info.is_generator:
        from .gens import YSeq
        yseq = YSeq('yielded')
        if c.yields is not None:
            yseq.shape = _shape_of_ty(getattr(c.yields, 'elem', None))
        interp.collect = [info, yseq, False]
    try:
        if via is not None:
            if via.inline:
                # (an inline contract is not used at call sites: the summary is proved from the body itself)
                result = interp.call_real_function(func, pos, kw, c.owner)
            else:
                result = apply_contract(interp, via, func, pos, kw)
        else:
            result = interp.call_real_function(func, pos, kw, c.owner)
        outcome = ('return', result)
    except PyRaise as e:
        outcome = ('raise', e.exc)
    if yseq is not None:
        ghosts = dict(ghosts, yielded=yseq)
    key = 'return' if outcome[0] == 'return' else type(outcome[1]).__name__
    rep.outcomes[key] = rep.outcomes.get(key, 0) + 1
    fname = c.qname if via is None else refinement_name(c, via)
    if frame_before is not None:
        _check_frame(interp, c, args, frame_before, fname)
    # frame: a symbolic mutable list reachable from the parameters that the function changed must be declared in
    # `modifies` (call sites keep everything else they know about such a list)
    mlists_after = _mutable_lists_of(args)
    for path, (m, version) in mlists_before.items():
        now = mlists_after.get(path)
        if (now is None or now[0] is not m or now[1] != version) and path not in c.modifies:
            st.oblige('%s : frame[%s is not modified]' % (fname, path), False, {'kind': 'frame'})
    for (where, m_, has0, val0) in frame_snap:
        same = True if (m_.has is has0 and m_.val is val0) else wrap(z3.And(m_.has == has0, m_.val == val0))
        st.oblige('%s : frame[%s unchanged]' % (fname, where), same, {'kind': 'frame'})
    if outcome[0] == 'return':
        env2 = _clause_env(args, ghosts, {'result': outcome[1], 'old': old, 'trace': st.trace, 'ghost': st.ghost})
        # a declared deterministic `when` exception must have been raised
        for exc_cls, spec in c.raises.items():
            when = spec.get('when')
            if when is not None:
                w = when_values[exc_cls]
                st.oblige('%s : raises[%s] when-condition implies raise' % (fname, _exc_name(exc_cls)),
                          interp.not_(w), {'kind': 'exc-post'})
        for name, clause in c.ensures.items():
            if isinstance(clause, tuple):
                if clause[1] != 'check-only' and not callable(clause[1]):
                    continue
                clause = clause[0]
            _oblige_clause(interp, '%s : ensures[%s]' % (fname, name), clause, env2, {'kind': 'post'})
    else:
        exc = outcome[1]
        matched = False
        for exc_cls, spec in c.raises.items():
            if _exc_is(exc, exc_cls):
                matched = True
                env2 = _clause_env(args, ghosts, {'exc': exc, 'old': old, 'trace': st.trace, 'ghost': st.ghost})
                when = spec.get('when')
                if when is not None:
                    st.oblige('%s : raises[%s] only when' % (fname, _exc_name(exc_cls)), when_values[exc_cls],
                              {'kind': 'exc-post'})
                st.oblige('%s : raises[%s] is a declared outcome' % (fname, _exc_name(exc_cls)), True,
                          {'kind': 'exc-post'})
                ens = spec.get('ensures')
                if isinstance(ens, tuple):
                    ens = ens[0]
                if ens is not None:
                    _oblige_clause(interp, '%s : raises[%s] ensures' % (fname, _exc_name(exc_cls)),
                                   ens, env2, {'kind': 'exc-post'})
                break
        if not matched:
            for exc_cls in c.may_raise:
                if _exc_is(exc, exc_cls):
                    matched = True
        if not matched:
            allowed = c.raises_only
            if allowed is not None or c.raises or c.may_raise or c.ensures or via is not None:
                # an exception the contract does not allow: the obligation `False` under this path
                st.oblige('%s : raises_only(%s)' % (fname, ', '.join(_exc_name(e) for e in
                                                                     list(c.raises) + list(c.may_raise)
                                                                     + list(allowed or ()))),
                          isinstance(exc, tuple(allowed)) if allowed else False,
                          {'kind': 'raises-only', 'exception': repr(exc)})
    # frame of the ghost (monitor) state: variables not declared in `modifies` are unchanged
    if isinstance(c.modifies, dict):
        for key in sorted(k for k in set(ghost0) | set(st.ghost) if isinstance(k, str)):
            if ('ghost:' + key) in c.modifies:
                continue
            if key.startswith('__') or key.startswith('@rec-'):
                continue        # bookkeeping of the engine (string pieces, caches, character classes): not monitor state
            v0, v1 = ghost0.get(key, _MISSING), st.ghost.get(key, _MISSING)
            if v0 is v1:
                continue
            if isinstance(v0, (int, bool, str, SInt, SBool)) and isinstance(v1, (int, bool, str, SInt, SBool)) \
                    or (hasattr(v0, 't') and hasattr(v1, 't')):
                same = interp.eq(v0, v1)
            else:
                same = False
            st.oblige('%s : frame[ghost %s unchanged]' % (fname, key), same, {'kind': 'frame'})
    # vacuity guard: the path must be satisfiable, otherwise its obligations say nothing
    if st.check() == z3.unsat:
        if os.environ.get('PYVC_TRACE_UNSAT'):
            sv = z3.Solver()
            sv.set('timeout', 20000)
            ps = []
            for i, t in enumerate(st.pc):
                p_ = z3.Bool('pc!%d' % i)
                sv.assert_and_track(t, p_)
                ps.append((p_, t))
            print('PYVC_TRACE_UNSAT: vacuous path at the end of %s (outcome %s, %d decisions); unsat core:'
                  % (fname, key, len(st.decisions)), sv.check(), flush=True)
            core = set(str(x) for x in sv.unsat_core())
            for p_, t in ps:
                if str(p_) in core:
                    print('      ', str(t)[:400].replace('\n', ' '), flush=True)
        st.obligations[:] = [o for o in st.obligations if o[3].get('kind') in ('callee-pre', 'loop-entry')]
        raise PathAbort()
    if c.raises_only is not None and outcome[0] == 'return':
        st.oblige('%s : raises_only(%s)' % (fname, ', '.join(_exc_name(e) for e in list(c.raises) + list(c.may_raise)
                                                            + list(c.raises_only))), True, {'kind': 'raises-only'})
    if via is not None:
        # (at least one obligation per path: a summary that only gives shapes and an event is implied trivially)
        st.oblige('%s : outcomes of the proved contract are outcomes of the summary' % fname, True, {'kind': 'post'})


_MISSING = object()


def _mutable_lists_of(args):
    """{access path: (MList, version)} of the symbolic mutable lists reachable from the arguments through the
    fields of repository objects"""
    from .mlist import MList
    from .interp import _is_repo_class
    out = {}

    def walk(v, path, depth):
        if isinstance(v, MList):
            out[path] = (v, v.version)
            return
        if depth <= 0 or isinstance(v, (Sym, str, int, float, type(None), list, tuple, dict)):
            return
        d = getattr(v, '__dict__', None)
        if isinstance(d, dict) and _is_repo_class(type(v)):
            for k, x in d.items():
                walk(x, '%s.%s' % (path, k), depth - 1)

    for name, v in args.items():
        walk(v, name, 3)
    return out


def _shape_of_ty(ty):
    from . import api
    if isinstance(ty, api.FixedList) and ty.as_tuple:
        return ('tuple', tuple(_shape_of_ty(t) for t in ty.elems))
    if isinstance(ty, api._Int):
        return ('int',)
    if isinstance(ty, api._Bool):
        return ('bool',)
    if isinstance(ty, api._Str):
        return ('str',)
    return ('obj',)


def _exc_is(exc, exc_cls):
    """does the exception belong to the declared outcome?  A class, or Iface(I): an opaque exception object
    of interface I (an exception of the environment whose class is not fixed)."""
    from .api import Iface
    from .values import Opaque
    if isinstance(exc_cls, Iface):
        return isinstance(exc, Opaque) and exc._pv_iface is exc_cls.iface
    return isinstance(exc_cls, type) and isinstance(exc, exc_cls)


def _exc_name(e):
    from .api import Iface
    if isinstance(e, Iface):
        return 'opaque:' + e.iface.__name__
    return getattr(e, '__name__', repr(e))


def _oblige_clause(interp, name, clause, env, meta):
    st = interp.st
    try:
        v = interp.truth(_call_pred(interp, clause, env, proving=(name, meta)))
    except PyRaise as e:
        st.oblige(name, False, dict(meta, clause_raised=repr(e.exc)))
        return
    st.oblige(name, v, meta)
