"""Assumed contracts (models) of the file-system and process-state operations of the standard library,
over ghost state.  Importing this module registers the models (``from pyvc import fsmodel``).

Ghost process state   ``st.ghost['cwd']``            -- the current directory (a string)
Ghost file system     ``st.ghost['fs']``             -- {'dirs': [...], 'files': [...]}: the entries known to exist
Ghost events (``st.trace``), in program order:
    ('mkdir', path)  ('open', path, mode, file)  ('write', file, text)  ('close', file)  ('chmod', path, mode)
    ('chdir', path)  ('rmtree', path, ignore_errors)  ('mkdtemp', path, prefix)  ('resolve', path, result)
Paths in events and in the ghost file system are strings (see ``pymodels/pathlib_model.py``).

What is assumed about the operating system (the trusted part; each model is listed in evidence when used):
 * ``mkdir``: FileExistsError if the entry is known to exist (unless exist_ok and it is a directory),
   FileNotFoundError if the parent is not known to exist (unless parents=True); otherwise it succeeds.
   The ghost file system is closed-world below the directories it knows: an entry exists iff it is recorded.
 * ``open(p, 'w'|'x'|'a')`` creates the file if its directory exists (else FileNotFoundError), and the result
   is a context manager that closes the file on exit and does not swallow exceptions.
 * ``chdir(p)`` succeeds when p is known to be a directory; otherwise it either succeeds (p then exists) or
   raises FileNotFoundError / NotADirectoryError.  ``getcwd()`` returns the argument of the last successful
   ``chdir`` (a path is identified with the directory it denotes: exact for the absolute, resolved names the
   code under verification passes).
 * ``rmtree(p, ignore_errors=True)`` never raises; without ignore_errors it may raise OSError.
 * ``mkdtemp`` returns a new, empty directory: different from, and not an ancestor of, every known entry.
 * ``Path.resolve()`` returns another name of the same entry.
 * ``exists/is_dir/is_file`` are true of known entries; an entry nothing is known about may or may not exist
   (event ('exists?', path, kind, answer)).
 * no operation fails for reasons outside this model (permissions, full disk, concurrent processes).
"""
import os
import pathlib
import shutil
import tempfile

try:
    import z3
except ImportError:      # replays run under the repository's interpreter, without z3
    z3 = None

from . import models
from .api import Interface, Method, new_opaque
from .path import Unsupported
from .pymodels import pathlib_model
from .pymodels.pathlib_model import GPath
from .values import SStr, SBool, SOpt, SChoice, Sym, to_z3, wrap


# ============================================================================ ghost state helpers (engine level)

def fs(interp):
    g = interp.st.ghost
    if 'fs' not in g:
        g['fs'] = {'dirs': [], 'files': []}
    return g['fs']


def path_str(interp, p):
    """the string of a path-like value (GPath, str, symbolic str)"""
    if isinstance(p, (SOpt, SChoice)):
        p = interp.resolve(p)
    if isinstance(p, GPath):
        return p._s
    if isinstance(p, (str, SStr)):
        return p
    if isinstance(p, pathlib.PurePath):
        return str(p)
    raise Unsupported('path-like value %r' % (p,))


def mk_path(interp, s):
    return interp.call(GPath, [s], {})


def _member(interp, s, entries):
    """bool / SBool: s is one of the entries"""
    parts = [interp.eq(e, s) for e in entries]
    if any(p is True for p in parts):
        return True
    ts = [to_z3(p) for p in parts if p is not False]
    if not ts:
        return False
    return wrap(z3.Or(*ts) if len(ts) > 1 else ts[0])


def is_known_dir(interp, s):
    return _member(interp, s, fs(interp)['dirs'])


def is_known_entry(interp, s):
    f = fs(interp)
    return _member(interp, s, f['dirs'] + f['files'])


def declare_dir(interp, s):
    """ghost: the directory s exists (and, the ghost file system being closed-world, is empty unless
    entries below it are declared too)"""
    f = fs(interp)
    if _member(interp, s, f['dirs']) is not True:
        f['dirs'].append(s)


def declare_file(interp, s):
    f = fs(interp)
    if _member(interp, s, f['files']) is not True:
        f['files'].append(s)


def cwd(interp):
    g = interp.st.ghost
    if 'cwd' not in g:
        g['cwd'] = SStr(interp.st.fresh_str('cwd'))
        declare_dir(interp, g['cwd'])
    return g['cwd']


def _strictly_below(interp, e, s):
    """bool / SBool: entry e lies strictly below the directory s (as strings: e starts with s + '/'; every
    absolute name but '/' lies below '/', every relative name but '.' below '.')"""
    from . import strings

    def starts(x, prefix):
        if isinstance(x, str) and isinstance(prefix, str):
            return x.startswith(prefix)
        return strings.call_method(interp, x if isinstance(x, SStr) else SStr(z3.StringVal(x)),
                                   'startswith', [prefix], {})

    def and_(a, b):
        if a is False or b is False:
            return False
        if a is True:
            return b
        if b is True:
            return a
        return wrap(z3.And(to_z3(a), to_z3(b)))

    def ite(c, a, b):
        if c is True:
            return a
        if c is False:
            return b
        return wrap(z3.If(to_z3(c), to_z3(a), to_z3(b)))

    general = starts(e, strings.concat(interp, s, '/'))
    is_root = interp.eq(s, '/')
    is_dot = interp.eq(s, '.')
    under_root = and_(starts(e, '/'), interp.not_(interp.eq(e, '/')))
    under_dot = and_(interp.not_(starts(e, '/')), interp.not_(interp.eq(e, '.')))
    return ite(is_root, under_root, ite(is_dot, under_dot, general))


def _below_or_same(interp, e, s):
    """bool / SBool: entry e is s or lies below s"""
    same = interp.eq(e, s)
    if same is True:
        return True
    below = _strictly_below(interp, e, s)
    if below is True:
        return True
    if same is False:
        return below
    if below is False:
        return same
    return wrap(z3.Or(to_z3(same), to_z3(below)))


def _implies(interp, a, b):
    if a is False or b is True:
        return True
    if a is True:
        return b
    return wrap(z3.Implies(to_z3(a), to_z3(b)))


def _raise(exc):
    from .interp import PyRaise
    raise PyRaise(exc)


# ============================================================================ pathlib

@models.model(pathlib.Path, pathlib.PosixPath, pathlib.PurePath, pathlib.PurePosixPath)
def m_Path(interp, args, kwargs):
    if kwargs:
        raise Unsupported('Path() with keyword arguments')
    if not args:
        return mk_path(interp, '.')
    first = args[0]
    if isinstance(first, (SOpt, SChoice)):
        first = interp.resolve(first)
    p = first if isinstance(first, GPath) else mk_path(interp, path_str(interp, first))
    for a in args[1:]:
        p = interp.binop(__import__('ast').Div, p, a)
    return p


@models.model(pathlib_model.fs_mkdir)
def m_fs_mkdir(interp, args, kwargs):
    path, parents, exist_ok = args
    _mkdir(interp, path, interp.branch(parents), interp.branch(exist_ok))
    return None


def _mkdir(interp, path, parents, exist_ok):
    s = path._s
    if interp.branch(is_known_entry(interp, s)):
        if exist_ok and interp.branch(is_known_dir(interp, s)):
            return
        _raise(FileExistsError(17, 'File exists'))
    parent = path._parent
    if parent is not None and not interp.branch(is_known_dir(interp, parent._s)):
        if not parents:
            _raise(FileNotFoundError(2, 'No such file or directory'))
        _mkdir(interp, parent, True, True)
    interp.st.emit('mkdir', s)
    fs(interp)['dirs'].append(s)
    fs(interp).setdefault('new', []).append(s)


class FileI(Interface):
    """A file object opened for writing: a context manager that closes the file; writes are ghost events."""
    methods = {
        '__enter__': Method(model=lambda interp, self, args, kwargs: self),
        '__exit__': Method(model=lambda interp, self, args, kwargs: _close(interp, self)),
        'close': Method(model=lambda interp, self, args, kwargs: _close(interp, self, None)),
        'write': Method(model=lambda interp, self, args, kwargs: _write(interp, self, args[0])),
        'flush': Method(model=lambda interp, self, args, kwargs: None),
    }


def _close(interp, f, result=False):
    if not f._pv_ghost.get('closed'):
        f._pv_ghost['closed'] = True
        interp.st.emit('close', f)
    return result


def _write(interp, f, text):
    if f._pv_ghost.get('closed'):
        _raise(ValueError('I/O operation on closed file.'))
    interp.st.emit('write', f, text)
    return models.m_len(interp, [text], {})


@models.model(pathlib_model.fs_open)
def m_fs_open(interp, args, kwargs):
    path, mode = args
    if isinstance(mode, (SOpt, SChoice)):
        mode = interp.resolve(mode)
    if not isinstance(mode, str) or not any(c in mode for c in 'wxa') or 'b' in mode:
        raise Unsupported('ghost file system: open() with mode %r' % (mode,))
    s = path._s
    parent = path._parent
    if parent is not None and not interp.branch(is_known_dir(interp, parent._s)):
        _raise(FileNotFoundError(2, 'No such file or directory'))
    if interp.branch(is_known_dir(interp, s)):
        _raise(IsADirectoryError(21, 'Is a directory'))
    if 'x' in mode and interp.branch(is_known_entry(interp, s)):
        _raise(FileExistsError(17, 'File exists'))
    f = new_opaque(interp, FileI, 'file')
    f._pv_ghost['path'] = s
    f._pv_ghost['mode'] = mode
    declare_file(interp, s)
    interp.st.emit('open', s, mode, f)
    return f


@models.model(pathlib_model.fs_chmod)
def m_fs_chmod(interp, args, kwargs):
    path, mode = args
    s = path._s
    if not interp.branch(is_known_entry(interp, s)):
        _raise(FileNotFoundError(2, 'No such file or directory'))
    interp.st.emit('chmod', s, mode)
    return None


@models.model(pathlib_model.fs_resolve)
def m_fs_resolve(interp, args, kwargs):
    (path,) = args
    s = path._s
    r = SStr(interp.st.fresh_str('resolved'))
    f = fs(interp)
    # another name of the same entry: it is neither above nor below the original name, and a known entry
    # lies at or below the new name only if it lies at or below the original one
    st = interp.st
    st.assume(interp.not_(_strictly_below(interp, s, r)))
    st.assume(interp.not_(_strictly_below(interp, r, s)))
    # the result is absolute; it is '/' only for the root directory, which is not a directory created here
    st.assume(interp.call(interp.getattr(r, 'startswith'), ['/'], {}))
    if interp.branch(_member(interp, s, f.setdefault('new', []))):
        st.assume(interp.not_(interp.eq(r, '/')))
        f['new'].append(r)
    for e in f['dirs'] + f['files']:
        st.assume(_implies(interp, _below_or_same(interp, e, r), _below_or_same(interp, e, s)))
    if interp.branch(_member(interp, s, f['dirs'])):
        f['dirs'].append(r)
    elif interp.branch(_member(interp, s, f['files'])):
        f['files'].append(r)
    interp.st.emit('resolve', s, r)
    return mk_path(interp, r)


@models.model(pathlib_model.fs_exists)
def m_fs_exists(interp, args, kwargs):
    """exists / is_dir / is_file: true of the entries known to exist; an entry nothing is known about may or may
    not exist (the answer is then recorded: asking again gives the same answer)"""
    path, kind = args
    f = fs(interp)
    s = path._s
    entries = {'any': f['dirs'] + f['files'], 'dir': f['dirs'], 'file': f['files']}[kind]
    if interp.branch(_member(interp, s, entries)):
        return True
    if interp.branch(_member(interp, s, f['dirs'] + f['files'] + f.setdefault('absent', []))):
        return False
    if interp.st.choose(2) == 1:
        (declare_dir if kind == 'dir' else declare_file)(interp, s)
        interp.st.emit('exists?', s, kind, True)
        return True
    f['absent'].append(s)
    interp.st.emit('exists?', s, kind, False)
    return False


# ============================================================================ os / shutil / tempfile

@models.model(os.getcwd)
def m_getcwd(interp, args, kwargs):
    return cwd(interp)


@models.model(os.chdir)
def m_chdir(interp, args, kwargs):
    (p,) = args
    s = path_str(interp, p)
    cwd(interp)
    if not interp.branch(is_known_dir(interp, s)):
        k = interp.st.choose(3)
        if k == 1:
            _raise(FileNotFoundError(2, 'No such file or directory'))
        if k == 2:
            _raise(NotADirectoryError(20, 'Not a directory'))
        declare_dir(interp, s)
    interp.st.emit('chdir', s)
    interp.st.ghost['cwd'] = s
    return None


@models.model(shutil.rmtree)
def m_rmtree(interp, args, kwargs):
    p = args[0]
    ignore_errors = args[1] if len(args) > 1 else kwargs.get('ignore_errors', False)
    s = path_str(interp, p)
    ignore = interp.branch(ignore_errors)
    interp.st.emit('rmtree', s, ignore)
    if not ignore and interp.st.choose(2) == 1:
        _raise(OSError(13, 'rmtree failed'))
    f = fs(interp)
    for key in ('dirs', 'files'):
        f[key] = [e for e in f[key] if not interp.branch(_below_or_same(interp, e, s))]
    return None


@models.model(tempfile.mkdtemp)
def m_mkdtemp(interp, args, kwargs):
    prefix = args[1] if len(args) > 1 else kwargs.get('prefix')
    d = SStr(interp.st.fresh_str('tmpdir'))
    f = fs(interp)
    # a new directory: no known entry is it or lies below it
    for e in f['dirs'] + f['files']:
        interp.st.assume(interp.not_(_below_or_same(interp, e, d)))
    # ... and it is neither the root nor the current directory
    interp.st.assume(interp.not_(interp.eq(d, '/')))
    interp.st.assume(interp.not_(interp.eq(d, '.')))
    f['dirs'].append(d)
    f.setdefault('new', []).append(d)
    interp.st.emit('mkdtemp', d, prefix)
    return d


# ============================================================================ cross-check against CPython

def crosscheck(names, bases=('/tmp/exactly-x1', 'rel/dir', '/a', 'b', '.', '/')):
    """The join / parent of the model against pathlib, on the given concrete names.
    Returns the list of disagreements [(base, name, pathlib result, model result)]."""
    bad = []

    def join(b, n):
        if n.startswith('/'):
            return n
        if b == '.':
            return n
        if b == '/':
            return '/' + n
        return b + '/' + n

    def parent(s):
        head, sep, tail = s.rpartition('/')
        return '.' if sep == '' else ('/' if head == '' else head)

    for b in bases:
        if str(pathlib.PurePosixPath(b)) != b:
            bad.append((b, None, str(pathlib.PurePosixPath(b)), b))
        for n in names:
            real = str(pathlib.PurePosixPath(b) / n)
            if real != join(b, n):
                bad.append((b, n, real, join(b, n)))
            if b not in ('.', '/') and str(pathlib.PurePosixPath(real).parent) != parent(real):
                bad.append((real, 'parent', str(pathlib.PurePosixPath(real).parent), parent(real)))
        if b not in ('.', '/') and str(pathlib.PurePosixPath(b).parent) != parent(b):
            bad.append((b, 'parent', str(pathlib.PurePosixPath(b).parent), parent(b)))
    return bad
