"""Operations on sequences of symbolic length (SList)."""
import ast

try:
    import z3
except ImportError:      # replays run under the repository's interpreter, without z3
    z3 = None

from .path import Unsupported, PathAbort
from .values import SInt, SBool, SStr, SOpt, SChoice, SList, Sym, Opaque, to_z3, wrap
from . import models


def _fresh_uid(interp, base):
    return interp.st.fresh_name(base)


def comprehension(interp, xs, gens, i, child, emit):
    """`[body for x in xs]` over a symbolic-length sequence.

    Supported shape: one generator, no `if`: the result is the element-wise image of xs.
    The body must be a pure function of the element (checked on one generic element: it must
    not raise and must not emit ghost events)."""
    raise Unsupported('comprehension over symbolic-length sequence must be a plain list comprehension')


def map_comprehension(interp, node, frame, xs):
    """ListComp node with a single generator over SList ``xs`` and no conditions."""
    from .interp import Frame, PyRaise, _comp_info
    g = node.generators[0]
    st = interp.st
    uid = _fresh_uid(interp, xs.uid + '.map')
    child_info = _comp_info(frame.info, node.generators)
    enclosing = frame.enclosing + [frame.locals]

    def elem(interp2, idx_term):
        x = models.slist_elem(interp2, xs, idx_term)
        child = Frame(child_info, {}, enclosing, frame.first_arg, frame.defcls)
        interp2.assign(g.target, x, child)
        return interp2.eval(node.elt, child)

    out = SList(xs.length, elem, uid)
    # purity probe on a generic element
    k = st.fresh_int(uid + '.k')
    ntrace = len(st.trace)
    with st.scope(z3.And(k >= 0, k < xs.length)):
        if st.check() != z3.unsat:
            try:
                models.slist_elem(interp, out, k)
            except PyRaise as e:
                raise Unsupported('comprehension body may raise (%r): needs an explicit loop contract' % (e.exc,))
    if len(st.trace) != ntrace:
        raise Unsupported('comprehension body has ghost effects: needs an explicit loop contract')
    return out


def slice_(interp, xs, sl):
    st = interp.st
    if sl.step is not None and sl.step != 1:
        raise Unsupported('slice step on symbolic sequence')
    n = xs.length

    def norm(v, default):
        if v is None:
            return default
        t = to_z3(v)
        t = z3.If(t < 0, z3.If(t + n < 0, 0, t + n), z3.If(t > n, n, t))
        return t

    lo = norm(sl.start, z3.IntVal(0))
    hi = norm(sl.stop, n)
    length = z3.If(hi > lo, hi - lo, 0)
    uid = _fresh_uid(interp, xs.uid + '.slice')
    lo_s = z3.simplify(lo)

    def elem(interp2, idx_term):
        return models.slist_elem(interp2, xs, z3.simplify(lo_s + idx_term))

    return SList(z3.simplify(length), elem, uid)


def concat(interp, a, b):
    """a + b where at least one is an SList; the other may be a concrete list."""
    st = interp.st

    def length(v):
        return v.length if isinstance(v, SList) else z3.IntVal(len(v))

    def get(interp2, v, t):
        if isinstance(v, SList):
            return models.slist_elem(interp2, v, t)
        # concrete list at symbolic index: case split
        return interp2.getitem(list(v), wrap(t))

    la, lb = length(a), length(b)
    uid = _fresh_uid(interp, 'concat')

    def elem(interp2, idx_term):
        if interp2.st.fork(wrap(idx_term < la)):
            return get(interp2, a, idx_term)
        return get(interp2, b, z3.simplify(idx_term - la))

    return SList(z3.simplify(la + lb), elem, uid)


def binop(interp, opcls, a, b):
    if opcls is ast.Add:
        if isinstance(a, (SList, list, tuple)) and isinstance(b, (SList, list, tuple)):
            return concat(interp, a, b)
    raise Unsupported('operator %s on symbolic sequence' % opcls.__name__)


def eq(interp, a, b):
    if a is b:
        return True
    raise Unsupported('== on symbolic sequences')


def contains(interp, xs, x):
    st = interp.st
    j = st.fresh_int('j!in')
    with st.scope(z3.And(j >= 0, j < xs.length)):
        st.no_fork += 1
        try:
            e = interp.eq(models.slist_elem(interp, xs, j), x)
        finally:
            st.no_fork -= 1
    return wrap(z3.Exists([j], z3.And(j >= 0, j < xs.length, to_z3(e))))


def method(interp, xs, name, args, kwargs):
    if name == '__len__':
        return wrap(xs.length)
    if name == 'copy':
        return xs
    if name == '__iter__':
        return models.SIter(xs, 0)
    if name == 'append':
        from . import texts
        return texts.append(interp, xs, args[0])
    raise Unsupported('method %s on symbolic-length sequence' % name)
