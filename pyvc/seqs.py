"""Operations on sequences of symbolic length (SList)."""
import ast

try:
    import z3
except ImportError:      # replays run under the repository's interpreter, without z3
    z3 = None

from .path import Unsupported, PathAbort
from .values import SInt, SBool, SStr, SOpt, SChoice, SList, Sym, Opaque, to_z3, wrap
from . import models


def _fresh_uid(interp, base):
    return interp.st.fresh_name(base)


def comprehension(interp, xs, gens, i, child, emit):
    """`[body for x in xs]` over a symbolic-length sequence.

    Supported shape: one generator, no `if`: the result is the element-wise image of xs.
    The body must be a pure function of the element (checked on one generic element: it must
    not raise and must not emit ghost events)."""
    raise Unsupported('comprehension over symbolic-length sequence must be a plain list comprehension')


def copy(xs, mutable=True):
    """`list(xs)` / a snapshot of xs: same elements (the very same element objects), own identity.
    A *mutable* copy is a cell: append / extend / insert replace its contents in place (see `method`)."""
    c = SList(xs.length, xs.elem, xs.uid)
    c.cache = xs.cache
    c.parts = list(xs.parts) if xs.parts is not None else [('base', xs)]
    c.immutable = not mutable
    return c


def frozen(v):
    """operands captured by a derived sequence must not change afterwards: snapshot mutable ones"""
    if isinstance(v, SList) and not v.immutable:
        return copy(v, mutable=False)
    return v


def _replace_contents(xs, new):
    xs.length, xs.elem, xs.uid, xs.cache, xs.parts = new.length, new.elem, new.uid, new.cache, new.parts
    xs.aux = {}        # measures (pyvc.texts) described the old contents; joins are recomposed from `parts`


def as_slist(interp, src):
    """SList view of a symbolic iterable: SList itself, the rest of an SIter (which is consumed), or an
    enumerate() of one of these."""
    if isinstance(src, SList):
        return src
    if isinstance(src, models.SIter):
        # (an eager generator-by-contract is consumed completely here: fine)
        rest = slice_(interp, src.xs, slice(src.pos, None, None)) if not (isinstance(src.pos, int) and src.pos == 0) \
            else src.xs
        src.pos = wrap(src.xs.length)
        return rest
    if isinstance(src, models.SEnumerate):
        inner = as_slist(interp, src.src)
        start = src.start
        uid = _fresh_uid(interp, inner.uid + '.enum')

        def elem(interp2, idx_term):
            return (interp2.binop(ast.Add, start, wrap(idx_term)), models.slist_elem(interp2, inner, idx_term))

        return SList(inner.length, elem, uid)
    raise Unsupported('not a symbolic sequence: %r' % (src,))


def map_comprehension(interp, node, frame, xs):
    """ListComp / GeneratorExp node with a single generator over a symbolic sequence and no conditions."""
    from .interp import Frame, PyRaise, _comp_info
    xs = frozen(xs)
    g = node.generators[0]
    st = interp.st
    xs = as_slist(interp, xs)
    uid = _fresh_uid(interp, xs.uid + '.map')
    child_info = _comp_info(frame.info, node.generators)
    enclosing = frame.enclosing + [frame.locals]

    def elem(interp2, idx_term):
        x = models.slist_elem(interp2, xs, idx_term)
        child = Frame(child_info, {}, enclosing, frame.first_arg, frame.defcls)
        interp2.assign(g.target, x, child)
        return interp2.eval(node.elt, child)

    out = SList(xs.length, elem, uid)
    # Probe on a generic element: the body must be free of ghost effects.  It may raise: every case
    # combination of the body is run (local case splits, as in quantifier bodies); the comprehension raises
    # iff the body raises for some element (the exception of the first such element), else it is the image.
    from .path import QFrame
    k = st.fresh_int(uid + '.k')
    n = xs.length
    rng = z3.And(k >= 0, k < n)
    ntrace = len(st.trace)
    leaves = []
    st.no_fork += 1
    n_pc = len(st.pc)
    n_fresh = len(st.fresh_log)
    st.solver.push()
    try:
        work = [[]]
        while work:
            qf = QFrame(work.pop())
            st.qframes.append(qf)
            n_sc = len(st.scopes)
            outcome = ('ok', None)
            try:
                with st.scope(rng):
                    if not st.infeasible_site():
                        try:
                            elem(interp, k)
                        except PyRaise as e:
                            outcome = ('raise', e.exc)
            finally:
                del st.scopes[n_sc:]
                st.qframes.pop()
            leaves.append(([c for (c, _d) in qf.decisions], outcome))
            work.extend(qf.pending)
            if len(leaves) > models.MAX_QUANT_LEAVES:
                raise Unsupported('too many case combinations in a comprehension body')
    finally:
        st.no_fork -= 1
        st.solver.pop()
        learned = st.pc[n_pc:]
        del st.pc[n_pc:]
    if len(st.trace) != ntrace:
        raise Unsupported('comprehension body has ghost effects: needs an explicit loop contract')
    created = [c for c in st.fresh_log[n_fresh:] if not c.eq(k)]
    subst = [(c, z3.Function(c.decl().name() + '@', z3.IntSort(), c.sort())(k)) for c in created]

    def at(t, j):
        if subst:
            t = z3.substitute(t, *subst)
        return z3.substitute(t, (k, j))

    for t in learned:
        t = z3.substitute(t, *subst) if subst else t
        st._add(z3.ForAll([k], t) if models._mentions(t, k) else t)
    raising = [(conds, o[1]) for (conds, o) in leaves if o[0] == 'raise']
    if not raising:
        return out
    rc = z3.Or(*[z3.And(*conds) if conds else z3.BoolVal(True) for (conds, _e) in raising])
    j = st.fresh_int(uid + '.j')
    if st.choose(2) == 0:
        # some element raises; k is the first one
        st.assume(rng)
        st.assume(at(rc, k))
        st._add(z3.ForAll([j], z3.Implies(z3.And(0 <= j, j < k), z3.Not(at(rc, j)))))
        if len(raising) == 1:
            exc = raising[0][1]
        else:
            i = st.choose(len(raising), [at(z3.And(*c) if c else z3.BoolVal(True), k) for (c, _e) in raising])
            exc = raising[i][1]
        raise PyRaise(exc)
    st._add(z3.ForAll([j], z3.Implies(z3.And(0 <= j, j < n), z3.Not(at(rc, j)))))

    def elem_ok(interp2, idx_term):
        interp2.st.assume(z3.Implies(z3.And(idx_term >= 0, idx_term < n), z3.Not(at(rc, idx_term))))
        return elem(interp2, idx_term)

    out.elem = elem_ok
    return out


def slice_(interp, xs, sl):
    st = interp.st
    if sl.step is not None and sl.step != 1:
        raise Unsupported('slice step on symbolic sequence')
    xs = frozen(xs)
    n = xs.length

    def norm(v, default):
        if v is None:
            return default
        t = to_z3(v)
        t = z3.If(t < 0, z3.If(t + n < 0, 0, t + n), z3.If(t > n, n, t))
        return t

    lo = norm(sl.start, z3.IntVal(0))
    hi = norm(sl.stop, n)
    length = z3.If(hi > lo, hi - lo, 0)
    uid = _fresh_uid(interp, xs.uid + '.slice')
    lo_s = z3.simplify(lo)

    def elem(interp2, idx_term):
        return models.slist_elem(interp2, xs, z3.simplify(lo_s + idx_term))

    return SList(z3.simplify(length), elem, uid)


def concat(interp, a, b):
    """a + b where at least one is an SList; the other may be a concrete list."""
    st = interp.st
    a, b = frozen(a), frozen(b)
    if not isinstance(a, SList):
        a = list(a)
    if not isinstance(b, SList):
        b = list(b)

    def length(v):
        return v.length if isinstance(v, SList) else z3.IntVal(len(v))

    def get(interp2, v, t):
        if isinstance(v, SList):
            return models.slist_elem(interp2, v, t)
        # concrete list at symbolic index: case split
        return interp2.getitem(list(v), wrap(t))

    la, lb = length(a), length(b)
    uid = _fresh_uid(interp, 'concat')

    def elem(interp2, idx_term):
        if interp2.st.fork(wrap(idx_term < la)):
            return get(interp2, a, idx_term)
        return get(interp2, b, z3.simplify(idx_term - la))

    out = SList(z3.simplify(la + lb), elem, uid)
    out.volatile = True      # the element function case-splits: not memoised at this level
    out.parts = parts_of(a) + parts_of(b)
    return out


def _grow(interp, xs, ys):
    """In-place growth at the end (append / extend / +=): the list object keeps its identity, the
    elements below the old length are unchanged (prefix functions of the list stay valid)."""
    snap = SList(xs.length, xs.elem, xs.uid)
    snap.cache = xs.cache
    snap.volatile = xs.volatile
    snap.ident = xs.ident
    if isinstance(ys, SList) and ys is xs:
        ys = snap
    old_len = xs.length
    ys_len = ys.length if isinstance(ys, SList) else z3.IntVal(len(ys))

    def elem(interp2, idx_term):
        if interp2.st.fork(wrap(idx_term < old_len)):
            return models.slist_elem(interp2, snap, idx_term)
        k = z3.simplify(idx_term - old_len)
        if isinstance(ys, SList):
            return models.slist_elem(interp2, ys, k)
        return interp2.getitem(list(ys), wrap(k))

    xs.length = z3.simplify(old_len + ys_len)
    xs.elem = elem
    xs.cache = {}
    xs.volatile = True


def parts_of(v):
    """Structural normal form of a (concatenated) sequence: pieces in order."""
    if isinstance(v, SList):
        return list(v.parts) if v.parts is not None else [('base', v)]
    return [('elem', x) for x in v]


def binop(interp, opcls, a, b):
    if opcls is ast.Add:
        if isinstance(a, (SList, list, tuple)) and isinstance(b, (SList, list, tuple)):
            return concat(interp, a, b)
    raise Unsupported('operator %s on symbolic sequence' % opcls.__name__)


def eq(interp, a, b):
    if a is b:
        return True
    raise Unsupported('== on symbolic sequences')


def contains(interp, xs, x):
    st = interp.st
    j = st.fresh_int('j!in')
    with st.scope(z3.And(j >= 0, j < xs.length)):
        st.no_fork += 1
        try:
            e = interp.eq(models.slist_elem(interp, xs, j), x)
        finally:
            st.no_fork -= 1
    return wrap(z3.Exists([j], z3.And(j >= 0, j < xs.length, to_z3(e))))


def method(interp, xs, name, args, kwargs):
    from .mlist import MList
    from . import mlist
    if isinstance(xs, MList) and (name in ('append', 'insert', 'pop', 'extend', 'copy', 'clear')
                                  or (xs.is_deque and name in ('popleft', 'appendleft'))):
        return mlist.method(interp, xs, name, args, kwargs)
    if name in ('append', 'extend', 'insert') and not xs.immutable:
        return _mutate_copy_cell(interp, xs, name, args)
    if name in ('insert', 'pop', 'clear', 'remove', 'sort', 'reverse'):
        raise Unsupported('mutation (%s) of an immutable symbolic sequence: declare it MListOf(...)' % name)
    if name == '__len__':
        return wrap(xs.length)
    if name == 'copy':
        return copy(xs)
    if name == '__iter__':
        return models.SIter(xs, 0)
    if name == 'append':
        (x,) = args
        _grow(interp, xs, [x])
        return None
    if name == 'extend':
        (ys,) = args
        if isinstance(ys, (SOpt, SChoice)):
            ys = interp.resolve(ys)
        if not isinstance(ys, (SList, list, tuple)):
            ys = list(interp.iterate(ys))
        _grow(interp, xs, ys)
        return None
    raise Unsupported('method %s on symbolic-length sequence' % name)


def _mutate_copy_cell(interp, xs, name, args):
    """append / extend / insert(0, .) on a mutable copy made by list(xs) (elements of any kind, e.g. opaque
    objects): the cell's contents are replaced by the concatenation; aliases see the same object."""
    snap = copy(xs, mutable=False)
    if name == 'append':
        new = concat(interp, snap, [args[0]])
    elif name == 'extend':
        other = args[0]
        if isinstance(other, (SOpt, SChoice)):
            other = interp.resolve(other)
        new = concat(interp, snap, other if isinstance(other, SList) else list(interp.iterate(other)))
    else:
        if args[0] != 0 or isinstance(args[0], bool):
            raise Unsupported('insert into a symbolic-length sequence other than at position 0')
        new = concat(interp, [args[1]], snap)
    _replace_contents(xs, new)
    return None


class FilteredSList(SList):
    """`[body(x) for x in xs if cond(x)]`: defined by ghost maps
         src(k)    -- index in xs of the k-th item of the result (strictly increasing),
         pos_of(i) -- position in the result of xs[i] when cond(xs[i]) holds."""
    __slots__ = ('src_fn', 'pos_fn', 'source')


def filter_comprehension(interp, node, frame, xs):
    """ListComp / GeneratorExp with one generator over a symbolic sequence WITH conditions.
    body and conditions must be pure and total (probed on a generic element)."""
    from .interp import Frame, _comp_info
    g = node.generators[0]
    xs = as_slist(interp, xs)
    child_info = _comp_info(frame.info, node.generators)
    enclosing = frame.enclosing + [frame.locals]

    def at(interp2, x):
        child = Frame(child_info, {}, enclosing, frame.first_arg, frame.defcls)
        interp2.assign(g.target, x, child)
        return child

    def cond(interp2, x):
        child = at(interp2, x)
        ts = [to_z3(interp2.truth(interp2.eval(c, child))) for c in g.ifs]
        return z3.And(*ts) if len(ts) > 1 else ts[0]

    def body(interp2, x):
        return interp2.eval(node.elt, at(interp2, x))

    return filtered(interp, xs, cond, body)


def filtered(interp, xs, cond, body=None):
    """The sub-sequence of xs of the elements satisfying cond (optionally mapped by body), defined by
    the ghost maps src / pos_of (see FilteredSList).  cond(interp, x) -> z3 Bool term; both pure."""
    from .interp import PyRaise
    st = interp.st
    xs = as_slist(interp, xs)
    uid = _fresh_uid(interp, xs.uid + '.filter')
    src_fn = z3.Function(uid + '.src', z3.IntSort(), z3.IntSort())
    pos_fn = z3.Function(uid + '.pos_of', z3.IntSort(), z3.IntSort())
    n_out = st.fresh_int(uid + '.len')
    st.assume(z3.And(n_out >= 0, n_out <= xs.length))

    def cond_at(interp2, i_term):
        return cond(interp2, models.slist_elem(interp2, xs, i_term))

    def elem(interp2, k_term):
        x = models.slist_elem(interp2, xs, src_fn(k_term))
        return body(interp2, x) if body is not None else x

    out = FilteredSList(n_out, elem, uid)
    out.src_fn, out.pos_fn, out.source = src_fn, pos_fn, xs
    ntrace = len(st.trace)

    def quantified(lo, hi, body_fn, name):
        j = st.fresh_int(name)
        rng = z3.And(lo <= j, j < hi)
        n_pc = len(st.pc)
        n_fresh = len(st.fresh_log)
        st.no_fork += 1
        st.solver.push()
        st.side_conditions.append([])
        try:
            with st.scope(rng):
                if st.check() == z3.unsat:
                    b = z3.BoolVal(True)
                else:
                    try:
                        b = body_fn(j)
                    except PyRaise as e:
                        raise Unsupported('filter: body/condition may raise (%r)' % (e.exc,))
        finally:
            st.no_fork -= 1
            st.solver.pop()
            learned = st.pc[n_pc:]
            del st.pc[n_pc:]
            side = st.side_conditions.pop()
        if side:
            # the defining facts of the filter do not get to assume that accesses are in range
            raise Unsupported('filter: element access not provably in range')
        created = [c for c in st.fresh_log[n_fresh:] if not c.eq(j)]
        subst = [(c, z3.Function(c.decl().name() + '@', z3.IntSort(), c.sort())(j)) for c in created]
        if subst:
            learned = [z3.substitute(t, *subst) for t in learned]
            b = z3.substitute(b, *subst)
        for t in learned:
            st._add(z3.ForAll([j], t) if models._mentions(t, j) else t)
        st._add(z3.ForAll([j], z3.Implies(rng, b)))

    # every item comes from an element that satisfies the condition, in increasing source order
    quantified(z3.IntVal(0), n_out,
               lambda k: z3.And(src_fn(k) >= 0, src_fn(k) < xs.length, pos_fn(src_fn(k)) == k), uid + '.k')
    quantified(z3.IntVal(0), n_out, lambda k: cond_at(interp, src_fn(k)), uid + '.k')
    quantified(z3.IntVal(0), n_out - 1, lambda k: src_fn(k) < src_fn(k + 1), uid + '.k')
    # every element that satisfies the condition is in the result
    quantified(z3.IntVal(0), xs.length,
               lambda i: z3.Implies(cond_at(interp, i),
                                    z3.And(pos_fn(i) >= 0, pos_fn(i) < n_out, src_fn(pos_fn(i)) == i)), uid + '.i')
    if len(st.trace) != ntrace:
        raise Unsupported('filter has ghost effects: needs an explicit loop contract')
    return out


def reversed_(interp, xs):
    xs = as_slist(interp, xs)
    n = xs.length
    uid = _fresh_uid(interp, xs.uid + '.reversed')

    def elem(interp2, idx_term):
        return models.slist_elem(interp2, xs, z3.simplify(n - 1 - idx_term))

    return SList(n, elem, uid)


class SortedSList(SList):
    """sorted(xs): a permutation of xs (ghost bijection perm / inv) in non-decreasing order"""
    __slots__ = ('perm_fn', 'inv_fn', 'source')


def order_key(interp, v):
    """what `<` compares: the value itself, or for an opaque object the attribute its interface names
    in ``sort_key`` (the model of its rich comparison)"""
    if isinstance(v, Opaque):
        attr = getattr(v._pv_iface, 'sort_key', None)
        if attr is None:
            raise Unsupported('ordering of opaque objects whose interface has no sort_key')
        return interp.getattr(v, attr)
    return v


def _le_lex(a, b):
    """a <= b for ints or tuples of ints (lexicographic), as a z3 term"""
    if isinstance(a, tuple):
        if len(a) != len(b):
            raise Unsupported('sorted: tuples of different lengths')
        if not a:
            return z3.BoolVal(True)
        ta, tb = to_z3(a[0]), to_z3(b[0])
        if len(a) == 1:
            return ta <= tb
        return z3.Or(ta < tb, z3.And(ta == tb, _le_lex(a[1:], b[1:])))
    ta, tb = to_z3(a), to_z3(b)
    if z3.is_string(ta):
        return ta <= tb
    return ta <= tb


def _elem_patterns(interp, xs, k):
    """scalar leaf terms of the element of xs at the (bound) index k that mention k: triggers for axioms that
    are about `the element of xs at k`"""
    st = interp.st
    n_pc = len(st.pc)
    st.no_fork += 1
    st.solver.push()
    st.side_conditions.append([])
    leaves = []
    try:
        with st.scope(z3.And(0 <= k, k < xs.length)):
            if st.check() != z3.unsat:
                try:
                    e = models.slist_elem(interp, xs, k)
                except Exception:
                    e = None

                def walk(v):
                    if isinstance(v, (tuple, list)):
                        for x in v:
                            walk(x)
                    elif isinstance(v, (SInt, SBool, SStr)):
                        leaves.append(v.t)

                walk(e)
    finally:
        st.no_fork -= 1
        st.solver.pop()
        del st.pc[n_pc:]
        st.side_conditions.pop()
    out = []
    for t in leaves:
        if z3.is_app(t) and t.num_args() > 0 and not z3.is_and(t) and models._mentions(t, k) \
                and t.decl().kind() == z3.Z3_OP_UNINTERPRETED:
            out.append(t)
    return out[:1]


def sorted_(interp, xs):
    st = interp.st
    xs = as_slist(interp, xs)
    n = xs.length
    uid = _fresh_uid(interp, xs.uid + '.sorted')
    perm = z3.Function(uid + '.perm', z3.IntSort(), z3.IntSort())
    inv = z3.Function(uid + '.inv', z3.IntSort(), z3.IntSort())

    def elem(interp2, k_term):
        # instance of the bijection fact (kept quantifier-free for the feasibility solver)
        interp2.st.assume(z3.Implies(z3.And(k_term >= 0, k_term < n), z3.And(perm(k_term) >= 0, perm(k_term) < n)))
        return models.slist_elem(interp2, xs, perm(k_term))

    out = SortedSList(n, elem, uid)
    out.perm_fn, out.inv_fn, out.source = perm, inv, xs
    k = st.fresh_int(uid + '.k')
    rng = z3.And(0 <= k, k < n)
    st._add(z3.ForAll([k], z3.Implies(rng, z3.And(perm(k) >= 0, perm(k) < n, inv(perm(k)) == k)),
                      patterns=[perm(k)]))
    # "every element of the source is somewhere in the result": to be instantiated whenever an element of the
    # source at some index is talked about (the position inv(k) in the result is not a term the goal mentions)
    src_patterns = [inv(k)] + _elem_patterns(interp, xs, k)
    st._add(z3.ForAll([k], z3.Implies(rng, z3.And(inv(k) >= 0, inv(k) < n, perm(inv(k)) == k)),
                      patterns=src_patterns))
    # order (element shapes: ints / tuples of ints / strings)
    j = st.fresh_int(uid + '.j')
    n_pc = len(st.pc)
    st.no_fork += 1
    st.solver.push()
    st.side_conditions.append([])
    try:
        with st.scope(z3.And(0 <= j, j < n - 1)):
            if st.check() != z3.unsat:
                st.assume(z3.And(perm(j) >= 0, perm(j) < n, perm(j + 1) >= 0, perm(j + 1) < n))
                a = order_key(interp, models.slist_elem(interp, xs, perm(j)))
                b = order_key(interp, models.slist_elem(interp, xs, perm(j + 1)))
                order = _le_lex(a, b)
            else:
                order = z3.BoolVal(True)
    finally:
        st.no_fork -= 1
        st.solver.pop()
        learned = st.pc[n_pc:]
        del st.pc[n_pc:]
        st.side_conditions.pop()
    for t in learned:
        st._add(z3.ForAll([j], t) if models._mentions(t, j) else t)
    st._add(z3.ForAll([j], z3.Implies(z3.And(0 <= j, j < n - 1), order)))
    return out
