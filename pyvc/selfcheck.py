"""setup_cmd: verifies that the framework can run here (imports, solvers); builds nothing."""
import shutil
import subprocess
import sys


def main():
    import z3
    from . import REPO_SRC
    import exactly_lib  # noqa: F401  (pure stdlib; imported from the current tree)
    s = z3.Solver()
    x = z3.Int('x')
    s.add(x > 1, x < 3)
    assert s.check() == z3.sat and s.model()[x].as_long() == 2
    for tool in ('/usr/bin/cvc5', '/usr/bin/z3'):
        assert shutil.which(tool), tool
    p = subprocess.run(['/usr/bin/cvc5', '--version'], capture_output=True, text=True)
    assert p.returncode == 0
    print('pyvc self-check ok: z3 %s, exactly_lib from %s' % (z3.get_version_string(), REPO_SRC))
    return 0


if __name__ == '__main__':
    sys.exit(main())
