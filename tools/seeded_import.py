#!/usr/bin/env python3
"""Imports the output of a seeding sub-agent (/tmp/seed/<ID>-out/{change,demo,meta}<i>) into /verif/seeded/<ID>-s<i>/
after confirming in a scratch worktree of /repo (/tmp/seedverify, at /repo's HEAD): the patch applies, the pinned
suite still passes, the demonstration exits 1 with the change and 0 without it."""
import json, os, shutil, subprocess, sys
pid = sys.argv[1]
src = '/tmp/seed/%s-out' % pid
offset = 0
if '--round2' in sys.argv:          # second wave: /tmp/seed/<ID>-out2/ -> seeded/<ID>-s4..6
    src, offset = '/tmp/seed/%s-out2' % pid, 3
if '--src' in sys.argv:             # later waves: --src DIR --offset N -> seeded/<ID>-s<N+1>..
    src = sys.argv[sys.argv.index('--src') + 1]
    offset = int(sys.argv[sys.argv.index('--offset') + 1])
wt = '/tmp/seedverify'
head = subprocess.run(['git', '-C', '/repo', 'rev-parse', 'HEAD'], capture_output=True, text=True, check=True).stdout.strip()
if not os.path.isdir(wt):
    subprocess.run(['git', '-C', '/repo', 'worktree', 'add', '--detach', '-q', wt, head], check=True)
subprocess.run(['git', '-C', wt, 'checkout', '-q', '--', '.'], check=True)
subprocess.run(['git', '-C', wt, 'checkout', '-q', '--detach', head], check=True)
for i in (1, 2, 3):
    diff = os.path.join(src, 'change%d.diff' % i)
    if not os.path.exists(diff):
        continue
    subprocess.run(['git', '-C', wt, 'checkout', '-q', '--', '.'], check=True)
    demo = os.path.join(src, 'demo%d.py' % i)
    env = dict(os.environ, PYTHONPATH=os.path.join(wt, 'src'))
    clean = subprocess.run(['/venv/bin/python', '-W', 'ignore', demo], env=env, capture_output=True, text=True, cwd=src, timeout=900).returncode
    ap = subprocess.run(['git', '-C', wt, 'apply', diff], capture_output=True, text=True)
    if ap.returncode != 0:
        print(pid, i, 'PATCH DOES NOT APPLY', ap.stderr[:200]); continue
    mut = subprocess.run(['/venv/bin/python', '-W', 'ignore', demo], env=env, capture_output=True, text=True, cwd=src, timeout=900).returncode
    base = subprocess.run(['python3', '/verif/tools/baseline_check.py'], env=dict(os.environ, REPO_DIR=wt), capture_output=True, text=True)
    subprocess.run(['git', '-C', wt, 'checkout', '-q', '--', '.'], check=True)
    ok = clean == 0 and mut == 1 and base.returncode == 0
    print(pid, i, 'demo clean=%d mutated=%d pinned-suite=%s -> %s' % (clean, mut, base.stdout.strip().splitlines()[0] if base.stdout.strip() else base.stderr[-100:], 'KEEP' if ok else 'REJECT'))
    if ok:
        d = '/verif/seeded/%s-s%d' % (pid, i + offset)
        os.makedirs(d, exist_ok=True)
        shutil.copy(diff, os.path.join(d, 'patch.diff'))
        shutil.copy(demo, os.path.join(d, 'demo.py'))
        meta = json.load(open(os.path.join(src, 'meta%d.json' % i)))
        meta['property'] = pid
        meta['confirmed_by_coordinator'] = {
            'worktree': 'scratch git worktree of /repo at its HEAD (removed afterwards)',
            'commands': ['git apply patch.diff', 'python3 tools/baseline_check.py (pinned 155 tests still pass)',
                         'PYTHONPATH=<worktree>/src /venv/bin/python demo.py -> exit 1', 'git checkout -- . ; demo.py -> exit 0']}
        json.dump(meta, open(os.path.join(d, 'meta.json'), 'w'), indent=1)
