#!/usr/bin/env python3
"""Runs the registered checks against every seeded change under /verif/seeded/<id>/ (patch.diff, demo.py,
meta.json) on a scratch copy of /repo/src (PYVC_REPO), never touching /repo, and writes result.json.

  python3 tools/seeded_check.py [id-substring] [--on-repo]

--on-repo: apply the patch to /repo itself with `git apply`, run, and undo with `git checkout -- .`
(only when nothing else is reading /repo)."""
import glob, json, os, shutil, subprocess, sys, tempfile

VERIF = os.path.dirname(os.path.dirname(os.path.abspath(__file__)))
only = [a for a in sys.argv[1:] if not a.startswith('--')]
on_repo = '--on-repo' in sys.argv
rows = []
for d in sorted(glob.glob(os.path.join(VERIF, 'seeded', '*'))):
    if not os.path.isdir(d) or (only and not any(o in d for o in only)):
        continue
    meta = json.load(open(os.path.join(d, 'meta.json')))
    prop = meta['property']
    patch = os.path.join(d, 'patch.diff')
    demo = os.path.join(d, 'demo.py')
    tmp = None
    try:
        if on_repo:
            subprocess.run(['git', '-C', '/repo', 'apply', patch], check=True)
            root = '/repo'
        else:
            tmp = tempfile.mkdtemp(prefix='seeded-')
            shutil.copytree('/repo/src', os.path.join(tmp, 'src'))
            subprocess.run(['patch', '-p1', '-s', '-d', tmp, '-i', patch], check=True)
            root = tmp
        env = dict(os.environ, PYTHONPATH=os.path.join(root, 'src'))
        r_demo_mut = subprocess.run(['/venv/bin/python', '-W', 'ignore', demo], env=env, capture_output=True, text=True,
                                    cwd=d, timeout=600).returncode
        env2 = dict(os.environ, PYVC_REPO=root)
        p = subprocess.run(['python3-vt', '-m', 'pyvc.check', prop, '--no-evidence', '--jobs', '8'], cwd=VERIF, env=env2,
                           capture_output=True, text=True, timeout=3600)
        out = p.stdout
        obligations = [l.strip()[len('obligation: '):] for l in out.splitlines() if l.strip().startswith('obligation: ')]
        viol = [l for l in out.splitlines() if l.startswith('VIOLATION')]
        res = {'demo_exit_with_change': r_demo_mut, 'check_exit': p.returncode,
               'violations': len(viol), 'native_replays': sum(1 for v in viol if 'no-failing-input-found' not in v),
               'obligations_failed': obligations[:8], 'summary_line': out.strip().splitlines()[-1] if out.strip() else ''}
    finally:
        if on_repo:
            subprocess.run(['git', '-C', '/repo', 'checkout', '--', '.'], check=True)
        elif tmp:
            shutil.rmtree(tmp, ignore_errors=True)
    r_demo_clean = subprocess.run(['/venv/bin/python', '-W', 'ignore', demo], env=dict(os.environ, PYTHONPATH='/repo/src'),
                                  capture_output=True, text=True, cwd=d, timeout=600).returncode
    res['demo_exit_unchanged'] = r_demo_clean
    res['caught'] = res['check_exit'] == 1 and res['violations'] > 0
    json.dump(res, open(os.path.join(d, 'result.json'), 'w'), indent=1)
    rows.append((os.path.basename(d), prop, res['caught'], res['demo_exit_with_change'], r_demo_clean,
                 (res['obligations_failed'] or ['-'])[0][:110]))
for r in rows:
    print('%-28s %s caught=%s demo(mut)=%s demo(clean)=%s  %s' % r)
