#!/usr/bin/env python3
"""Imports property-preserving changes delivered by a reviewing agent in /tmp/benign/<ID>-out/ into
/verif/benign/<ID>-b<i>/ (patch.diff, meta.json) after confirming that the patch applies to /repo's HEAD.

  python3 tools/benign_import.py C01"""
import glob, json, os, shutil, subprocess, sys, tempfile
VERIF = os.path.dirname(os.path.dirname(os.path.abspath(__file__)))
pid = sys.argv[1]
src = '/tmp/benign/%s-out' % pid
for diff in sorted(glob.glob(os.path.join(src, 'change*.diff'))):
    i = os.path.basename(diff)[len('change'):-len('.diff')]
    tmp = tempfile.mkdtemp(prefix='benign-')
    try:
        shutil.copytree('/repo/src', os.path.join(tmp, 'src'))
        ok = subprocess.run(['patch', '-p1', '-s', '-d', tmp, '-i', diff]).returncode == 0
        ok = ok and subprocess.run(['/venv/bin/python', '-W', 'ignore', '-c', 'import exactly_lib.cli_default.default_main_program_setup'],
                                   env=dict(os.environ, PYTHONPATH=os.path.join(tmp, 'src'))).returncode == 0
    finally:
        shutil.rmtree(tmp, ignore_errors=True)
    if not ok:
        print(pid, i, 'does not apply / import: skipped')
        continue
    d = os.path.join(VERIF, 'benign', '%s-b%s' % (pid, i))
    os.makedirs(d, exist_ok=True)
    shutil.copy(diff, os.path.join(d, 'patch.diff'))
    meta = os.path.join(src, 'meta%s.json' % i)
    if os.path.exists(meta):
        shutil.copy(meta, os.path.join(d, 'meta.json'))
    else:
        json.dump({'property': pid}, open(os.path.join(d, 'meta.json'), 'w'))
    print(pid, i, 'imported')
