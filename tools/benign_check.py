#!/usr/bin/env python3
"""Runs the registered checks against every property-preserving change under /verif/benign/<id>/ on a scratch
copy of /repo/src (PYVC_REPO): the check of the change's property must exit 0 (no alarm).  With --all-props
every property whose baseline mentions a changed file is checked as well.

  python3 tools/benign_check.py [id-substring] [--all-props]"""
import glob, json, os, re, shutil, subprocess, sys, tempfile
VERIF = os.path.dirname(os.path.dirname(os.path.abspath(__file__)))
only = [a for a in sys.argv[1:] if not a.startswith('--')]
all_props = '--all-props' in sys.argv
PROPS = sorted({os.path.basename(f)[:3] for f in glob.glob(os.path.join(VERIF, 'contracts', 'C[0-9][0-9]*.py'))})
rows = []
for d in sorted(glob.glob(os.path.join(VERIF, 'benign', '*'))):
    if not os.path.isdir(d) or (only and not any(o in d for o in only)):
        continue
    meta = json.load(open(os.path.join(d, 'meta.json')))
    patch = os.path.join(d, 'patch.diff')
    props = [meta['property']]
    if all_props:
        props = PROPS
    tmp = tempfile.mkdtemp(prefix='benign-')
    res = {}
    try:
        shutil.copytree('/repo/src', os.path.join(tmp, 'src'))
        subprocess.run(['patch', '-p1', '-s', '-d', tmp, '-i', patch], check=True)
        for prop in props:
            p = subprocess.run(['python3-vt', '-m', 'pyvc.check', prop, '--no-evidence', '--jobs', '10'], cwd=VERIF,
                               env=dict(os.environ, PYVC_REPO=tmp), capture_output=True, text=True, timeout=3600)
            out = p.stdout
            res[prop] = {'exit': p.returncode,
                         'lines': [l for l in out.splitlines() if l.startswith(('VIOLATION', 'UNDECIDED', 'CHECKER-ERROR', '  obligation:'))][:12],
                         'summary': out.strip().splitlines()[-1] if out.strip() else ''}
    finally:
        shutil.rmtree(tmp, ignore_errors=True)
    json.dump(res, open(os.path.join(d, 'result.json'), 'w'), indent=1)
    bad = {k: v['exit'] for k, v in res.items() if v['exit'] != 0}
    rows.append((os.path.basename(d), 'no alarm' if not bad else 'ALARM %s' % bad,
                 '; '.join(l for v in res.values() if v['exit'] != 0 for l in v['lines'][:2])[:200]))
for r in rows:
    print('%-12s %-22s %s' % r)
