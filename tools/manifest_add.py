#!/usr/bin/env python3
"""usage: manifest_add.py Cxx "<level text>" "<level note>" "<design ref>" """
import json, sys
pid, text, note, ref = sys.argv[1:5]
m = json.load(open('/verif/MANIFEST.json'))
chk = {"property_id": pid,
       "quick_cmd": "python3-vt -m pyvc.check %s --tier quick" % pid,
       "thorough_cmd": "python3-vt -m pyvc.check %s --tier thorough" % pid,
       "evidence_file": "evidence/%s.json" % pid,
       "replay_cmd_template": "PYTHONPATH=/repo/src /venv/bin/python {path}",
       "engine": "pyvc",
       "technique": "contract-based deductive verification: VCs generated from the AST of the real functions (sidecar contracts, loop invariants, ghost state), discharged by z3/cvc5",
       "level_claimed": {"category": "proof", "text": text, "design_ref": ref},
       "level_note": note}
m['checks'] = [c for c in m['checks'] if c['property_id'] != pid] + [chk]
m['checks'].sort(key=lambda c: c['property_id'])
m['engines'][0]['serves_properties'] = sorted(c['property_id'] for c in m['checks'])
m['not_applicable'] = [x for x in m.get('not_applicable', []) if x['property_id'] != pid]
json.dump(m, open('/verif/MANIFEST.json', 'w'), indent=1)
print('checks:', [c['property_id'] for c in m['checks']])
