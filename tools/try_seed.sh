#!/bin/bash
# tools/try_seed.sh <seeded-id> <property> [extra args]: the quick check of <property> against the seeded change on a scratch copy
id=$1; prop=$2; shift 2
tmp=$(mktemp -d /tmp/tryseed-XXXX); cp -r /repo/src $tmp/src
patch -p1 -s -d $tmp -i /verif/seeded/$id/patch.diff || exit 9
cd /verif && PYVC_REPO=$tmp python3-vt -m pyvc.check $prop --no-evidence --jobs ${JOBS:-8} "$@" 2>&1 | grep -E "VIOLATION|obligation:|UNDECIDED|CHECKER|obligations," | cut -c1-260
rm -rf $tmp
