#!/usr/bin/env python3
"""Runs the pinned baseline suite of /repo and compares with /root/.vp/BASELINE.json (stable_pass)."""
import json, subprocess, sys, tempfile, os, xml.etree.ElementTree as ET, ast
b = json.load(open('/root/.vp/BASELINE.json'))
stable = b['stable_pass']
if isinstance(stable, str):
    stable = ast.literal_eval(stable)
fd, xml = tempfile.mkstemp(suffix='.xml'); os.close(fd)
cmd = 'cd ' + os.environ.get('REPO_DIR', '/repo') + ' && /venv/bin/python -m pytest -ra -q -p no:cacheprovider --timeout=900 --continue-on-collection-errors --junitxml=%s' % xml
p = subprocess.run(cmd, shell=True, capture_output=True, text=True)
passed = set()
for tc in ET.parse(xml).getroot().iter('testcase'):
    if not any(ch.tag in ('failure', 'error', 'skipped') for ch in tc):
        passed.add('%s::%s' % (tc.get('classname'), tc.get('name')))
os.unlink(xml)
missing = [t for t in stable if t not in passed]
print('baseline: %d stable tests, %d now passing, %d missing' % (len(stable), len(passed), len(missing)))
for t in missing[:20]:
    print('  MISSING', t)
sys.exit(1 if missing else 0)
