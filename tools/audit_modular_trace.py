"""Development aid:  PYTHONPATH=. python3-vt tools/audit_modular_trace.py C10 C19
Lists functions under contract that (a) have aborted paths or (b) call a NON-inline contract whose `ensures`
mention `trace`.  (b) is a vacuity trap: at a call site a contract does not emit the callee's ghost events, so
clauses about the trace are assumed of the CALLER's trace, usually contradict it, and the path silently dies.
Give such callees `inline=True` (call sites interpret the body) or state them through `event=`."""
import sys
import threading

sys.setrecursionlimit(20000)
threading.stack_size(256 * 1024 * 1024)


def run(props):
    from pyvc import check, verify
    from pyvc.loops import _param_names
    mods = check.load_modules()
    reg = check.build_registry(mods)
    check._REG = reg
    tracey = set()
    for q, c in reg.contracts.items():
        if c.inline or c.trusted:
            continue
        names = set()
        for cl in c.ensures.values():
            names |= set(_param_names(cl[0] if isinstance(cl, tuple) else cl))
        if 'trace' in names:
            tracey.add(q)
    n = 0
    for q, c in reg.contracts.items():
        if not (set(c.props) & set(props)) or c.trusted or c.func is None:
            continue
        rep = verify.verify_function(reg, c)
        n += 1
        bad = rep.used_contracts & tracey
        if bad or rep.aborted_paths or 'return' not in rep.outcomes:
            print(q, 'aborted=%d' % rep.aborted_paths, 'paths=%d' % rep.paths, 'outcomes=%s' % rep.outcomes,
                  'calls-trace-contracts=%s' % sorted(bad))
    print('audited %d functions' % n)


if __name__ == '__main__':
    th = threading.Thread(target=run, args=(sys.argv[1:],))
    th.start()
    th.join()
