#!/bin/bash
# runs the quick check of every property that has a contract module; prints summary + exit code
cd "$(dirname "$0")/.."
if [[ " $* " == *" --write-baseline "* ]]; then python3-vt -m pyvc.pinned_names; fi
for p in $(ls contracts/ | grep -oE '^[CT][0-9]{2}' | sort -u); do
  out=$(python3-vt -m pyvc.check $p --jobs ${JOBS:-12} --no-evidence "$@" 2>&1); rc=$?
  echo "exit=$rc $(echo "$out" | tail -1)"
done
