#!/bin/bash
# tools/seeded_check_parallel.sh <pattern> ...: seeded_check.py for each given id pattern group, GROUPS at a time
# usage: tools/seeded_check_parallel.sh 3 "C01-s7 C01-s8 C01-s9" "C02-s7 C02-s8 C02-s9" ...
n=$1; shift
cd "$(dirname "$0")/.."
i=0
for g in "$@"; do
  ( python3 tools/seeded_check.py $g > /tmp/seeded_par_$i.log 2>&1 ) &
  i=$((i+1))
  while [ $(jobs -r | wc -l) -ge $n ]; do sleep 5; done
done
wait
cat /tmp/seeded_par_*.log | grep "caught="
