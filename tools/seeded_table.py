#!/usr/bin/env python3
"""Prints the markdown table of DESIGN.md A.4 from seeded/*/meta.json + result.json and benign/*/meta.json + result.json."""
import glob, json, os
VERIF = os.path.dirname(os.path.dirname(os.path.abspath(__file__)))
print('| seeded change | what it does | caught | native replays / violations | first obligation that fails |')
print('|---|---|---|---|---|')
for d in sorted(glob.glob(os.path.join(VERIF, 'seeded', '*'))):
    try:
        m = json.load(open(os.path.join(d, 'meta.json'))); r = json.load(open(os.path.join(d, 'result.json')))
    except Exception:
        continue
    ob = (r.get('obligations_failed') or ['-'])[0]
    ob = ob.replace('exactly_lib.', '').replace('|', '/')
    print('| %s | %s | %s | %d / %d | `%s` |' % (os.path.basename(d), (m.get('summary') or '')[:160].replace('|', '/').replace('\n', ' '),
                                            'yes' if r.get('caught') else '**no**', r.get('native_replays', 0), r.get('violations', 0), ob[:170]))
print()
print('| property-preserving change | what it does | verdict of the check |')
print('|---|---|---|')
for d in sorted(glob.glob(os.path.join(VERIF, 'benign', '*'))):
    try:
        m = json.load(open(os.path.join(d, 'meta.json'))); r = json.load(open(os.path.join(d, 'result.json')))
    except Exception:
        continue
    bad = {k: v for k, v in r.items() if v['exit'] != 0}
    verdict = 'no alarm' if not bad else '**alarm** (exit %s): %s' % (
        ','.join(str(v['exit']) for v in bad.values()),
        '; '.join((l.split('obligation: ')[-1] if 'obligation:' in l else l)[:140] for v in bad.values() for l in v['lines'][1:2]).replace('|', '/').replace('exactly_lib.', ''))
    print('| %s | %s | %s |' % (os.path.basename(d), (m.get('summary') or '')[:200].replace('|', '/').replace('\n', ' '), verdict))
