#!/usr/bin/env python3
"""Rewrites the generated tables A.5 / A.6 of DESIGN.md (between the A5/A6 markers)."""
import os, subprocess, sys
VERIF = os.path.dirname(os.path.dirname(os.path.abspath(__file__)))
out = subprocess.run([sys.executable, os.path.join(VERIF, 'tools', 'seeded_table.py')], capture_output=True, text=True, check=True).stdout
a5, _, a6 = out.partition('\n\n')
p = os.path.join(VERIF, 'DESIGN.md')
s = open(p).read()
def put(s, tag, body):
    b, e = '<!-- %s-BEGIN -->' % tag, '<!-- %s-END -->' % tag
    i, j = s.index(b) + len(b), s.index(e)
    return s[:i] + '\n' + body.strip('\n') + '\n' + s[j:]
seeds = [l for l in a5.splitlines() if l.startswith('| C')]
caught = sum(1 for l in seeds if '| yes |' in l)
ben = [l for l in a6.splitlines() if l.startswith('| C')]
quiet = sum(1 for l in ben if '| no alarm |' in l)
s = put(s, 'A5', '%d seeded changes, %d caught.\n\n%s' % (len(seeds), caught, a5))
s = put(s, 'A6', '%d property-preserving changes, %d without alarm.\n\n%s' % (len(ben), quiet, a6))
open(p, 'w').write(s)
print('A.5: %d/%d caught; A.6: %d/%d quiet' % (caught, len(seeds), quiet, len(ben)))
