#!/bin/bash
# tools/benign_check_parallel.sh N group...: benign_check.py for each id-pattern group, N at a time
n=$1; shift
cd "$(dirname "$0")/.."
i=0
for g in "$@"; do
  ( python3 tools/benign_check.py $g > /tmp/benign_par_$i.log 2>&1 ) &
  i=$((i+1))
  while [ $(jobs -r | wc -l) -ge $n ]; do sleep 5; done
done
wait
