"""C19 -- timeouts are enforced on every OS process.

Proof of the *plumbing* (DESIGN "### C19"):
 (1) choke point: the only places of the source tree that can start an OS process are
     util/process_execution/process_executor.py (test-case processes) and processing/preprocessor.py;
 (2) ProcessExecutor.execute forwards `timeout=settings.timeout_in_seconds`; TimeoutExpired becomes
     ProcessExecutionException, which CommandExecutorFromProcessExecutor turns into HardErrorException
     (contracts shared with C10, module C10_process);
 (3) every site between an instruction environment and the command executor hands on the environment's
     settings (or its timeout) unchanged;
 (4) the environment's settings are built, at the time the environment is requested, from the current
     InstructionSettings, whose only writer is the main step of the `timeout` instruction.
The liveness half (the child is killed, the call returns promptly) is CPython's subprocess: trusted."""
import ast
import os
import pathlib

from pyvc import REPO_SRC
from pyvc.api import (Module, Interface, Method, Iface, Inst, Int, Nat, Bool, Str, Opt, OneOf, Const, Union,
                      ListOf, FixedList, Any_, EnumOf, Custom, new_opaque, assume_pred)
from contracts.common import implies, iff
from contracts.C10_process import (SETTINGS, CommandExecutorI, OsServicesI, FsPathI, FileI, FileCtxI, StdinCtxI,
                                   executions, execution_results, timeout_of, environ_of, EXECUTE, _mk_hard_error)

from exactly_lib.test_case.hard_error import HardErrorException
from exactly_lib.util.process_execution.execution_elements import ProcessExecutionSettings
from exactly_lib.util.process_execution.result_files import DirWithResultFiles

M = Module('C19')

M.trust('subprocess.call(..., timeout=t): when the child has not exited after t seconds it is killed and '
        'subprocess.TimeoutExpired is raised promptly; timeout=None waits without limit (CPython subprocess; '
        'grandchildren of a shell child, SIGTERM handling and wall-clock bounds are outside what a deductive '
        'proof about this repository can establish)')


# ------------------------------------------------------------------------------ (1) the choke point

PROCESS_STARTERS = {
    'subprocess': None,      # every attribute of subprocess except the constants below
    'os': ('system', 'popen', 'fork', 'forkpty', 'posix_spawn', 'posix_spawnp', 'startfile'),
    'os-prefixes': ('exec', 'spawn'),
    'pty': None, 'multiprocessing': None, 'concurrent.futures': None, 'asyncio': None, 'pexpect': None,
    'commands': None, 'popen2': None,
}
HARMLESS_SUBPROCESS_NAMES = ('DEVNULL', 'PIPE', 'STDOUT', 'TimeoutExpired', 'CalledProcessError', 'SubprocessError')
ALLOWED_FILES = ('util/process_execution/process_executor.py', 'processing/preprocessor.py')


def _process_start_references(tree):
    """(lineno, text) of every reference in a module that could start an OS process"""
    found = []
    mod_alias = {}      # local name -> module it stands for
    for n in ast.walk(tree):
        if isinstance(n, ast.Import):
            for al in n.names:
                root = al.name.split('.')[0]
                if al.name in PROCESS_STARTERS or root in PROCESS_STARTERS:
                    mod_alias[al.asname or root] = al.name if al.asname else root
                if root in ('pty', 'multiprocessing', 'asyncio', 'pexpect', 'commands', 'popen2') \
                        or al.name.startswith('concurrent.futures'):
                    found.append((n.lineno, 'import ' + al.name))
        elif isinstance(n, ast.ImportFrom) and n.module:
            root = n.module.split('.')[0]
            if root == 'subprocess':
                for al in n.names:
                    if al.name not in HARMLESS_SUBPROCESS_NAMES:
                        found.append((n.lineno, 'from subprocess import ' + al.name))
            elif root == 'os' and n.module == 'os':
                for al in n.names:
                    if al.name in PROCESS_STARTERS['os'] or al.name.startswith(PROCESS_STARTERS['os-prefixes']):
                        found.append((n.lineno, 'from os import ' + al.name))
            elif root in ('pty', 'multiprocessing', 'asyncio', 'pexpect', 'commands', 'popen2') \
                    or n.module.startswith('concurrent.futures'):
                found.append((n.lineno, 'from %s import ...' % n.module))
    for n in ast.walk(tree):
        if isinstance(n, ast.Attribute) and isinstance(n.value, ast.Name):
            m = mod_alias.get(n.value.id)
            if m == 'subprocess' and n.attr not in HARMLESS_SUBPROCESS_NAMES:
                found.append((n.lineno, 'subprocess.' + n.attr))
            elif m == 'os' and (n.attr in PROCESS_STARTERS['os'] or n.attr.startswith(PROCESS_STARTERS['os-prefixes'])):
                found.append((n.lineno, 'os.' + n.attr))
        elif isinstance(n, ast.Call) and isinstance(n.func, ast.Name) and n.func.id in ('__import__', 'eval', 'exec'):
            # dynamic code could hide a process start: only the known uses are accepted
            found.append((n.lineno, n.func.id + '(...)'))
    return sorted(set(found))


# Dynamic evaluation sites of the unchanged tree, listed by name so that a new one fails the obligation.
# evaluate_integer.python_evaluate is `eval(s)` of an integer expression written in the test case: the
# expression is arbitrary Python, so a test author CAN start a process there (natively confirmed:
# python_evaluate("__import__('os').system('sleep 100')") runs the command, without any timeout).  That
# process is started by the test author's expression, not by one of the program uses the property lists
# (action to check, run/$/%, programs as text sources / transformers / matchers); it is recorded as an
# explicit assumption and reported in notes/C19.md.
ALLOWED_DYNAMIC = {
    'impls/types/integer/evaluate_integer.py': ('eval(...)',),
}
M.assume('integer expressions of a test case (evaluated by impls/types/integer/evaluate_integer.python_evaluate with '
         'the builtin eval) do not themselves start OS processes; the frame obligation `choke-point` accepts exactly '
         'this one eval site')


@M.check('choke-point')
def _choke_point(ctx):
    root = os.path.join(REPO_SRC, 'exactly_lib')
    per_file = {}
    n_files = 0
    for dirpath, _dirs, files in os.walk(root):
        for fn in files:
            if not fn.endswith('.py'):
                continue
            n_files += 1
            path = os.path.join(dirpath, fn)
            rel = os.path.relpath(path, root).replace(os.sep, '/')
            refs = _process_start_references(ast.parse(open(path, encoding='utf-8').read(), path))
            refs = [r for r in refs if r[1] not in ALLOWED_DYNAMIC.get(rel, ())]
            if refs:
                per_file[rel] = refs
    ctx.obligation('source tree scanned', n_files > 1000, 'scan', detail={'files': n_files})
    for rel in sorted(set(per_file) | set(ALLOWED_FILES)):
        refs = per_file.get(rel, [])
        if rel in ALLOWED_FILES:
            ok = [r[1] for r in refs] == ['subprocess.call']
            ctx.obligation('choke point: %s starts processes only through one subprocess.call' % rel, ok, 'scan',
                           detail={'references': refs})
        else:
            ctx.obligation('choke point: %s does not reference a process-starting function' % rel, False, 'scan',
                           detail={'references': refs})
    ctx.obligation('choke point: no file outside %s references a process-starting function' % (ALLOWED_FILES,),
                   set(per_file) <= set(ALLOWED_FILES), 'scan', detail={'offending': sorted(set(per_file) - set(ALLOWED_FILES))})
